// C23 harness, shared part: builds real Measure objects from the textual case description that the OCaml
// driver of the extracted model (ocaml/C23_drv.ml) reads as well.
//   tree   ::= C x | T | V i | S a w p | + tree tree | - tree tree | * f tree       (prefix, blank separated)
//   pexpr  ::= c x | t | s a w p | + pexpr pexpr | - pexpr pexpr | * f pexpr
// A vector operand of 3 elements is a user-defined Measure_<Vec3> (VecOf3) over three scalar measures.
#pragma once
#include "Simbody.h"
#include <cstdio>
#include <cstdlib>
#include <cstring>
#include <string>
#include <vector>
#include <sstream>
#include <iostream>
#include <memory>
using namespace SimTK;

// (a class template, like the user-defined measures of TestSimulation.cpp: the handle macros need two-phase lookup)
template <class T> class VecOf3T : public Measure_<T> {
public:
    SimTK_MEASURE_HANDLE_PREAMBLE(VecOf3T, Measure_<T>);
    VecOf3T(Subsystem& sub, const Measure& a, const Measure& b, const Measure& c)
    :   Measure_<T>(sub, new Implementation(a, b, c), AbstractMeasure::SetHandle()) {}
    SimTK_MEASURE_HANDLE_POSTSCRIPT(VecOf3T, Measure_<T>);
};
template <class T> class VecOf3T<T>::Implementation : public Measure_<T>::Implementation {
public:
    Implementation() : Measure_<T>::Implementation(T(0), 1) {}
    Implementation(const Measure& a, const Measure& b, const Measure& c)
    :   Measure_<T>::Implementation(T(0), 1), a(a), b(b), c(c) {}
    Implementation* cloneVirtual() const override {return new Implementation(*this);}
    int getNumTimeDerivativesVirtual() const override {return 0;}
    Stage getDependsOnStageVirtual(int) const override {return Stage::Time;}
    void calcCachedValueVirtual(const State& s, int, T& v) const override
    {   v = T(a.getValue(s), b.getValue(s), c.getValue(s)); }
private:
    Measure a, b, c;
};
typedef VecOf3T<Vec3> VecOf3;

static inline double rd(const std::string& s) {
    if (s == "inf") return Infinity; if (s == "-inf") return -Infinity; if (s == "nan") return NaN;
    return std::strtod(s.c_str(), nullptr);   // accepts C99 hex floats
}
struct Toks {
    std::vector<std::string> v; size_t p = 0;
    explicit Toks(const std::string& line) { std::istringstream is(line); std::string t; while (is >> t) v.push_back(t); }
    bool more() const { return p < v.size(); }
    std::string next() { if (p >= v.size()) { fprintf(stderr, "C23 harness: token underrun\n"); exit(3);} return v[p++]; }
    double num() { return rd(next()); }
    int    in()  { return std::atoi(next().c_str()); }
};

struct Node { Measure m; std::vector<Node> kids; };

// layer-1 tree; vars = the Variable measures of the case
static Node buildTree(Subsystem& sub, Toks& tk, std::vector<Measure::Variable>& vars) {
    Node n; std::string k = tk.next();
    if (k == "C") { n.m = Measure::Constant(sub, tk.num()); }
    else if (k == "T") { n.m = Measure::Time(sub); }
    else if (k == "V") { n.m = vars.at(tk.in()); }
    else if (k == "S") { double a = tk.num(), w = tk.num(), p = tk.num(); n.m = Measure::Sinusoid(sub, a, w, p); }
    else if (k == "+" || k == "-") {
        Node l = buildTree(sub, tk, vars), r = buildTree(sub, tk, vars);
        if (k == "+") n.m = Measure::Plus(sub, l.m, r.m); else n.m = Measure::Minus(sub, l.m, r.m);
        n.kids.push_back(l); n.kids.push_back(r);
    } else if (k == "*") { double f = tk.num(); Node e = buildTree(sub, tk, vars); n.m = Measure::Scale(sub, f, e.m); n.kids.push_back(e); }
    else { fprintf(stderr, "C23 harness: bad tree token %s\n", k.c_str()); exit(3); }
    return n;
}
// operand of a layer-2 machine: the same measures, no variables
static Measure buildP(Subsystem& sub, Toks& tk) {
    std::string k = tk.next();
    if (k == "c") return Measure::Constant(sub, tk.num());
    if (k == "t") return Measure::Time(sub);
    if (k == "s") { double a = tk.num(), w = tk.num(), p = tk.num(); return Measure::Sinusoid(sub, a, w, p); }
    if (k == "+") { Measure l = buildP(sub, tk), r = buildP(sub, tk); return Measure::Plus(sub, l, r); }
    if (k == "-") { Measure l = buildP(sub, tk), r = buildP(sub, tk); return Measure::Minus(sub, l, r); }
    if (k == "*") { double f = tk.num(); Measure e = buildP(sub, tk); return Measure::Scale(sub, f, e); }
    fprintf(stderr, "C23 harness: bad pexpr token %s\n", k.c_str()); exit(3);
}

// one machine: scalar (n==1) or Vec3 (n==3)
struct Mach {
    char kind;            // 'X' Extreme, 'D' Delay, 'F' Differentiate
    int  n;
    Measure               s1;  Measure_<Vec3> s3;          // operand
    Measure::Extreme      x1;  Measure_<Vec3>::Extreme x3;
    Measure::Delay        d1;  Measure_<Vec3>::Delay d3;
    Measure::Differentiate f1; Measure_<Vec3>::Differentiate f3;
    const AbstractMeasure& self() const {
        if (kind == 'X') return n == 1 ? (const AbstractMeasure&)x1 : (const AbstractMeasure&)x3;
        if (kind == 'D') return n == 1 ? (const AbstractMeasure&)d1 : (const AbstractMeasure&)d3;
        return n == 1 ? (const AbstractMeasure&)f1 : (const AbstractMeasure&)f3;
    }
};
static void buildOperand(Subsystem& sub, Toks& tk, Mach& m) {
    m.n = tk.in();
    if (m.n == 1) m.s1 = buildP(sub, tk);
    else { Measure a = buildP(sub, tk), b = buildP(sub, tk), c = buildP(sub, tk); m.s3 = VecOf3(sub, a, b, c); }
}
static Mach buildMach(Subsystem& sub, const std::string& kw, Toks& tk) {
    Mach m;
    if (kw == "EXT") {
        m.kind = 'X'; int o = tk.in(); buildOperand(sub, tk, m);
        Measure::Extreme::Operation op1[4] = {Measure::Extreme::Minimum, Measure::Extreme::Maximum, Measure::Extreme::MinAbs, Measure::Extreme::MaxAbs};
        Measure_<Vec3>::Extreme::Operation op3[4] = {Measure_<Vec3>::Extreme::Minimum, Measure_<Vec3>::Extreme::Maximum, Measure_<Vec3>::Extreme::MinAbs, Measure_<Vec3>::Extreme::MaxAbs};
        if (m.n == 1) m.x1 = Measure::Extreme(sub, m.s1, op1[o]); else m.x3 = Measure_<Vec3>::Extreme(sub, m.s3, op3[o]);
    } else if (kw == "DEL") {
        m.kind = 'D'; double d = tk.num(); buildOperand(sub, tk, m);
        if (m.n == 1) m.d1 = Measure::Delay(sub, m.s1, d); else m.d3 = Measure_<Vec3>::Delay(sub, m.s3, d);
    } else {
        m.kind = 'F'; buildOperand(sub, tk, m);
        if (m.n == 1) { m.f1 = Measure::Differentiate(sub, m.s1); m.f1.setForceUseApproximation(true); }
        else { m.f3 = Measure_<Vec3>::Differentiate(sub, m.s3); m.f3.setForceUseApproximation(true); }
    }
    return m;
}
static void pv(double x) { if (x != x) printf(" nan"); else if (x == Infinity) printf(" inf"); else if (x == -Infinity) printf(" -inf"); else printf(" %a", x); }
// getValue of a machine; prints " V x..." / " NAN" / " EXC"
static void printMachValue(const Mach& m, const State& s) {
    try {
        if (m.n == 1) {
            double v = m.kind == 'X' ? m.x1.getValue(s) : m.kind == 'D' ? m.d1.getValue(s) : m.f1.getValue(s);
            if (v != v) printf(" NAN"); else { printf(" V"); pv(v); }
        } else {
            Vec3 v = m.kind == 'X' ? m.x3.getValue(s) : m.kind == 'D' ? m.d3.getValue(s) : m.f3.getValue(s);
            if (v[0] != v[0]) printf(" NAN"); else { printf(" V"); for (int i = 0; i < 3; ++i) pv(v[i]); }
        }
    } catch (const std::exception&) { printf(" EXC"); }
}
