// C23 correspondence, part 1: drives a real SimTK::State / System through explicit operation sequences
// (setTime / realize / autoUpdateDiscreteVariables / invalidateAllCacheAtOrAbove / initialization event /
// Variable::setValue / Extreme::setValue / getValue / getTimeOfExtremeValue) -- literally the operations of the
// model's [op] type (coq/C23/C23_Model.v).  One output line per operation: "<system stage> <observation>".
// Compile with -DNDEBUG (Release semantics, as the libraries).
//
// stdin:  CASE id / VAR value invalStage / TREE <tree> / EXT op n <pexpr>*n / DEL delay n <pexpr>*n / DIF n <pexpr>*n /
//         BEGIN t0 / ops / END
//   ops:  T x | R g | A | N g | I | V i x | X j n x*n | G i k path | M j | Q j        (path: string of 0/1, '-' = root)
#include "C23_common.h"

struct Case {
    std::unique_ptr<MultibodySystem> sys; std::unique_ptr<SimbodyMatterSubsystem> matter; std::unique_ptr<GeneralForceSubsystem> forces;
    std::vector<Measure::Variable> vars; std::vector<Node> trees; std::vector<Mach> machs;
    State s; bool begun = false;
    void reset() {
        vars.clear(); trees.clear(); machs.clear(); begun = false;
        sys.reset(new MultibodySystem()); matter.reset(new SimbodyMatterSubsystem(*sys)); forces.reset(new GeneralForceSubsystem(*sys));
    }
};

static const Node* walk(const Node& root, const std::string& path) {
    const Node* n = &root;
    if (path == "-") return n;
    for (char c : path) { size_t i = c == '1' ? 1 : 0; if (i >= n->kids.size()) return nullptr; if (c == '1' && n->kids.size() < 2) return nullptr; n = &n->kids[i]; }
    return n;
}

int main() {
    Case C; std::string line;
    while (std::getline(std::cin, line)) {
        Toks tk(line); if (!tk.more()) continue;
        std::string kw = tk.next();
        if (kw == "CASE") { C.reset(); printf("CASE %s\n", tk.more() ? tk.next().c_str() : "?"); continue; }
        if (kw == "END") { printf("END\n"); fflush(stdout); continue; }
        if (kw == "VAR") { double v = tk.num(); int g = tk.in(); C.vars.push_back(Measure::Variable(*C.forces, Stage(g), v)); continue; }
        if (kw == "TREE") { C.trees.push_back(buildTree(*C.forces, tk, C.vars)); continue; }
        if (kw == "EXT" || kw == "DEL" || kw == "DIF") { C.machs.push_back(buildMach(*C.forces, kw, tk)); continue; }
        if (kw == "BEGIN") {
            C.s = C.sys->realizeTopology(); C.sys->realizeModel(C.s); C.s.setTime(tk.num()); C.begun = true;
            printf("%d -\n", (int)C.s.getSystemStage()); continue;
        }
        State& s = C.s; const MultibodySystem& sys = *C.sys;
        try {
            if (kw == "T") { s.setTime(tk.num()); printf("%d -\n", (int)s.getSystemStage()); }
            else if (kw == "R") { sys.realize(s, Stage(tk.in())); printf("%d -\n", (int)s.getSystemStage()); }
            else if (kw == "A") { s.autoUpdateDiscreteVariables(); printf("%d -\n", (int)s.getSystemStage()); }
            else if (kw == "N") { s.invalidateAllCacheAtOrAbove(Stage(tk.in())); printf("%d -\n", (int)s.getSystemStage()); }
            else if (kw == "I") {
                HandleEventsOptions ho; HandleEventsResults hr;
                sys.handleEvents(s, Event::Cause::Initialization, Array_<EventId>(), ho, hr);
                printf("%d -\n", (int)s.getSystemStage());
            }
            else if (kw == "V") { int i = tk.in(); double x = tk.num(); C.vars.at(i).setValue(s, x); printf("%d -\n", (int)s.getSystemStage()); }
            else if (kw == "X") {
                int j = tk.in(); int n = tk.in(); const Mach& m = C.machs.at(j);
                if (m.kind != 'X' || n != m.n) { printf("%d GUARD\n", (int)s.getSystemStage()); }
                else { if (n == 1) m.x1.setValue(s, tk.num()); else { Vec3 v; for (int q = 0; q < 3; ++q) v[q] = tk.num(); m.x3.setValue(s, v); }
                       printf("%d -\n", (int)s.getSystemStage()); }
            }
            else if (kw == "G") {
                int i = tk.in(), k = tk.in(); std::string path = tk.next();
                const Node* n = (size_t)i < C.trees.size() ? walk(C.trees[i], path) : nullptr;
                bool ok = n != nullptr && k <= n->m.getNumTimeDerivatives();
                if (ok) { Stage d = n->m.getDependsOnStage(k); if (d != Stage::Empty && s.getSystemStage() < d.prev()) ok = false; }
                if (!ok) printf("%d GUARD\n", (int)s.getSystemStage());
                else { double v = n->m.getValue(s, k); printf("%d V", (int)s.getSystemStage()); pv(v); printf("\n"); }
            }
            else if (kw == "M") {
                int j = tk.in();
                if ((size_t)j >= C.machs.size() || s.getSystemStage() < C.machs[j].self().getDependsOnStage(0)) printf("%d GUARD\n", (int)s.getSystemStage());
                else { printf("%d", (int)s.getSystemStage()); printMachValue(C.machs[j], s); printf("\n"); }
            }
            else if (kw == "Q") {
                int j = tk.in();
                if ((size_t)j >= C.machs.size() || C.machs[j].kind != 'X' || s.getSystemStage() < C.machs[j].self().getDependsOnStage(0)) printf("%d GUARD\n", (int)s.getSystemStage());
                else { const Mach& m = C.machs[j]; double t = m.n == 1 ? m.x1.getTimeOfExtremeValue(s) : m.x3.getTimeOfExtremeValue(s);
                       printf("%d TM", (int)s.getSystemStage()); pv(t); printf("\n"); }
            }
            else { fprintf(stderr, "C23_drive: unknown line %s\n", line.c_str()); return 3; }
        } catch (const std::exception& e) { printf("%d EXC\n", (int)s.getSystemStage()); }
    }
    return 0;
}
