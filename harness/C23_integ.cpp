// C23 correspondence, part 2: real integrator runs.  A system (pendulum + measure trees over Measure::Time based
// operands + Extreme/Delay/Differentiate measures + an Integrate measure so that the error control sees the operand)
// is advanced by a real integrator over a given report grid.  A user-defined Recorder measure (an auto-update
// discrete variable holding the list of times at which State::autoUpdateDiscreteVariables swapped it in) tells, for
// every returned state, the exact sequence of auto-update times that led to it; checks/C23.py turns that into the
// model's operation sequence and compares every measure value at every returned state.
//
// stdin:  RUN id / TREE .. / EXT .. / DEL .. / DIF .. / INTEG kind acc t0 allowInterp / REPORTS t1 .. tn / GO
// stdout: RUN id / per returned state:  RET status t AU n t_1..t_n   then  M j <obs> / G i <obs> / INT v   / ENDRUN
#include "C23_common.h"

template <class T> class RecorderT : public Measure_<T> {
public:
    SimTK_MEASURE_HANDLE_PREAMBLE(RecorderT, Measure_<T>);
    SimTK_MEASURE_HANDLE_POSTSCRIPT(RecorderT, Measure_<T>);
};
template <class T> class RecorderT<T>::Implementation : public Measure_<T>::Implementation {
public:
    Implementation() : Measure_<T>::Implementation(0) {}
    Implementation* cloneVirtual() const override {return new Implementation(*this);}
    int getNumTimeDerivativesVirtual() const override {return 0;}
    Stage getDependsOnStageVirtual(int) const override {return Stage::Time;}
    const T& getUncachedValueVirtual(const State& s, int) const override {return this->getValueZero();}
    void realizeMeasureTopologyVirtual(State& s) const override {
        ix = this->getSubsystem().allocateAutoUpdateDiscreteVariable(s, Stage::Report, new Value<Array_<Real> >(), Stage::Time);
    }
    void realizeMeasureAccelerationVirtual(const State& s) const override {
        const Subsystem& sub = this->getSubsystem();
        const Array_<Real>& prev = Value<Array_<Real> >::downcast(sub.getDiscreteVariable(s, ix));
        Array_<Real>& next = Value<Array_<Real> >::updDowncast(sub.updDiscreteVarUpdateValue(s, ix));
        next = prev; next.push_back(s.getTime());
        sub.markDiscreteVarUpdateValueRealized(s, ix);
    }
    const Array_<Real>& times(const State& s) const
    {   return Value<Array_<Real> >::downcast(this->getSubsystem().getDiscreteVariable(s, ix)); }
private:
    mutable DiscreteVariableIndex ix;
};
typedef RecorderT<Real> Recorder;

static Integrator* mkInteg(int kind, const System& sys) {
    switch (kind) {
    case 0: return new RungeKuttaMersonIntegrator(sys);
    case 1: return new RungeKutta3Integrator(sys);
    case 2: return new RungeKuttaFeldbergIntegrator(sys);
    case 3: return new VerletIntegrator(sys);
    case 4: return new ExplicitEulerIntegrator(sys);
    case 5: return new RungeKutta2Integrator(sys);
    case 6: return new SemiExplicitEuler2Integrator(sys);
    default: return new CPodesIntegrator(sys);
    }
}

int main() {
    std::string line;
    std::unique_ptr<MultibodySystem> sys; std::unique_ptr<SimbodyMatterSubsystem> matter; std::unique_ptr<GeneralForceSubsystem> forces;
    std::vector<Measure::Variable> novars; std::vector<Node> trees; std::vector<Mach> machs;
    int kind = 0, allowInterp = 1; double acc = 1e-4, t0 = 0; std::vector<double> reports; std::string id;
    while (std::getline(std::cin, line)) {
        Toks tk(line); if (!tk.more()) continue;
        std::string kw = tk.next();
        if (kw == "RUN") {
            id = tk.next(); trees.clear(); machs.clear(); reports.clear();
            sys.reset(new MultibodySystem()); matter.reset(new SimbodyMatterSubsystem(*sys)); forces.reset(new GeneralForceSubsystem(*sys));
        }
        else if (kw == "TREE") trees.push_back(buildTree(*forces, tk, novars));
        else if (kw == "EXT" || kw == "DEL" || kw == "DIF") machs.push_back(buildMach(*forces, kw, tk));
        else if (kw == "INTEG") { kind = tk.in(); acc = tk.num(); t0 = tk.num(); allowInterp = tk.in(); }
        else if (kw == "REPORTS") { while (tk.more()) reports.push_back(tk.num()); }
        else if (kw == "GO") {
            printf("RUN %s\n", id.c_str());
            try {
                Body::Rigid body(MassProperties(1.0, Vec3(0), Inertia(1)));
                MobilizedBody::Pin pin(matter->Ground(), Transform(), body, Transform(Vec3(0, 1, 0)));
                Force::UniformGravity(*forces, *matter, Vec3(0, -9.8, 0));
                Recorder rec(*forces);
                // an Integrate measure over the first scalar operand (or time): gives the integrator a z to control
                Measure integrand = Measure::Time(*forces);
                for (const Mach& m : machs) if (m.n == 1) { integrand = m.s1; break; }
                Measure::Zero zero(*forces); Measure::Integrate integ(*forces, integrand, zero);
                State s = sys->realizeTopology(); sys->realizeModel(s); s.setTime(t0); pin.setQ(s, 0.3);
                std::unique_ptr<Integrator> ig(mkInteg(kind, *sys));
                ig->setAccuracy(acc); ig->setAllowInterpolation(allowInterp != 0);
                ig->initialize(s);
                for (double tr : reports) {
                    Integrator::SuccessfulStepStatus st = ig->stepTo(tr);
                    const State& rs = ig->getState();
                    sys->realize(rs, Stage::Acceleration);
                    const Array_<Real>& au = rec.getImpl().times(rs);
                    printf("RET %d", (int)st); pv(rs.getTime()); printf(" AU %d", (int)au.size());
                    for (Real x : au) pv(x); printf("\n");
                    for (size_t j = 0; j < machs.size(); ++j) { printf("M %d", (int)j); printMachValue(machs[j], rs); printf("\n"); }
                    for (size_t i = 0; i < trees.size(); ++i) { double v = trees[i].m.getValue(rs); printf("G %d V", (int)i); pv(v); printf("\n"); }
                    printf("INT"); pv(integ.getValue(rs)); printf("\n");
                    if (st == Integrator::EndOfSimulation) break;
                }
            } catch (const std::exception& e) { printf("FAIL %s\n", e.what()); }
            printf("ENDRUN\n"); fflush(stdout);
        }
    }
    return 0;
}
