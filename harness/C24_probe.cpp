// C24 probe: FactorLU / FactorLLT / FactorQTZ / FactorSVD / Eigen on matrices given on stdin; prints everything the
// certificate checkers need.  One case per input line, one output line per case.  <p> = d|f|z|c (double, float,
// complex<double>, complex<float>); real entries are one token, complex entries two (re im); all matrices row-major.
//   SVD <p> entry m n rcond A[m*n] b[m]     -> OK rankFresh rankAfterValues rankAfterSolve | s[k] | U[m*m] | Vt[n*n] | x[n] | [inv[n*m] if m<=n]
//                                        rcond < 0: the constructor without rcond
//   QTZ <p> entry m n rcond A[m*n] b[m]     -> OK rank rcondEstimate | x[n] | X[n*2] (matrix rhs (b, 2b)) | [inv[n*n] if m==n]
//   LU  <p> entry n A[n*n] b[n]             -> OK isSingular | x[n] | X[n*2] | inv[n*n] | L[n*n] | U[n*n]
//   LLT <p> entry n A[n*n] b[n]             -> OK | x[n] | inv[n*n] | L[n*n]
//   EIG <p> entry n A[n*n]                  -> OK | values[n] (complex) | vectors[n*n] (complex, row-major; column j = eigenvector j)
//   EIGRAW <p> entry n A[n*n]               same, without pre-sizing the result matrix (may crash for p = z: see below)
// Every kind takes an ENTRY code right after <p> (how the factorization object gets its matrix), so that every public entry point is exercised:
//   0 = constructor; 1 = default-constructed object, then factor(); 2 = object constructed on a different (identity-like) matrix, then factor()
//   (re-factorization).  With rcond < 0 the overloads WITHOUT an rcond argument are used (documented default max(m,n)*eps^(7/8)).
// Numbers are printed with %a (floats widened exactly); sections are separated by " | "; "EXC <what>" on any exception.
#include "SimTKmath.h"
#include <cstdio>
#include <cstdlib>
#include <iostream>
#include <sstream>
#include <string>
#include <vector>
#include <complex>
using namespace SimTK;
static std::vector<std::string> tk; static size_t ti;
static double nf() { return std::strtod(tk.at(ti++).c_str(), 0); }
static int ni() { return std::atoi(tk.at(ti++).c_str()); }

template <class T> struct IO;
template <> struct IO<double> { static double rd() { return nf(); } static void pr(double x) { std::printf(" %a", x); } };
template <> struct IO<float>  { static float rd() { return (float)nf(); } static void pr(float x) { std::printf(" %a", (double)x); } };
template <> struct IO<std::complex<double> > {
    static std::complex<double> rd() { double a = nf(); double b = nf(); return std::complex<double>(a, b); }
    static void pr(std::complex<double> x) { std::printf(" %a %a", x.real(), x.imag()); } };
template <> struct IO<std::complex<float> > {
    static std::complex<float> rd() { float a = (float)nf(); float b = (float)nf(); return std::complex<float>(a, b); }
    static void pr(std::complex<float> x) { std::printf(" %a %a", (double)x.real(), (double)x.imag()); } };

template <class T> static Matrix_<T> rdM(int m, int n) { Matrix_<T> A(m, n); for (int i=0;i<m;++i) for (int j=0;j<n;++j) A(i,j) = IO<T>::rd(); return A; }
template <class T> static Vector_<T> rdV(int n) { Vector_<T> v(n); for (int i=0;i<n;++i) v[i] = IO<T>::rd(); return v; }
template <class T> static void prM(const Matrix_<T>& A) { std::printf(" | %d %d", A.nrow(), A.ncol()); for (int i=0;i<A.nrow();++i) for (int j=0;j<A.ncol();++j) IO<T>::pr(A(i,j)); }
template <class T> static void prV(const Vector_<T>& v) { std::printf(" | %d", v.size()); for (int i=0;i<v.size();++i) IO<T>::pr(v[i]); }


// a well conditioned dummy matrix of the same shape (ones on the diagonal), used for entry 2: factor something else first
template <class T> static Matrix_<T> dummy(int m, int n) { Matrix_<T> A(m, n); for (int i=0;i<m;++i) for (int j=0;j<n;++j) A(i,j) = (i==j) ? T(1) : T(0); return A; }
template <class F, class T> static F make(int entry, const Matrix_<T>& A, double rc) {
    typedef typename CNT<T>::TReal R;
    if (entry == 0) return rc < 0 ? F(A) : F(A, (R)rc);
    F f = (entry == 1) ? F() : (rc < 0 ? F(dummy<T>(A.nrow(), A.ncol())) : F(dummy<T>(A.nrow(), A.ncol()), (R)rc));
    if (rc < 0) f.factor(A); else f.factor(A, (R)rc);
    return f;
}
template <class F, class T> static F make1(int entry, const Matrix_<T>& A) {      // classes without an rcond argument
    if (entry == 0) return F(A);
    F f = (entry == 1) ? F() : F(dummy<T>(A.nrow(), A.ncol()));
    f.factor(A);
    return f;
}

template <class T> static void run(const std::string& kind) {
    const int entry = ni();
    typedef typename CNT<T>::TReal R;
    if (kind == "SVD") {
        int m = ni(), n = ni(); double rc = nf();
        Matrix_<T> A = rdM<T>(m, n); Vector_<T> b = rdV<T>(m);
        // rank asked of a fresh factorization, before anything else was computed
        int rankFresh, rankAfterValues, rankAfterSolve;
        { FactorSVD f0 = make<FactorSVD>(entry, A, rc); rankFresh = f0.getRank(); }
        FactorSVD f = make<FactorSVD>(entry, A, rc);
        Vector_<R> s; Matrix_<T> U, Vt; f.getSingularValuesAndVectors(s, U, Vt); rankAfterValues = f.getRank();
        Vector_<T> x; f.solve(b, x); rankAfterSolve = f.getRank();
        std::printf("OK %d %d %d", rankFresh, rankAfterValues, rankAfterSolve);
        prV(s); prM(U); prM(Vt); prV(x);
        if (m <= n) { Matrix_<T> inv; f.inverse(inv); prM(inv); }
        std::printf("\n");
    } else if (kind == "QTZ") {
        int m = ni(), n = ni(); double rc = nf();
        Matrix_<T> A = rdM<T>(m, n); Vector_<T> b = rdV<T>(m);
        FactorQTZ f = make<FactorQTZ>(entry, A, rc);
        Vector_<T> x; f.solve(b, x);
        Matrix_<T> B(m, 2), X; for (int i=0;i<m;++i) { B(i,0) = b[i]; B(i,1) = b[i] + b[i]; } f.solve(B, X);
        std::printf("OK %d %a", f.getRank(), f.getRCondEstimate());
        prV(x); prM(X);
        if (m == n && f.getRank() == n) { Matrix_<T> inv; f.inverse(inv); prM(inv); }
        std::printf("\n");
    } else if (kind == "LU") {
        int n = ni(); Matrix_<T> A = rdM<T>(n, n); Vector_<T> b = rdV<T>(n);
        FactorLU f = make1<FactorLU>(entry, A);
        Vector_<T> x; f.solve(b, x);
        Matrix_<T> B(n, 2), X; for (int i=0;i<n;++i) { B(i,0) = b[i]; B(i,1) = b[i] + b[i]; } f.solve(B, X);
        Matrix_<T> inv; f.inverse(inv);
        Matrix_<T> L, U; f.getL(L); f.getU(U);
        std::printf("OK %d", f.isSingular() ? 1 : 0);
        prV(x); prM(X); prM(inv); prM(L); prM(U);
        std::printf("\n");
    } else if (kind == "LLT") {
        int n = ni(); Matrix_<T> A = rdM<T>(n, n); Vector_<T> b = rdV<T>(n);
        FactorLLT f = make1<FactorLLT>(entry, A);
        Vector_<T> x; f.solve(b, x);
        Matrix_<T> inv; f.inverse(inv);
        Matrix_<T> L; f.getL(L);
        std::printf("OK");
        prV(x); prM(inv); prM(L);
        std::printf("\n");
    } else if (kind == "EIG" || kind == "EIGRAW") {
        int n = ni(); Matrix_<T> A = rdM<T>(n, n);
        // Eigen::factor(const Matrix_<ELT>&) is declared in LinearAlgebra.h but defined nowhere in the library (link error), so the
        // constructor is the only way to hand Eigen a matrix; entry is ignored here
        Eigen e(A);
        Vector_<std::complex<R> > vals; Matrix_<std::complex<R> > vecs;
        // EigenRep<complex<double>>::copyVectors writes into `vectors` without resizing it (the resize is inside a commented-out
        // block; the other three element types resize).  EIG pre-sizes the result so that the run can go on; EIGRAW does what a
        // caller naturally does (default-constructed result) and is run by the check in a process of its own.
        if (kind == "EIG") vecs.resize(n, n);
        e.getAllEigenValuesAndVectors(vals, vecs);
        std::printf("OK");
        prV(vals); prM(vecs);
        std::printf("\n");
    } else std::printf("?unknown\n");
}

int main() {
    std::string line;
    while (std::getline(std::cin, line)) {
        std::istringstream is(line); tk.clear(); ti = 0; std::string t; while (is >> t) tk.push_back(t);
        if (tk.empty()) continue;
        try {
            const std::string kind = tk[ti++]; const std::string p = tk[ti++];
            if (p == "d") run<double>(kind); else if (p == "f") run<float>(kind);
            else if (p == "z") run<std::complex<double> >(kind); else run<std::complex<float> >(kind);
        } catch (const std::exception& e) {
            std::string w = e.what(); for (size_t i = 0; i < w.size(); ++i) if (w[i] == '\n') w[i] = ' ';
            std::printf("EXC %s\n", w.substr(0, 200).c_str());
        }
        std::fflush(stdout);
    }
    return 0;
}
