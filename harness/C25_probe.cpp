// C25 (fixed-size part) translator-validation probe: the ten SmallMatrixMixed.h kernels on the arguments read from stdin
// ("<kernel> <hex doubles...>" per line), instantiated for double (argv[1]=d) or float (argv[1]=f); results printed as doubles.
// Compiled with -DNDEBUG like the Release libraries (see checks/C25.py).
#include "SimTKcommon.h"
#include <cstdio>
#include <cstdlib>
#include <string>
#include <sstream>
#include <iostream>
#include <vector>
using namespace SimTK;
static std::vector<double> A; static size_t ai;
static double nx() { return A.at(ai++); }
template <class P> struct Run {
    typedef Vec<2,P> V2; typedef Vec<3,P> V3; typedef Mat<3,3,P> M33; typedef SymMat<3,P> Sym;
    static V2 v2() { V2 v; for (int i=0;i<2;++i) v[i]=P(nx()); return v; }
    static V3 v3() { V3 v; for (int i=0;i<3;++i) v[i]=P(nx()); return v; }
    static M33 m33() { M33 m; for (int i=0;i<3;++i) for (int j=0;j<3;++j) m(i,j)=P(nx()); return m; }
    static Sym sym() { P xx=P(nx()),yy=P(nx()),zz=P(nx()),xy=P(nx()),xz=P(nx()),yz=P(nx()); return Sym(xx, xy,yy, xz,yz,zz); }   // model order xx yy zz xy xz yz
    static void out(P x) { std::printf("%a ", double(x)); }
    static void out(const V3& v) { for (int i=0;i<3;++i) out(v[i]); }
    static void out(const M33& m) { for (int i=0;i<3;++i) for (int j=0;j<3;++j) out(m(i,j)); }
    static void out(const Sym& s) { out(s(0,0)); out(s(1,1)); out(s(2,2)); out(s(1,0)); out(s(2,0)); out(s(2,1)); }
    static bool op(const std::string& k) {
        if (k == "k25_cross") { V3 a=v3(), b=v3(); out(V3(cross(a,b))); return true; }
        if (k == "k25_cross_vs") { V3 v=v3(); Sym s=sym(); out(M33(cross(v,s))); return true; }
        if (k == "k25_cross_sv") { Sym s=sym(); V3 v=v3(); out(M33(cross(s,v))); return true; }
        if (k == "k25_cross2") { V2 a=v2(), b=v2(); out(P(cross(a,b))); return true; }
        if (k == "k25_crossMat") { V3 v=v3(); out(M33(crossMat(v))); return true; }
        if (k == "k25_crossMatSq") { V3 v=v3(); out(Sym(crossMatSq(v))); return true; }
        if (k == "k25_det33") { M33 m=m33(); out(P(det(m))); return true; }
        if (k == "k25_detSym33") { Sym s=sym(); out(P(det(s))); return true; }
        if (k == "k25_inv33") { M33 m=m33(); out(M33(inverse(m))); return true; }
        if (k == "k25_invSym33") { Sym s=sym(); out(Sym(inverse(s))); return true; }
        return false;
    }
};
int main(int argc, char** argv) {
    const bool flt = argc > 1 && argv[1][0] == 'f'; std::string line;
    while (std::getline(std::cin, line)) {
        std::istringstream is(line); std::string k; is >> k; A.clear(); ai = 0; std::string t;
        while (is >> t) A.push_back(std::strtod(t.c_str(), 0));
        try { bool ok = flt ? Run<float>::op(k) : Run<double>::op(k); if (!ok) std::printf("?unknown"); }
        catch (const std::exception& e) { std::printf("!exception"); }
        std::printf("\n");
    }
    return 0;
}
