// C25 (fixed-size part) failing-input search on the implementation: 3x3 inverse/det (Mat, SymMat), cross products,
// crossMat/crossMatSq against their defining identities, double and float.
// usage: C25_search <seed> <n>   prints "FAIL <key> <precision> <inputs>" and "DONE <evaluations>".
#include "SimTKcommon.h"
#include <cstdio>
#include <cstdlib>
#include <cstdarg>
#include <cmath>
#include <random>
using namespace SimTK;
static long evals = 0; static int fails = 0;
static std::mt19937_64 rng;
static double U(double a, double b) { return std::uniform_real_distribution<double>(a, b)(rng); }
template <class P> struct S {
    typedef Vec<3,P> V3; typedef Vec<2,P> V2; typedef Mat<3,3,P> M33; typedef SymMat<3,P> Sym;
    static const char* pn() { return sizeof(P) == 4 ? "float" : "double"; }
    static P u() { return P(U(-2, 2)); }
    static void fail(const char* key, const char* fmt, ...) {
        ++fails; if (fails > 40) return; char buf[900]; va_list ap; va_start(ap, fmt); vsnprintf(buf, sizeof buf, fmt, ap); va_end(ap);
        std::printf("FAIL %s %s %s\n", key, pn(), buf); }
    static std::string str(const M33& m) { char b[400]; snprintf(b, sizeof b, "[%a %a %a; %a %a %a; %a %a %a]", (double)m(0,0),(double)m(0,1),(double)m(0,2),(double)m(1,0),(double)m(1,1),(double)m(1,2),(double)m(2,0),(double)m(2,1),(double)m(2,2)); return b; }
    static std::string str(const V3& v) { char b[200]; snprintf(b, sizeof b, "(%a %a %a)", (double)v[0],(double)v[1],(double)v[2]); return b; }
    static void run(int n) {
        const P eps = NTraits<P>::getEps(), tol = 100 * eps;
        for (int t = 0; t < n; ++t) {
            // well-conditioned matrices: dominant diagonal 2..3, off-diagonals in +-0.5 (condition number < 5)
            M33 m; for (int i = 0; i < 3; ++i) for (int j = 0; j < 3; ++j) m(i,j) = i == j ? P(U(2,3) * (U(0,1) < .5 ? -1 : 1)) : P(U(-.5,.5));
            if (t % 5 == 0) for (int i = 0; i < 3; ++i) for (int j = 0; j < 3; ++j) m(i,j) = u();      // general (looser tolerance by its condition)
            M33 mi = inverse(m); P d = det(m); evals += 4;
            P cond = m.norm() * mi.norm(); P tl = tol * std::max<P>(1, cond);
            if (std::abs(d) > P(1e-3)) {
                M33 e1 = m * mi - M33(1), e2 = mi * m - M33(1);
                if (!(e1.norm() <= tl && e2.norm() <= tl)) fail("inverse33:not-inverse", "m %s err %g %g cond %g", str(m).c_str(), (double)e1.norm(), (double)e2.norm(), (double)cond);
                if (!(std::abs(det(mi) * d - 1) <= tl)) fail("det33:det(inverse)*det!=1", "m %s", str(m).c_str());
            }
            M33 b; for (int i = 0; i < 3; ++i) for (int j = 0; j < 3; ++j) b(i,j) = u();
            P dm = det(m), db = det(b), dmb = det(m * b), scale = std::max<P>(1, m.norm() * m.norm() * m.norm() * b.norm() * b.norm() * b.norm());
            if (!(std::abs(dmb - dm * db) <= tol * scale)) fail("det33:not-multiplicative", "a %s b %s", str(m).c_str(), str(b).c_str());
            if (!(std::abs(det(~m) - dm) <= tol * scale)) fail("det33:transpose", "m %s", str(m).c_str());
            V3 r0 = ~m[0], r1 = ~m[1], r2 = ~m[2];
            if (!(std::abs(dot(r0, r1 % r2) - dm) <= tol * scale)) fail("det33:not-triple-product", "m %s", str(m).c_str());
            // symmetric
            Sym s(m(0,0), m(1,0), m(1,1), m(2,0), m(2,1), m(2,2)); M33 sf(s); Sym si = inverse(s); M33 sif(si); evals += 3;
            if (std::abs(det(s)) > P(1e-3)) {
                P c2 = sf.norm() * sif.norm(), t2 = tol * std::max<P>(1, c2);
                if (!((sf * sif - M33(1)).norm() <= t2)) fail("inverseSym33:not-inverse", "s(full) %s err %g", str(sf).c_str(), (double)(sf * sif - M33(1)).norm());
                if (!((sif - inverse(sf)).norm() <= t2 * std::max<P>(1, sif.norm()))) fail("inverseSym33:not-inverse", "s(full) %s differs from inverse(Mat33(s))", str(sf).c_str());
            }
            if (!(std::abs(det(s) - det(sf)) <= tol * std::max<P>(1, sf.norm() * sf.norm() * sf.norm()))) fail("detSym33:differs-from-full-det", "s(full) %s", str(sf).c_str());
            // cross products
            V3 a(u(), u(), u()), c(u(), u(), u()), w(u(), u(), u()); V3 x = a % c; evals += 8;
            P sc = std::max<P>(1, a.norm() * c.norm());
            if (!(std::abs(dot(a, x)) <= tol * sc * a.norm() && std::abs(dot(c, x)) <= tol * sc * c.norm())) fail("cross:not-orthogonal", "a %s b %s", str(a).c_str(), str(c).c_str());
            if (!((x + c % a).norm() <= tol * sc)) fail("cross:not-anticommutative", "a %s b %s", str(a).c_str(), str(c).c_str());
            if (!(std::abs(x.normSqr() - (a.normSqr() * c.normSqr() - dot(a, c) * dot(a, c))) <= tol * sc * sc * 4)) fail("cross:lagrange", "a %s b %s", str(a).c_str(), str(c).c_str());
            if (!((crossMat(a) * w - a % w).norm() <= tol * std::max<P>(1, a.norm() * w.norm()))) fail("crossMat:not-cross", "v %s w %s", str(a).c_str(), str(w).c_str());
            if (!((~crossMat(a) + crossMat(a)).norm() == 0)) fail("crossMat:not-skew", "v %s", str(a).c_str());
            if (!((M33(crossMatSq(a)) + crossMat(a) * crossMat(a)).norm() <= tol * std::max<P>(1, a.normSqr()))) fail("crossMatSq:not-minus-square", "v %s", str(a).c_str());
            if (!(((a % s) - crossMat(a) * sf).norm() <= tol * std::max<P>(1, a.norm() * sf.norm()) && ((s % a) - sf * crossMat(a)).norm() <= tol * std::max<P>(1, a.norm() * sf.norm())))
                fail("cross(vec,symmat):not-crossMat-product", "v %s s(full) %s", str(a).c_str(), str(sf).c_str());
            V2 p(u(), u()), q(u(), u());
            if (!(std::abs((p % q) - (V3(p[0], p[1], 0) % V3(q[0], q[1], 0))[2]) <= tol * std::max<P>(1, p.norm() * q.norm()))) fail("cross2:not-z-of-cross3", "a (%a %a) b (%a %a)", (double)p[0], (double)p[1], (double)q[0], (double)q[1]);
        }
    }
};
// regression case for the defect fixed by ee24b642 (inverse(SymMat33) read above-diagonal elements through operator()(i,j)):
// the witness of C25_invSym33_before_fix_was_wrong must now invert correctly
template <class P> static void witness() {
    SymMat<3,P> s(P(2), P(0.1), P(3), P(0.2), P(0.3), P(4)); Mat<3,3,P> sf(s), e = sf * Mat<3,3,P>(inverse(s)) - Mat<3,3,P>(1); ++evals;
    if (!(e.norm() <= 100 * NTraits<P>::getEps())) S<P>::fail("inverseSym33:not-inverse", "witness s = [2 .1 .2; .1 3 .3; .2 .3 4]: |s*inverse(s) - I| = %g", (double)e.norm());
}
int main(int argc, char** argv) {
    unsigned long seed = argc > 1 ? std::strtoul(argv[1], 0, 10) : 1; int n = argc > 2 ? std::atoi(argv[2]) : 2000;
    witness<double>(); witness<float>();
    rng.seed(seed); S<double>::run(n); rng.seed(seed + 1); S<float>::run(n);
    std::printf("DONE %ld\n", evals); return 0;
}
