// C25 (views part): runs operation chains on real Matrix_/Vector_/RowVector_ objects and every kind of view onto them
// (element types Real, float, std::complex<double>, Vec3 and their negator<> / Hermitian-transposed forms), printing after
// every operation the dimensions, hasContiguousData() (reported as 1 for empty handles) and a hash of the logical elements of every live handle plus the full
// contents, sums and norm of the handle the operation touched.  The same lines are produced by the extracted Coq model
// (ocaml/C25_views_drv.ml); checks/C25_views.py compares them exactly.
// Independently of the model, a straightforward dense reference (root arrays + index lists) is kept here; every live handle
// is compared with it after every operation ("REF" lines = the property's own predicate on the implementation).
// Compiled WITHOUT NDEBUG: the range checks of BigMatrix.h (SimTK_INDEXCHECK/SIZECHECK) are active like in a user's Debug
// build of his own code; the library itself is the Release library.
#include "SimTKcommon.h"
#include <cstdio>
#include <cstdlib>
#include <cstring>
#include <cmath>
#include <string>
#include <vector>
#include <memory>
#include <sstream>
#include <iostream>
using namespace SimTK;

// ---------------------------------------------------------------------------------- element <-> integer scalars
static inline void putS(double x, long* o) { o[0] = lround(x); }
static inline void putS(float x, long* o) { o[0] = lround((double)x); }
static inline void putS(const std::complex<double>& z, long* o) { o[0] = lround(z.real()); o[1] = lround(z.imag()); }
template <class E, int S> static inline void putS(const Vec<3, E, S>& v, long* o) { for (int k = 0; k < 3; ++k) o[k] = lround((double)v[k]); }
template <class E, int S> static inline void putS(const Row<3, E, S>& v, long* o) { for (int k = 0; k < 3; ++k) o[k] = lround((double)v[k]); }
static inline void getS(double& x, const long* o) { x = (double)o[0]; }
static inline void getS(float& x, const long* o) { x = (float)o[0]; }
static inline void getS(std::complex<double>& z, const long* o) { z = std::complex<double>((double)o[0], (double)o[1]); }
template <class E, int S> static inline void getS(Vec<3, E, S>& v, const long* o) { for (int k = 0; k < 3; ++k) v[k] = E((double)o[k]); }
template <class E, int S> static inline void getS(Row<3, E, S>& v, const long* o) { for (int k = 0; k < 3; ++k) v[k] = E((double)o[k]); }

template <class ELT> struct ET {
    typedef typename CNT<ELT>::TStandard Std;
    enum { K = sizeof(typename CNT<ELT>::TStandard) / sizeof(typename CNT<ELT>::Precision) };   // integer scalars per element: 1, 2 (complex), 3 (Vec3/Row3)
    static void toLongs(const ELT& x, long* o) { Std s = CNT<ELT>::standardize(x); putS(s, o); }           // logical value of the element
    static ELT fromLongs(const long* o) { Std s; getS(s, o); ELT x; x = s; return x; }   // element whose logical value is o
};

// ---------------------------------------------------------------------------------- dense reference
struct Root { int nr, nc; std::vector<std::vector<long>> cells; };       // cells[r*nc+c] = K scalars
struct Ref {
    std::shared_ptr<Root> root; int nr = 0, nc = 0; std::vector<std::pair<int,int>> map; bool neg = false, conj = false;
    std::pair<int,int> at(int i, int j) const { return map[(size_t)i * nc + j]; }
};
static bool g_cplx = false; static int g_K = 1;
static std::vector<long> adaptRef(const Ref& r, const std::vector<long>& e) {
    std::vector<long> x = e;
    if (r.conj && g_cplx) x[1] = -x[1];
    if (r.neg) for (auto& t : x) t = -t;
    return x;
}
static std::vector<long> refGet(const Ref& r, int i, int j) { auto p = r.at(i, j); return adaptRef(r, r.root->cells[(size_t)p.first * r.root->nc + p.second]); }
static void refSet(const Ref& r, int i, int j, const std::vector<long>& e) { auto p = r.at(i, j); r.root->cells[(size_t)p.first * r.root->nc + p.second] = adaptRef(r, e); }
static Ref refNew(int m, int n) {
    Ref r; r.root = std::make_shared<Root>(); r.root->nr = m; r.root->nc = n; r.root->cells.assign((size_t)m * n, std::vector<long>(g_K, 0));
    r.nr = m; r.nc = n; for (int i = 0; i < m; ++i) for (int j = 0; j < n; ++j) r.map.push_back({i, j}); return r;
}

// ---------------------------------------------------------------------------------- handles
struct Op { std::string name; std::vector<long> a; };
struct H {
    int buf = 0; int sh = 0; bool owner = false; Ref ref;
    virtual ~H() {}
    virtual int nr() const = 0; virtual int nc() const = 0; virtual bool contiguous() const = 0;
    virtual void get(int i, int j, long* o) const = 0;
    virtual H* view(const Op& op) = 0;
    virtual void set(int i, int j, const long* e) = 0;
    virtual void fill(const long* e) = 0; virtual void sasg(const long* e) = 0; virtual void sadd(const long* e) = 0;
    virtual void scale(long c) = 0;
    virtual void assign(int m, int n, const long* vals) = 0; virtual void addin(bool sub, const long* vals) = 0;
    virtual H* copy(bool negate) = 0;
    virtual void resize(int m, int n, bool keep) = 0;
    virtual void sums(std::string& out) const = 0;
};

template <class ELT> struct HI : H {
    typedef typename CNT<ELT>::TNeg ENeg; typedef typename CNT<ELT>::THerm EHerm; enum { K = ET<ELT>::K };
    std::unique_ptr<Matrix_<ELT>> om; std::unique_ptr<MatrixView_<ELT>> vm;
    std::unique_ptr<Vector_<ELT>> ov; std::unique_ptr<VectorView_<ELT>> vv;
    std::unique_ptr<RowVector_<ELT>> orow; std::unique_ptr<RowVectorView_<ELT>> vr;
    MatrixBase<ELT>& b() { if (om) return *om; if (vm) return *vm; if (ov) return *ov; if (vv) return *vv; if (orow) return *orow; return *vr; }
    const MatrixBase<ELT>& b() const { return const_cast<HI*>(this)->b(); }
    VectorBase<ELT>& vec() { if (ov) return *ov; return *vv; }
    RowVectorBase<ELT>& row() { if (orow) return *orow; return *vr; }
    int nr() const override { return b().nrow(); } int nc() const override { return b().ncol(); }
    bool contiguous() const override { return b().hasContiguousData(); }
    void get(int i, int j, long* o) const override {
        HI* me = const_cast<HI*>(this);
        if (sh == 1) { const VectorBase<ELT>& v = me->vec(); ET<ELT>::toLongs(v[i], o); }
        else if (sh == 2) { const RowVectorBase<ELT>& r = me->row(); ET<ELT>::toLongs(r[j], o); }
        else ET<ELT>::toLongs(b()(i, j), o);
    }
    template <class T> HI<T>* mk(int shp) { HI<T>* h = new HI<T>(); h->buf = buf; h->sh = shp; h->owner = false; return h; }
    H* view(const Op& op) override {
        const std::string& n = op.name; const std::vector<long>& a = op.a;
        if (n == "blk") { HI<ELT>* h = mk<ELT>(0); h->vm.reset(new MatrixView_<ELT>(b().updBlock((int)a[0], (int)a[1], (int)a[2], (int)a[3]))); return h; }
        if (n == "row") { HI<ELT>* h = mk<ELT>(2); h->vr.reset(new RowVectorView_<ELT>(b().updRow((int)a[0]))); return h; }
        if (n == "col") { HI<ELT>* h = mk<ELT>(1); h->vv.reset(new VectorView_<ELT>(b().updCol((int)a[0]))); return h; }
        if (n == "diag") { HI<ELT>* h = mk<ELT>(1); h->vv.reset(new VectorView_<ELT>(b().updDiag())); return h; }
        if (n == "tr") {
            if (sh == 0) { HI<EHerm>* h = mk<EHerm>(0); h->vm.reset(new MatrixView_<EHerm>(b().updTranspose())); return h; }
            if (sh == 1) { HI<EHerm>* h = mk<EHerm>(2); h->vr.reset(new RowVectorView_<EHerm>(vec().updTranspose())); return h; }
            HI<EHerm>* h = mk<EHerm>(1); h->vv.reset(new VectorView_<EHerm>(row().updTranspose())); return h;
        }
        if (n == "neg") {
            if (sh == 0) { HI<ENeg>* h = mk<ENeg>(0); h->vm.reset(new MatrixView_<ENeg>(b().updNegate().updAsMatrixView())); return h; }
            if (sh == 1) { HI<ENeg>* h = mk<ENeg>(1); h->vv.reset(new VectorView_<ENeg>(vec().updNegate().updAsVectorView())); return h; }
            HI<ENeg>* h = mk<ENeg>(2); h->vr.reset(new RowVectorView_<ENeg>(row().updNegate().updAsRowVectorView())); return h;
        }
        if (n == "sub") {
            if (sh == 1) { HI<ELT>* h = mk<ELT>(1); h->vv.reset(new VectorView_<ELT>(vec()((int)a[0], (int)a[1]))); return h; }
            if (sh == 2) { HI<ELT>* h = mk<ELT>(2); h->vr.reset(new RowVectorView_<ELT>(row()((int)a[0], (int)a[1]))); return h; }
            throw std::runtime_error("sub on a matrix handle");
        }
        if (n == "whole") {
            if (sh == 0) { HI<ELT>* h = mk<ELT>(0); h->vm.reset(new MatrixView_<ELT>(b().updAsMatrixView())); return h; }
            if (sh == 1) { HI<ELT>* h = mk<ELT>(1); h->vv.reset(new VectorView_<ELT>(b().updAsVectorView())); return h; }
            HI<ELT>* h = mk<ELT>(2); h->vr.reset(new RowVectorView_<ELT>(b().updAsRowVectorView())); return h;
        }
        throw std::runtime_error("unknown view op " + n);
    }
    void set(int i, int j, const long* e) override {
        ELT x = ET<ELT>::fromLongs(e);
        if (sh == 1) vec()[i] = x; else if (sh == 2) row()[j] = x; else b()(i, j) = x;
    }
    void fill(const long* e) override { b().setTo(ET<ELT>::fromLongs(e)); }
    void sasg(const long* e) override {
        ELT x = ET<ELT>::fromLongs(e);
        if (om) *om = x; else if (vm) *vm = x; else if (ov) *ov = x; else if (vv) *vv = x; else if (orow) *orow = x; else *vr = x;
    }
    void sadd(const long* e) override {
        ELT x = ET<ELT>::fromLongs(e);
        if (om) *om += x; else if (vm) *vm += x; else if (ov) *ov += x; else if (vv) *vv += x; else if (orow) *orow += x; else *vr += x;
    }
    void scale(long c) override { typedef typename CNT<ELT>::StdNumber SN; b() *= SN((typename CNT<ELT>::Precision)c); }
    void assign(int m, int n, const long* vals) override {
        if (sh == 0) { Matrix_<ELT> T(m, n); for (int i = 0; i < m; ++i) for (int j = 0; j < n; ++j) T(i, j) = ET<ELT>::fromLongs(vals + ((size_t)i * n + j) * K);
                       if (om) *om = T; else *vm = T; }
        else if (sh == 1) { Vector_<ELT> T(m); for (int i = 0; i < m; ++i) T[i] = ET<ELT>::fromLongs(vals + (size_t)i * K);
                       if (n != 1) throw std::runtime_error("vector source must have one column");
                       if (ov) *ov = T; else *vv = T; }
        else { RowVector_<ELT> T(n); for (int j = 0; j < n; ++j) T[j] = ET<ELT>::fromLongs(vals + (size_t)j * K);
                       if (m != 1) throw std::runtime_error("row source must have one row");
                       if (orow) *orow = T; else *vr = T; }
    }
    void addin(bool sub, const long* vals) override {
        const int m = nr(), n = nc();
        if (sh == 0) { Matrix_<ELT> T(m, n); for (int i = 0; i < m; ++i) for (int j = 0; j < n; ++j) T(i, j) = ET<ELT>::fromLongs(vals + ((size_t)i * n + j) * K);
                       if (om) { if (sub) *om -= T; else *om += T; } else { if (sub) *vm -= T; else *vm += T; } }
        else if (sh == 1) { Vector_<ELT> T(m); for (int i = 0; i < m; ++i) T[i] = ET<ELT>::fromLongs(vals + (size_t)i * K);
                       if (ov) { if (sub) *ov -= T; else *ov += T; } else { if (sub) *vv -= T; else *vv += T; } }
        else { RowVector_<ELT> T(n); for (int j = 0; j < n; ++j) T[j] = ET<ELT>::fromLongs(vals + (size_t)j * K);
                       if (orow) { if (sub) *orow -= T; else *orow += T; } else { if (sub) *vr -= T; else *vr += T; } }
    }
    H* copy(bool negate) override {
        if (!negate) {
            HI<ELT>* h = new HI<ELT>(); h->sh = sh; h->owner = true;
            if (sh == 0) h->om.reset(new Matrix_<ELT>(b())); else if (sh == 1) h->ov.reset(new Vector_<ELT>(vec())); else h->orow.reset(new RowVector_<ELT>(row()));
            return h;
        }
        HI<ENeg>* h = new HI<ENeg>(); h->sh = sh; h->owner = true;
        if (sh == 0) h->om.reset(new Matrix_<ENeg>(b())); else if (sh == 1) h->ov.reset(new Vector_<ENeg>(vec())); else h->orow.reset(new RowVector_<ENeg>(row()));
        return h;
    }
    void resize(int m, int n, bool keep) override { if (keep) b().resizeKeep(m, n); else b().resize(m, n); }
    void sums(std::string& out) const override {
        char tmp[64]; long o[4]; HI* me = const_cast<HI*>(this);
        auto put = [&](const ELT& x) { ET<ELT>::toLongs(x, o); for (int k = 0; k < K; ++k) { snprintf(tmp, sizeof tmp, " %ld", o[k]); out += tmp; } };
        if (sh == 1) put(me->vec().sum());
        else if (sh == 2) put(me->row().sum());
        else {
            RowVector_<ELT> cs = b().colSum(); Vector_<ELT> rs = b().rowSum();
            for (int j = 0; j < cs.size(); ++j) put(cs[j]);
            out += " ;";
            for (int i = 0; i < rs.size(); ++i) put(rs[i]);
        }
        if (sizeof(typename CNT<ELT>::Precision) == 8) { snprintf(tmp, sizeof tmp, " ; %ld", lround((double)b().scalarNormSqr())); out += tmp; }
        else out += " ; -";      // float: the sum of squares is not exactly representable, not compared
    }
};

// ---------------------------------------------------------------------------------- one sequence
template <class E> struct Runner {
    enum { K = ET<E>::K };
    std::vector<std::unique_ptr<H>> hs; int nbuf = 0; long refbad = 0; bool verbose = false;

    static long hashOf(const std::vector<long>& xs) { long h = 7; for (long x : xs) h = (h * 31 + (x + 100000)) % 1000000007L; return h; }
    std::vector<long> elems(const H& h) const { std::vector<long> xs; long o[4]; const int m = h.nr(), n = h.nc();
        for (int i = 0; i < m; ++i) for (int j = 0; j < n; ++j) { h.get(i, j, o); for (int k = 0; k < K; ++k) xs.push_back(o[k]); } return xs; }
    std::vector<long> refElems(const H& h) const { std::vector<long> xs; for (int i = 0; i < h.ref.nr; ++i) for (int j = 0; j < h.ref.nc; ++j) { auto e = refGet(h.ref, i, j); xs.insert(xs.end(), e.begin(), e.end()); } return xs; }
    void dropViewsOf(int buf, int keep) { for (size_t k = 0; k < hs.size(); ++k) if (hs[k] && hs[k]->buf == buf && (int)k != keep) hs[k].reset(); }

    void report(int opno, const std::string& opline, bool threw, int target) {
        std::string line = threw ? "R X" : "R"; char tmp[96];
        for (size_t k = 0; k < hs.size(); ++k) if (hs[k]) {
            const H& h = *hs[k]; std::vector<long> xs = elems(h);
            snprintf(tmp, sizeof tmp, " | %zu %d %d %d %ld", k, h.nr(), h.nc(), (h.contiguous() || h.nr() * h.nc() == 0) ? 1 : 0, hashOf(xs)); line += tmp;
            // property predicate on the implementation: every live handle equals the dense reference
            std::vector<long> rs = refElems(h);
            if (h.nr() != h.ref.nr || h.nc() != h.ref.nc || xs != rs) {
                ++refbad; std::string s = "REF " + std::to_string(opno) + " h=" + std::to_string(k) + " op=[" + opline + "] impl " + std::to_string(h.nr()) + "x" + std::to_string(h.nc()) + ":";
                for (long x : xs) s += " " + std::to_string(x);
                s += " ref " + std::to_string(h.ref.nr) + "x" + std::to_string(h.ref.nc) + ":"; for (long x : rs) s += " " + std::to_string(x);
                puts(s.c_str());
            }
        }
        puts(line.c_str());
        if (target >= 0 && target < (int)hs.size() && hs[target]) {
            const H& h = *hs[target]; std::string e = "E " + std::to_string(target) + ":";
            for (long x : elems(h)) { snprintf(tmp, sizeof tmp, " %ld", x); e += tmp; }
            puts(e.c_str());
            std::string s = "S " + std::to_string(target) + ":"; h.sums(s); puts(s.c_str());
        }
    }

    // dense reference of a view operation: the documented element of the parent
    static bool refView(const Ref& p, int psh, const Op& op, Ref& r) {
        const std::string& n = op.name; const std::vector<long>& a = op.a; r = Ref(); r.root = p.root; r.neg = p.neg; r.conj = p.conj;
        auto fillmap = [&](int m, int nn, auto f) { r.nr = m; r.nc = nn; for (int i = 0; i < m; ++i) for (int j = 0; j < nn; ++j) { auto ij = f(i, j); r.map.push_back(p.at(ij.first, ij.second)); } };
        if (n == "blk") { long i0 = a[0], j0 = a[1], m = a[2], nn = a[3]; if (i0 < 0 || j0 < 0 || m < 0 || nn < 0 || i0 + m > p.nr || j0 + nn > p.nc) return false;
                          fillmap((int)m, (int)nn, [&](int i, int j) { return std::make_pair((int)i0 + i, (int)j0 + j); }); return true; }
        if (n == "row") { long i0 = a[0]; if (i0 < 0 || i0 >= p.nr) return false; fillmap(1, p.nc, [&](int, int j) { return std::make_pair((int)i0, j); }); return true; }
        if (n == "col") { long j0 = a[0]; if (j0 < 0 || j0 >= p.nc) return false; fillmap(p.nr, 1, [&](int i, int) { return std::make_pair(i, (int)j0); }); return true; }
        if (n == "diag") { fillmap(std::min(p.nr, p.nc), 1, [&](int i, int) { return std::make_pair(i, i); }); return true; }
        if (n == "tr") { fillmap(p.nc, p.nr, [&](int i, int j) { return std::make_pair(j, i); }); r.conj = !p.conj; return true; }
        if (n == "neg") { fillmap(p.nr, p.nc, [&](int i, int j) { return std::make_pair(i, j); }); r.neg = !p.neg; return true; }
        if (n == "whole") { fillmap(p.nr, p.nc, [&](int i, int j) { return std::make_pair(i, j); }); return true; }
        if (n == "sub") { long k = a[0], m = a[1]; if (psh == 0 || k < 0 || m < 0) return false;
                          if (psh == 1) { if (k + m > p.nr) return false; fillmap((int)m, 1, [&](int i, int) { return std::make_pair((int)k + i, 0); }); }
                          else { if (k + m > p.nc) return false; fillmap(1, (int)m, [&](int, int j) { return std::make_pair(0, (int)k + j); }); }
                          return true; }
        return false;
    }

    void run(const std::vector<std::string>& lines) {
        int opno = 0;
        for (const std::string& line : lines) {
            ++opno; std::istringstream is(line); std::string cmd; is >> cmd; std::vector<long> a; bool threw = false; int target = -1;
            auto rest = [&]() { long x; while (is >> x) a.push_back(x); };
            try {
                if (cmd == "new") { rest(); int sh = (int)a[0], m = (int)a[1], n = (int)a[2]; long x0 = a[3];
                    if ((sh == 1 && n != 1) || (sh == 2 && m != 1) || m < 0 || n < 0) throw std::runtime_error("bad shape");
                    HI<E>* h = new HI<E>(); h->sh = sh; h->owner = true; h->buf = nbuf++;
                    if (sh == 0) h->om.reset(new Matrix_<E>(m, n)); else if (sh == 1) h->ov.reset(new Vector_<E>(m)); else h->orow.reset(new RowVector_<E>(n));
                    h->ref = refNew(m, n); hs.emplace_back(h); target = (int)hs.size() - 1;
                    long x = x0, e[4]; for (int i = 0; i < m; ++i) for (int j = 0; j < n; ++j) { for (int k = 0; k < K; ++k) e[k] = x + 1000 * k; h->set(i, j, e); refSet(h->ref, i, j, std::vector<long>(e, e + K)); ++x; }
                } else if (cmd == "view") { int h; is >> h; Op op; is >> op.name; long x; while (is >> x) op.a.push_back(x);
                    if (h < 0 || h >= (int)hs.size() || !hs[h]) throw std::runtime_error("dead handle");
                    for (long v : op.a) if (v < 0 && false) throw std::runtime_error("neg");
                    H* nh = hs[h]->view(op);
                    Ref r; if (!refView(hs[h]->ref, hs[h]->sh, op, r)) { delete nh; puts(("REF " + std::to_string(opno) + " op=[" + line + "] the implementation accepted a request the reference rejects").c_str()); ++refbad; throw std::runtime_error("ref rejects"); }
                    nh->ref = r; hs.emplace_back(nh); target = (int)hs.size() - 1;
                } else {
                    int h; is >> h; rest(); if (h < 0 || h >= (int)hs.size() || !hs[h]) throw std::runtime_error("dead handle"); H& t = *hs[h]; target = h;
                    const int m0 = t.nr(), n0 = t.nc();
                    if (cmd == "set") { int i = (int)a[0], j = (int)a[1]; if (i < 0 || j < 0 || i >= m0 || j >= n0) throw std::runtime_error("generator: set out of range");
                        t.set(i, j, &a[2]); refSet(t.ref, i, j, std::vector<long>(a.begin() + 2, a.begin() + 2 + K)); }
                    else if (cmd == "fill") { t.fill(&a[0]); for (int i = 0; i < t.ref.nr; ++i) for (int j = 0; j < t.ref.nc; ++j) refSet(t.ref, i, j, std::vector<long>(a.begin(), a.begin() + K)); }
                    else if (cmd == "sasg") { t.sasg(&a[0]); std::vector<long> e(a.begin(), a.begin() + K), z(K, 0);
                        for (int i = 0; i < t.ref.nr; ++i) for (int j = 0; j < t.ref.nc; ++j) refSet(t.ref, i, j, (t.sh != 0 || i == j) ? e : z); }
                    else if (cmd == "sadd") { t.sadd(&a[0]);
                        for (int i = 0; i < t.ref.nr; ++i) for (int j = 0; j < t.ref.nc; ++j) if (t.sh != 0 || i == j) { auto e = refGet(t.ref, i, j); for (int k = 0; k < K; ++k) e[k] += a[k]; refSet(t.ref, i, j, e); } }
                    else if (cmd == "scale") { t.scale(a[0]); for (int i = 0; i < t.ref.nr; ++i) for (int j = 0; j < t.ref.nc; ++j) { auto e = refGet(t.ref, i, j); for (auto& x : e) x *= a[0]; refSet(t.ref, i, j, e); } }
                    else if (cmd == "asg") { int m = (int)a[0], n = (int)a[1];
                        if (!t.owner && (m != m0 || n != n0)) throw std::runtime_error("generator: view assignment with different dimensions");
                        t.assign(m, n, &a[2]);
                        if (m != m0 || n != n0) { dropViewsOf(t.buf, h); bool ng = t.ref.neg, cj = t.ref.conj; t.ref = refNew(m, n); t.ref.neg = ng; t.ref.conj = cj; }
                        for (int i = 0; i < m; ++i) for (int j = 0; j < n; ++j) refSet(t.ref, i, j, std::vector<long>(a.begin() + 2 + ((size_t)i * n + j) * K, a.begin() + 2 + ((size_t)i * n + j + 1) * K)); }
                    else if (cmd == "addin") { bool sub = a[0] != 0; t.addin(sub, &a[1]);
                        for (int i = 0; i < t.ref.nr; ++i) for (int j = 0; j < t.ref.nc; ++j) { auto e = refGet(t.ref, i, j); for (int k = 0; k < K; ++k) { long s = a[1 + ((size_t)i * t.ref.nc + j) * K + k]; e[k] += sub ? -s : s; } refSet(t.ref, i, j, e); } }
                    else if (cmd == "copy") { bool ng = a[0] != 0; H* nh = t.copy(ng); nh->buf = nbuf++; nh->ref = refNew(m0, n0); nh->ref.neg = t.ref.neg; nh->ref.conj = t.ref.conj;
                        for (int i = 0; i < t.ref.nr; ++i) for (int j = 0; j < t.ref.nc; ++j) refSet(nh->ref, i, j, refGet(t.ref, i, j));
                        hs.emplace_back(nh); target = (int)hs.size() - 1; }
                    else if (cmd == "resize") { int m = (int)a[0], n = (int)a[1]; bool keep = a[2] != 0; long x = a[3];
                        t.resize(m, n, keep);
                        if (m != m0 || n != n0) {
                            dropViewsOf(t.buf, h); Ref old = t.ref; t.ref = refNew(m, n); t.ref.neg = old.neg; t.ref.conj = old.conj;
                            long e[4];
                            if (keep) for (int i = 0; i < std::min(m, m0); ++i) for (int j = 0; j < std::min(n, n0); ++j) refSet(t.ref, i, j, refGet(old, i, j));
                            for (int i = 0; i < m; ++i) for (int j = 0; j < n; ++j) if (!(keep && i < m0 && j < n0)) { for (int k = 0; k < K; ++k) e[k] = x + 1000 * k; t.set(i, j, e); refSet(t.ref, i, j, std::vector<long>(e, e + K)); ++x; }
                        } }
                    else throw std::runtime_error("unknown op " + cmd);
                }
            } catch (const std::exception& ex) { threw = true; if (verbose) printf("# exception: %.200s\n", ex.what()); }
            report(opno, line, threw, threw ? -1 : target);
        }
    }
};

// ---------------------------------------------------------------------------------- SymMat packed index map, Tri helper probe
template <int M> static void symProbe() {
    SymMat<M> s; const Real* base = &s.getAsVec()[0];
    printf("SYM %d", M);
    for (int i = 0; i < M; ++i) for (int j = 0; j <= i; ++j) { const Real* p = (i == j) ? &s.getEltDiag(i) : &s.getEltLower(i, j); printf(" %d", (int)(p - base)); }
    printf("\n");
}

int main(int argc, char** argv) {
    bool verbose = argc > 1 && !strcmp(argv[1], "-v");
    if (argc > 1 && !strcmp(argv[1], "sym")) { symProbe<1>(); symProbe<2>(); symProbe<3>(); symProbe<4>(); symProbe<5>(); symProbe<6>(); symProbe<7>(); return 0; }
    std::string line; std::vector<std::string> cur; char et = 'd'; long totalbad = 0;
    auto flush = [&]() {
        g_cplx = (et == 'c'); g_K = (et == 'c') ? 2 : (et == 'v') ? 3 : 1;
        if (et == 'd') { Runner<Real> r; r.verbose = verbose; r.run(cur); totalbad += r.refbad; }
        else if (et == 'f') { Runner<float> r; r.verbose = verbose; r.run(cur); totalbad += r.refbad; }
        else if (et == 'c') { Runner<std::complex<double>> r; r.verbose = verbose; r.run(cur); totalbad += r.refbad; }
        else { Runner<Vec3> r; r.verbose = verbose; r.run(cur); totalbad += r.refbad; }
        cur.clear();
    };
    while (std::getline(std::cin, line)) {
        if (line.empty() || line[0] == '#') continue;
        if (line[0] == 'S' && line.size() >= 3 && line[1] == ' ') { et = line[2]; printf("%s\n", line.c_str()); continue; }
        if (line == "E") { flush(); puts("E"); continue; }
        cur.push_back(line);
    }
    printf("DONE refbad=%ld\n", totalbad);
    return 0;
}
