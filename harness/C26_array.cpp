// C26 correspondence harness: runs operation sequences on the real SimTK::Array_<T> and on std::vector<int>.
//
// stdin: sequences
//   S <type> <K>      start: K empty arrays of element type c (counted), t (trivial int), m (move-only counted)
//   <op lines>        see parse() below; value sources are e<v> (outside object) or o<i> (reference to own element i)
//   E                 end: all arrays are destructed
// stdout, per operation (exactly what ocaml/C26_drv.ml prints for the extracted model):
//   A ok <ctors> <dtors> <live> | size cap : v v v | ...     (Array_: constructor/destructor calls made by the
//                                                             operation itself, live objects, then every array)
//   A fault <class>                                           (instrumentation saw a slot-discipline violation; rest of the sequence skipped)
//   V | v v v | ...                                           (std::vector<int> run with the same operations)
// The counted element types register every object address: construction on a registered address, copy/move/assign
// from an unregistered (destroyed, never constructed, freed) address or from a moved-from husk, and destruction of an
// unregistered address are detected WITHOUT dereferencing the dead object.
#include "SimTKcommon.h"
#include <cstdio>
#include <cstdlib>
#include <cstring>
#include <string>
#include <vector>
#include <list>
#include <unordered_map>
#include <sstream>
#include <iostream>
#include <iterator>
using namespace SimTK;

namespace reg {
    enum State { LIVE = 1, HUSK = 2 };
    static std::unordered_map<const void*, int> objs;
    static long ctors = 0, dtors = 0;
    static const char* fault = nullptr;
    static void setFault(const char* f) { if (!fault) fault = f; }
    static void onConstruct(const void* p) {
        ++ctors;
        auto it = objs.find(p);
        if (it != objs.end()) setFault("construct-on-live");
        objs[p] = LIVE;
    }
    static bool readable(const void* p) {        // source of a copy / move / assignment
        auto it = objs.find(p);
        if (it == objs.end() || it->second != LIVE) { setFault("read-dead"); return false; }
        return true;
    }
    static void onMoveFrom(const void* p) { auto it = objs.find(p); if (it != objs.end()) it->second = HUSK; }
    static void onDestroy(const void* p) {
        ++dtors;
        auto it = objs.find(p);
        if (it == objs.end()) { setFault("destroy-raw"); return; }
        objs.erase(it);
    }
    static bool assignable(const void* p) {
        auto it = objs.find(p);
        if (it == objs.end() || it->second != LIVE) { setFault("assign-dead"); return false; }
        return true;
    }
}

// copyable + movable counted element
struct Cnt {
    int val;
    Cnt() : val(0) { reg::onConstruct(this); }
    explicit Cnt(int v) : val(v) { reg::onConstruct(this); }
    Cnt(const Cnt& s) : val(-7) { if (reg::readable(&s)) val = s.val; reg::onConstruct(this); }
    Cnt(Cnt&& s) noexcept : val(-7) { if (reg::readable(&s)) { val = s.val; reg::onMoveFrom(&s); } reg::onConstruct(this); }
    Cnt& operator=(const Cnt& s) { bool a = reg::assignable(this); if (reg::readable(&s) && a) val = s.val; return *this; }
    Cnt& operator=(Cnt&& s) noexcept { bool a = reg::assignable(this); if (reg::readable(&s) && a) val = s.val; return *this; }
    ~Cnt() { reg::onDestroy(this); }
    int get() const { return reg::objs.count(this) && reg::objs[this] == reg::LIVE ? val : -9; }
    static const bool counted = true, copyable = true;
};
// move-only counted element
struct Mov {
    int val;
    Mov() : val(0) { reg::onConstruct(this); }
    explicit Mov(int v) : val(v) { reg::onConstruct(this); }
    Mov(const Mov&) = delete;
    Mov& operator=(const Mov&) = delete;
    Mov(Mov&& s) noexcept : val(-7) { if (reg::readable(&s)) { val = s.val; reg::onMoveFrom(&s); } reg::onConstruct(this); }
    Mov& operator=(Mov&& s) noexcept { bool a = reg::assignable(this); if (reg::readable(&s) && a) val = s.val; return *this; }
    ~Mov() { reg::onDestroy(this); }
    int get() const { return reg::objs.count(this) && reg::objs[this] == reg::LIVE ? val : -9; }
    static const bool counted = true, copyable = false;
};
// trivially copyable element
struct Tri {           // Array_ value-initializes (new(p) T()), so a default element is 0
    int val;
    Tri() = default;
    explicit Tri(int v) : val(v) {}
    int get() const { return val; }
    static const bool counted = false, copyable = true;
};
static_assert(std::is_trivially_copyable<Tri>::value, "Tri must be trivially copyable");

template <class T> T mk(int v) { return T(v); }

typedef std::vector<std::string> Toks;
static int NUM(const Toks& t, size_t k) { return atoi(t.at(k).c_str()); }

// a minimal single-pass input iterator over a vector<T> (forces the input_iterator_tag dispatch paths)
template <class T> struct InIt {
    typedef std::input_iterator_tag iterator_category; typedef T value_type; typedef std::ptrdiff_t difference_type;
    typedef const T* pointer; typedef const T& reference;
    const T* p;
    explicit InIt(const T* q) : p(q) {}
    const T& operator*() const { return *p; }
    InIt& operator++() { ++p; return *this; }
    InIt operator++(int) { InIt r(*this); ++p; return r; }
    bool operator==(const InIt& o) const { return p == o.p; }
    bool operator!=(const InIt& o) const { return p != o.p; }
};

template <class T> struct Runner {
    typedef Array_<T> Arr;
    int K;
    std::vector<typename std::aligned_storage<sizeof(Arr), alignof(Arr)>::type> store;
    std::vector<std::vector<int> > ref;
    long c0, d0;

    Arr& A(int k) { return *reinterpret_cast<Arr*>(&store[k]); }
    explicit Runner(int k) : K(k), store(k), ref(k) { for (int i = 0; i < K; i++) new (&store[i]) Arr(); }
    void destroyAll() { for (int i = 0; i < K; i++) A(i).~Arr(); }

    void begin() { c0 = reg::ctors; d0 = reg::dtors; }
    long dc, dd;
    void end() { dc = reg::ctors - c0; dd = reg::dtors - d0; }

    static ArrayView_<T> view(Arr& a, const Toks& t, size_t from, int d) {
        ArrayView_<T> v = a.updSubArray(NUM(t, from), NUM(t, from + 1));
        for (int j = 1; j < d; j++) { ArrayView_<T> w = v.updSubArray(NUM(t, from + 2 * j), NUM(t, from + 2 * j + 1)); new (&v) ArrayView_<T>(w); }
        return v;
    }
    static void viewRange(const Toks& t, size_t from, int d, int& b, int& l) {
        b = 0; l = 0;
        for (int j = 0; j < d; j++) { b += NUM(t, from + 2 * j); l = NUM(t, from + 2 * j + 1); }
    }

    // value argument: an outside object, or a reference to the array's own element
    struct Val {
        T* ext; const T* p;
        Val(Arr& a, const std::string& s) : ext(nullptr) {
            int v = atoi(s.c_str() + 1);
            if (s[0] == 'o') p = a.data() + v; else { ext = new T(mk<T>(v)); p = ext; }
        }
        ~Val() { delete ext; }
    };
    static int refval(std::vector<int>& r, const std::string& s) { int v = atoi(s.c_str() + 1); return s[0] == 'o' ? r.at(v) : v; }

    template <class U = T> typename std::enable_if<U::copyable>::type copyOps(const Toks& t, bool& done) {
        const std::string& o = t[0]; int k = NUM(t, 1); Arr& a = A(k); std::vector<int>& r = ref[k];
        done = true;
        if (o == "pb") { int rv = refval(r, t[2]); { Val v(a, t[2]); begin(); a.push_back(*v.p); end(); } r.push_back(rv); }
        else if (o == "insn") { int p = NUM(t, 2), n = NUM(t, 3); int rv = refval(r, t[4]); { Val v(a, t[4]); begin(); a.insert(a.begin() + p, (typename Arr::size_type)n, *v.p); end(); } r.insert(r.begin() + p, (size_t)n, rv); }
        else if (o == "ins") { int p = NUM(t, 2); int rv = refval(r, t[3]); { Val v(a, t[3]); begin(); a.insert(a.begin() + p, *v.p); end(); } r.insert(r.begin() + p, rv); }
        else if (o == "insl" || o == "inslf" || o == "insli") {
            int p = NUM(t, 2), n = NUM(t, 3); std::vector<T> ext; ext.reserve(n); std::vector<int> rv;
            for (int j = 0; j < n; j++) { ext.push_back(mk<T>(NUM(t, 4 + j))); rv.push_back(NUM(t, 4 + j)); }
            if (o == "insl") { const T* f = ext.data(); begin(); a.insert(a.begin() + p, f, f + n); end(); }
            else if (o == "inslf") { std::list<T> li(ext.begin(), ext.end()); begin(); a.insert(a.begin() + p, li.begin(), li.end()); end(); }
            else { begin(); a.insert(a.begin() + p, InIt<T>(ext.data()), InIt<T>(ext.data() + n)); end(); }
            r.insert(r.begin() + p, rv.begin(), rv.end());
        }
        else if (o == "resf") { int n = NUM(t, 2); int rv = refval(r, t[3]); { Val v(a, t[3]); begin(); a.resize(n, *v.p); end(); } r.resize(n, rv); }
        else if (o == "asf") { int n = NUM(t, 2); { T v = mk<T>(NUM(t, 3)); begin(); a.assign((typename Arr::size_type)n, v); end(); } r.assign((size_t)n, NUM(t, 3)); }
        else if (o == "asl" || o == "aslf" || o == "asli") {
            int n = NUM(t, 2); std::vector<T> ext; ext.reserve(n); std::vector<int> rv;
            for (int j = 0; j < n; j++) { ext.push_back(mk<T>(NUM(t, 3 + j))); rv.push_back(NUM(t, 3 + j)); }
            if (o == "asl") { const T* f = ext.data(); begin(); a.assign(f, f + n); end(); }
            else if (o == "aslf") { std::list<T> li(ext.begin(), ext.end()); begin(); a.assign(li.begin(), li.end()); end(); }
            else { begin(); a.assign(InIt<T>(ext.data()), InIt<T>(ext.data() + n)); end(); }
            r = rv;
        }
        else if (o == "cf") { int n = NUM(t, 2); { T v = mk<T>(NUM(t, 3)); begin(); a.~Arr(); new (&a) Arr((typename Arr::size_type)n, v); end(); } r.assign((size_t)n, NUM(t, 3)); }
        else if (o == "cl") {
            int n = NUM(t, 2); std::vector<T> ext; ext.reserve(n); std::vector<int> rv;
            for (int j = 0; j < n; j++) { ext.push_back(mk<T>(NUM(t, 3 + j))); rv.push_back(NUM(t, 3 + j)); }
            const T* f = ext.data(); begin(); a.~Arr(); new (&a) Arr(f, f + n); end(); r = rv;
        }
        else if (o == "cc") { int j = NUM(t, 2); begin(); a.~Arr(); new (&a) Arr(A(j)); end(); r = ref[j]; }
        else if (o == "ca") { int j = NUM(t, 2); begin(); a = A(j); end(); if (j != k) r = ref[j]; }
        else if (o == "set") { int i = NUM(t, 2); { T v = mk<T>(NUM(t, 3)); begin(); a[i] = v; end(); } r[i] = NUM(t, 3); }
        else if (o == "vf") { int d = NUM(t, 2); int vv = NUM(t, 3 + 2 * d); int b, l; viewRange(t, 3, d, b, l);
            { T v = mk<T>(vv); begin(); if (d == 0) a.fill(v); else { ArrayView_<T> w = view(a, t, 3, d); w.fill(v); } end(); }
            if (d == 0) { b = 0; l = (int)r.size(); } for (int j = 0; j < l; j++) r[b + j] = vv; }
        else if (o == "va") { int d = NUM(t, 2); int n = NUM(t, 3 + 2 * d); int b, l; viewRange(t, 3, d, b, l);
            std::vector<T> ext; ext.reserve(n); for (int j = 0; j < n; j++) ext.push_back(mk<T>(NUM(t, 4 + 2 * d + j)));
            begin(); if (d == 0) { ArrayView_<T>& w = a; w = ext; } else { ArrayView_<T> w = view(a, t, 3, d); w = ext; } end();
            if (d == 0) { b = 0; } for (int j = 0; j < n; j++) r[b + j] = NUM(t, 4 + 2 * d + j); }
        else done = false;
    }
    template <class U = T> typename std::enable_if<!U::copyable>::type copyOps(const Toks& t, bool& done) {
        const std::string& o = t[0]; int k = NUM(t, 1); Arr& a = A(k); std::vector<int>& r = ref[k];
        done = true;
        if (o == "set") { int i = NUM(t, 2); { T v = mk<T>(NUM(t, 3)); begin(); a[i] = std::move(v); end(); } r[i] = NUM(t, 3); }
        else done = false;
    }

    void apply(const Toks& t) {
        const std::string& o = t[0]; int k = NUM(t, 1); Arr& a = A(k); std::vector<int>& r = ref[k];
        begin(); end();
        bool done = false; copyOps(t, done); if (done) return;
        if (o == "pbm") { { T v = mk<T>(NUM(t, 2)); begin(); a.push_back(std::move(v)); end(); } r.push_back(NUM(t, 2)); }
        else if (o == "emb") { begin(); a.emplace_back(NUM(t, 2)); end(); r.push_back(NUM(t, 2)); }
        else if (o == "pbd") { begin(); a.push_back(); end(); r.push_back(0); }
        else if (o == "pop") { begin(); a.pop_back(); end(); r.pop_back(); }
        else if (o == "er") { int i = NUM(t, 2), j = NUM(t, 3); begin(); a.erase(a.begin() + i, a.begin() + j); end(); r.erase(r.begin() + i, r.begin() + j); }
        else if (o == "er1") { int i = NUM(t, 2); begin(); a.erase(a.begin() + i); end(); r.erase(r.begin() + i); }
        else if (o == "erf") { int i = NUM(t, 2); begin(); a.eraseFast(a.begin() + i); end(); if (i + 1 != (int)r.size()) r[i] = r.back(); r.pop_back(); }
        else if (o == "clr") { begin(); a.clear(); end(); r.clear(); }
        else if (o == "emp") { int p = NUM(t, 2); begin(); a.emplace(a.begin() + p, NUM(t, 3)); end(); r.insert(r.begin() + p, NUM(t, 3)); }
        else if (o == "res") { int n = NUM(t, 2); begin(); a.resize(n); end(); r.resize(n, 0); }
        else if (o == "rsv") { begin(); a.reserve(NUM(t, 2)); end(); }
        else if (o == "shr") { begin(); a.shrink_to_fit(); end(); }
        else if (o == "dea") { begin(); a.deallocate(); end(); r.clear(); }
        else if (o == "cn") { int n = NUM(t, 2); begin(); a.~Arr(); new (&a) Arr((typename Arr::size_type)n); end(); r.assign((size_t)n, 0); }
        else if (o == "cm") { int j = NUM(t, 2); begin(); a.~Arr(); new (&a) Arr(std::move(A(j))); end(); r = ref[j]; ref[j].clear(); }
        else if (o == "ma") { int j = NUM(t, 2); begin(); a = std::move(A(j)); end(); if (j != k) std::swap(r, ref[j]); }
        else if (o == "sw") { int j = NUM(t, 2); begin(); a.swap(A(j)); end(); if (j != k) std::swap(r, ref[j]); }
        else { fprintf(stderr, "unknown op %s\n", o.c_str()); exit(3); }
    }

    void print() {
        if (reg::fault) { printf("A fault %s\n", reg::fault); return; }
        if (T::counted) printf("A ok %ld %ld %ld", dc, dd, (long)reg::objs.size()); else printf("A ok");
        for (int k = 0; k < K; k++) {
            Arr& a = A(k);
            printf(" | %u %u :", (unsigned)a.size(), (unsigned)a.capacity());
            for (unsigned j = 0; j < a.size(); j++) { int v = a[j].get(); if (v == -9) printf(" ?"); else printf(" %d", v); }
        }
        printf("\n");
    }
    void printRef() {
        printf("V");
        for (int k = 0; k < K; k++) { printf(" |"); for (size_t j = 0; j < ref[k].size(); j++) printf(" %d", ref[k][j]); }
        printf("\n");
    }
};

template <class T> void runSeq(int K, std::istream& in, bool counted) {
    Runner<T> R(K);
    bool dead = false;
    std::string line;
    while (std::getline(in, line)) {
        std::istringstream ss(line); Toks t; std::string w; while (ss >> w) t.push_back(w);
        if (t.empty()) continue;
        if (t[0] == "E") break;
        if (dead) continue;
        R.apply(t);
        R.print();
        if (reg::fault) { dead = true; continue; }
        R.printRef();
    }
    R.destroyAll();
    if (dead) printf("E\n");
    else if (reg::fault) printf("E fault %s\n", reg::fault);
    else if (counted) printf("E live=%ld\n", (long)reg::objs.size()); else printf("E\n");
    reg::fault = nullptr; reg::objs.clear();
}

int main() {
    std::string line;
    while (std::getline(std::cin, line)) {
        std::istringstream ss(line); std::string s, ty; int K;
        if (!(ss >> s)) continue;
        if (s != "S") { fprintf(stderr, "expected S line, got: %s\n", line.c_str()); return 3; }
        ss >> ty >> K;
        printf("%s\n", line.c_str());
        if (ty == "c") runSeq<Cnt>(K, std::cin, true);
        else if (ty == "m") runSeq<Mov>(K, std::cin, true);
        else runSeq<Tri>(K, std::cin, false);
    }
    return 0;
}
