// C26, thorough tier only: the DESIGN 7.10 witnesses on Array_<Str> (a string class defined here, so that its copy
// constructor is instrumented; libstdc++'s precompiled std::string members are not), built with -fsanitize=address.
// argv[1]: push_back | insert_realloc | resize  (ASan: heap-use-after-free expected on the unpatched Array.h)
//          insert  (no reallocation: no ASan report, prints what Array_ and std::vector inserted)
#include "SimTKcommon.h"
#include <cstdio>
#include <cstring>
#include <string>
#include <vector>
using namespace SimTK;
struct Str {
    char* p;
    Str(size_t n, char c) : p(new char[n + 1]) { memset(p, c, n); p[n] = 0; }
    Str(const Str& s) : p(new char[strlen(s.p) + 1]) { strcpy(p, s.p); }
    Str(Str&& s) noexcept : p(s.p) { s.p = nullptr; }
    Str& operator=(const Str& s) { if (this != &s) { char* q = new char[strlen(s.p) + 1]; strcpy(q, s.p); delete[] p; p = q; } return *this; }
    Str& operator=(Str&& s) noexcept { if (this != &s) { delete[] p; p = s.p; s.p = nullptr; } return *this; }
    ~Str() { delete[] p; }
    const char* c_str() const { return p ? p : "(moved)"; }
    bool operator!=(const Str& o) const { return strcmp(c_str(), o.c_str()) != 0; }
};
int main(int argc, char** argv) {
    const char* w = argc > 1 ? argv[1] : "insert";
    Array_<Str> a; std::vector<Str> v;
    for (int i = 0; i < 4; i++) { a.push_back(Str(40, 'a' + i)); v.push_back(Str(40, 'a' + i)); }
    if (!strcmp(w, "push_back")) { a.push_back(a[0]); v.push_back(v[0]); }
    else if (!strcmp(w, "insert_realloc")) { a.insert(a.begin(), a[0]); v.insert(v.begin(), v[0]); }
    else if (!strcmp(w, "resize")) { a.resize(6, a[2]); v.resize(6, v[2]); }
    else { a.reserve(16); v.reserve(16); a.insert(a.begin(), a[2]); v.insert(v.begin(), v[2]); }
    bool same = a.size() == v.size();
    for (unsigned i = 0; same && i < a.size(); i++) if (a[i] != v[i]) same = false;
    printf("%s same=%d array0=%.3s vector0=%.3s\n", w, (int)same, a[0].c_str(), v[0].c_str());
    return 0;
}
