// C26 correspondence harness for the pointer wrappers: CloneOnWritePtr, ClonePtr, ReferencePtr, ResetOnCopy, ReinitOnCopy.
// stdin: sequences  "S <kind> <K>" ... ops ... "E";  kinds: cow clone ref reseti resetb reiniti reinitb
// ops (handles p,q in [0,K)):  new p v | asv p v | rst p | ca p q | cc p q | ma p q | mc p q | wr p v | det p | rel p | sw p q
//                              ctor p v | set p v   (simple wrappers)
// stdout per op (same text as ocaml/C26_ptrdrv.ml prints for the extracted model):
//   P live=<objects alive> clones=<clone() calls> | <val>/<use_count>@<lowest handle sharing the object> | - | ...
//   W | <val>[,<reinit>] | ...
#include "SimTKcommon.h"
#include <cstdio>
#include <cstdlib>
#include <string>
#include <vector>
#include <sstream>
#include <iostream>
using namespace SimTK;

struct Obj {
    int val;
    static long live, clones;
    explicit Obj(int v) : val(v) { ++live; }
    Obj(const Obj& o) : val(o.val) { ++live; }
    ~Obj() { --live; }
    Obj* clone() const { ++clones; return new Obj(*this); }
};
long Obj::live = 0; long Obj::clones = 0;

// class-type payload for the non-scalar ResetOnCopy/ReinitOnCopy helpers; moving leaves the source unchanged
struct Box {
    int v;
    Box() : v(0) {}
    Box(int x) : v(x) {}
    Box(const Box& b) : v(b.v) {}
    Box(Box&& b) : v(b.v) {}
    Box& operator=(const Box& b) { v = b.v; return *this; }
    Box& operator=(Box&& b) { v = b.v; return *this; }
};
static int valof(int x) { return x; }
static int valof(const Box& b) { return b.v; }

typedef std::vector<std::string> Toks;
static int N(const Toks& t, size_t k) { return atoi(t.at(k).c_str()); }

template <class P> struct Store {
    std::vector<typename std::aligned_storage<sizeof(P), alignof(P)>::type> mem;
    explicit Store(int k) : mem(k) {}
    P& at(int i) { return *reinterpret_cast<P*>(&mem[i]); }
};

static long use(const CloneOnWritePtr<Obj>& p) { return p.use_count(); }
static long use(const ClonePtr<Obj>& p) { return p.empty() ? 0 : 1; }
static void detach(CloneOnWritePtr<Obj>& p) { p.detach(); }
static void detach(ClonePtr<Obj>&) {}

template <class P> void runPtr(int K, std::istream& in) {
    Store<P> S(K);
    for (int i = 0; i < K; i++) new (&S.at(i)) P();
    std::string line;
    while (std::getline(in, line)) {
        std::istringstream ss(line); Toks t; std::string w; while (ss >> w) t.push_back(w);
        if (t.empty()) continue;
        if (t[0] == "E") break;
        const std::string& o = t[0]; P& p = S.at(N(t, 1));
        if (o == "new") p = new Obj(N(t, 2));
        else if (o == "asv") p = Obj(N(t, 2));
        else if (o == "rst") p.reset();
        else if (o == "ca") p = S.at(N(t, 2));
        else if (o == "cc") { P& q = S.at(N(t, 2)); p.~P(); new (&p) P(q); }
        else if (o == "ma") p = std::move(S.at(N(t, 2)));
        else if (o == "mc") { P& q = S.at(N(t, 2)); p.~P(); new (&p) P(std::move(q)); }
        else if (o == "wr") p.upd()->val = N(t, 2);
        else if (o == "det") detach(p);
        else if (o == "rel") delete p.release();
        else if (o == "sw") p.swap(S.at(N(t, 2)));
        else { fprintf(stderr, "unknown op %s\n", o.c_str()); exit(3); }
        printf("P live=%ld clones=%ld", Obj::live, Obj::clones);
        for (int i = 0; i < K; i++) {
            const P& a = S.at(i);
            if (a.empty()) { printf(" | -"); continue; }
            int lead = i; for (int j = 0; j < i; j++) if (S.at(j).get() == a.get()) { lead = j; break; }
            printf(" | %d/%ld@%d", a.get()->val, use(a), lead);
        }
        printf("\n");
    }
    for (int i = 0; i < K; i++) S.at(i).~P();
    printf("E live=%ld\n", Obj::live);
    Obj::clones = 0;
}

static int targets[64];
struct RefW {
    typedef ReferencePtr<int> W;
    static void init(W* p) { new (p) W(); }
    static void ctor(W* p, int v) { new (p) W(v ? &targets[v] : nullptr); }
    static void set(W& p, int v) { if (v) p = targets[v]; else p = (int*)nullptr; }
    static void print(const W& p) { printf(" | %d", p.get() ? (int)(p.get() - targets) : 0); }
};
template <class T> struct ResetW {
    typedef ResetOnCopy<T> W;
    static void init(W* p) { new (p) W(); }
    static void ctor(W* p, int v) { new (p) W(T(v)); }
    static void set(W& p, int v) { p = T(v); }
    static void print(const W& p) { printf(" | %d", valof(p.getT())); }
};
template <class T> struct ReinitW {
    typedef ReinitOnCopy<T> W;
    static void init(W* p) { new (p) W(T(0)); }
    static void ctor(W* p, int v) { new (p) W(T(v)); }
    static void set(W& p, int v) { p = T(v); }
    static void print(const W& p) { printf(" | %d,%d", valof(p.getT()), valof(p.getReinitT())); }
};

template <class X> void runW(int K, std::istream& in) {
    typedef typename X::W W;
    Store<W> S(K);
    for (int i = 0; i < K; i++) X::init(&S.at(i));
    std::string line;
    while (std::getline(in, line)) {
        std::istringstream ss(line); Toks t; std::string w; while (ss >> w) t.push_back(w);
        if (t.empty()) continue;
        if (t[0] == "E") break;
        const std::string& o = t[0]; W& p = S.at(N(t, 1));
        if (o == "ctor") { p.~W(); X::ctor(&p, N(t, 2)); }
        else if (o == "set") X::set(p, N(t, 2));
        else if (o == "cc") { W& q = S.at(N(t, 2)); p.~W(); new (&p) W(q); }
        else if (o == "ca") p = S.at(N(t, 2));
        else if (o == "mc") { W& q = S.at(N(t, 2)); p.~W(); new (&p) W(std::move(q)); }
        else if (o == "ma") p = std::move(S.at(N(t, 2)));
        else { fprintf(stderr, "unknown op %s\n", o.c_str()); exit(3); }
        printf("W");
        for (int i = 0; i < K; i++) X::print(S.at(i));
        printf("\n");
    }
    for (int i = 0; i < K; i++) S.at(i).~W();
    printf("E\n");
}

int main() {
    std::string line;
    while (std::getline(std::cin, line)) {
        std::istringstream ss(line); std::string s, kind; int K;
        if (!(ss >> s)) continue;
        if (s != "S") { fprintf(stderr, "expected S line, got: %s\n", line.c_str()); return 3; }
        ss >> kind >> K;
        printf("%s\n", line.c_str());
        if (kind == "cow") runPtr<CloneOnWritePtr<Obj> >(K, std::cin);
        else if (kind == "clone") runPtr<ClonePtr<Obj> >(K, std::cin);
        else if (kind == "ref") runW<RefW>(K, std::cin);
        else if (kind == "reseti") runW<ResetW<int> >(K, std::cin);
        else if (kind == "resetb") runW<ResetW<Box> >(K, std::cin);
        else if (kind == "reiniti") runW<ReinitW<int> >(K, std::cin);
        else if (kind == "reinitb") runW<ReinitW<Box> >(K, std::cin);
        else { fprintf(stderr, "unknown kind %s\n", kind.c_str()); return 3; }
    }
    return 0;
}
