// C27 correspondence probe: runs the public Rotation_/Quaternion_/Transform_/UnitVec API of the compiled library
// on the cases read from stdin (one per line: "<op> <hex doubles...>"), prints one result line per case.
// argv[1] = d | f selects Rotation_<double> / Rotation_<float>; inputs are converted to P, outputs printed as doubles (%a).
#include "SimTKcommon.h"
#include <cstdio>
#include <cstdlib>
#include <string>
#include <sstream>
#include <iostream>
#include <vector>
using namespace SimTK;
static std::vector<double> A; static size_t ai;
static double nx() { return A.at(ai++); }
static void pr(double x) { std::printf("%a ", x); }

template <class P> struct Run {
    typedef Rotation_<P> Rot; typedef InverseRotation_<P> IRot; typedef Quaternion_<P> Quat; typedef Transform_<P> Xf; typedef InverseTransform_<P> IXf;
    typedef Vec<2,P> V2; typedef Vec<3,P> V3; typedef Vec<4,P> V4; typedef Mat<3,3,P> M33; typedef SymMat<3,P> Sym; typedef UnitVec<P,1> UV;
    static P s() { return P(nx()); }
    static int n() { return int(nx()); }
    static V2 v2() { V2 v; for (int i=0;i<2;++i) v[i]=s(); return v; }
    static V3 v3() { V3 v; for (int i=0;i<3;++i) v[i]=s(); return v; }
    static V4 v4() { V4 v; for (int i=0;i<4;++i) v[i]=s(); return v; }
    static M33 m33() { M33 m; for (int i=0;i<3;++i) for (int j=0;j<3;++j) m(i,j)=s(); return m; }
    static Rot rot() { return Rot(m33(), true); }
    static Sym sym() { P xx=s(),yy=s(),zz=s(),xy=s(),xz=s(),yz=s(); return Sym(xx, xy,yy, xz,yz,zz); }   // model order: xx yy zz xy xz yz
    static Xf xf() { Rot R = rot(); V3 p = v3(); return Xf(R, p); }
    static CoordinateAxis ax() { return CoordinateAxis(n()); }
    static BodyOrSpaceType bs() { return n() ? SpaceRotationSequence : BodyRotationSequence; }
    static void out(P x) { pr(double(x)); }
    template <int N> static void out(const Vec<N,P>& v) { for (int i=0;i<N;++i) out(v[i]); }
    static void out(const M33& m) { for (int i=0;i<3;++i) for (int j=0;j<3;++j) out(m(i,j)); }
    static void out(const Rot& R) { for (int i=0;i<3;++i) for (int j=0;j<3;++j) out(R[i][j]); }
    static void out(const Sym& S) { out(S(0,0)); out(S(1,1)); out(S(2,2)); out(S(1,0)); out(S(2,0)); out(S(2,1)); }
    static void out(const Xf& X) { out(X.R()); out(X.p()); }

    static bool op(const std::string& k) {
        if (k == "axis") { CoordinateAxis a = ax(), b = ax();
            pr(int(a.getNextAxis())); pr(int(a.getPreviousAxis())); pr(int(a) != int(b) ? int(a.getThirdAxis(b)) : -1);
            pr(a.isReverseCyclical(b)); pr(a.isForwardCyclical(b)); pr(a.isSameAxis(b)); return true; }
        if (k == "setX") { Rot R = rot(); P c=s(), sn=s(); R.setRotationFromAngleAboutX(c, sn); out(R); return true; }
        if (k == "setY") { Rot R = rot(); P c=s(), sn=s(); R.setRotationFromAngleAboutY(c, sn); out(R); return true; }
        if (k == "setZ") { Rot R = rot(); P c=s(), sn=s(); R.setRotationFromAngleAboutZ(c, sn); out(R); return true; }
        if (k == "bodyXYZcs") { Rot R = rot(); V3 c=v3(), sn=v3(); R.setRotationToBodyFixedXYZ(c, sn); out(R); return true; }
        if (k == "fromQuat") { Rot R = rot(); V4 q=v4(); R.setRotationFromQuaternion(Quat(q, true)); out(R); return true; }
        if (k == "trustMe") { Rot R = rot(); M33 m=m33(); R.setRotationFromMat33TrustMe(m); out(R); return true; }
        if (k == "setaxis") { Rot R = rot(); P a=s(); CoordinateAxis x=ax(); R.setRotationFromAngleAboutAxis(a, x); out(R); return true; }
        if (k == "two") { Rot R = rot(); BodyOrSpaceType t=bs(); P a1=s(); CoordinateAxis x1=ax(); P a2=s(); CoordinateAxis x2=ax();
            R.setRotationFromTwoAnglesTwoAxes(t, a1, x1, a2, x2); out(R); return true; }
        if (k == "three") { Rot R = rot(); BodyOrSpaceType t=bs(); P a1=s(); CoordinateAxis x1=ax(); P a2=s(); CoordinateAxis x2=ax(); P a3=s(); CoordinateAxis x3=ax();
            R.setRotationFromThreeAnglesThreeAxes(t, a1, x1, a2, x2, a3, x3); out(R); return true; }
        if (k == "bodyXYZ") { Rot R = rot(); V3 v=v3(); R.setRotationToBodyFixedXYZ(v); out(R); return true; }
        if (k == "bodyXY") { Rot R = rot(); V2 v=v2(); R.setRotationToBodyFixedXY(v); out(R); return true; }
        if (k == "aaU") { Rot R = rot(); P a=s(); V3 u=v3(); R.setRotationFromAngleAboutUnitVector(a, UV(u, true)); out(R); return true; }
        if (k == "aaN") { Rot R = rot(); P a=s(); V3 v=v3(); R.setRotationFromAngleAboutNonUnitVector(a, v); out(R); return true; }
        if (k == "qaa") { P a=s(); V3 u=v3(); Quat q; q.setQuaternionFromAngleAxis(a, UV(u, true)); out(q.asVec4()); return true; }
        if (k == "qmul") { V4 a=v4(), b=v4(); Quat q = Quat(a,true) * Quat(b,true); out(q.asVec4()); return true; }
        if (k == "qnorm") { V4 a=v4(); Quat q(a); out(q.asVec4()); return true; }
        if (k == "r2q") { Rot R = rot(); out(R.convertRotationToQuaternion().asVec4()); return true; }
        if (k == "q2aa") { V4 q=v4(); out(Quat(q,true).convertQuaternionToAngleAxis()); return true; }
        if (k == "r2aa") { Rot R = rot(); out(R.convertRotationToAngleAxis()); return true; }
        if (k == "approx") { Rot R = rot(); M33 m=m33(); R.setRotationFromApproximateMat33(m); out(R); return true; }
        if (k == "perp") { V3 u=v3(); out(V3(UV(u,true).perp())); return true; }
        if (k == "oneaxis") { Rot R = rot(); V3 u=v3(); CoordinateAxis x=ax(); R.setRotationFromOneAxis(UV(u,true), x); out(R); return true; }
        if (k == "twoaxes") { Rot R = rot(); V3 u=v3(); CoordinateAxis x=ax(); V3 v=v3(); CoordinateAxis y=ax();
            R.setRotationFromTwoAxes(UV(u,true), x, v, y); out(R); return true; }
        if (k == "reexp") { Rot R = rot(); Sym S=sym(); out(R.reexpressSymMat33(S)); return true; }
        if (k == "reexpInv") { Rot R = rot(); Sym S=sym(); out((~R).reexpressSymMat33(S)); return true; }
        if (k == "rmul") { Rot a=rot(), b=rot(); out(Rot(a*b)); return true; }
        if (k == "rmulinv") { Rot a=rot(), b=rot(); out(Rot(a*~b)); return true; }
        if (k == "invmul") { Rot a=rot(), b=rot(); out(Rot(~a*b)); return true; }
        if (k == "rdiv") { Rot a=rot(), b=rot(); out(Rot(a/b)); return true; }
        if (k == "xcomp") { Xf X=xf(), Y=xf(); out(X*Y); return true; }
        if (k == "xcompinv") { Xf X=xf(), Y=xf(); out(X*~Y); return true; }
        if (k == "ixcomp") { Xf X=xf(), Y=xf(); out(~X*Y); return true; }
        if (k == "ixcompinv") { Xf X=xf(), Y=xf(); out(~X*~Y); return true; }
        if (k == "xshiftFB") { Xf X=xf(); V3 v=v3(); out(X*v); return true; }
        if (k == "xshiftBF") { Xf X=xf(); V3 v=v3(); out(X.shiftBaseStationToFrame(v)); return true; }
        if (k == "ixshiftFB") { Xf X=xf(); V3 v=v3(); out(~X*v); return true; }
        if (k == "ixshiftBF") { Xf X=xf(); V3 v=v3(); out((~X).shiftBaseStationToFrame(v)); return true; }
        if (k == "xvecFB") { Xf X=xf(); V3 v=v3(); out(X.xformFrameVecToBase(v)); return true; }
        if (k == "xvecBF") { Xf X=xf(); V3 v=v3(); out(X.xformBaseVecToFrame(v)); return true; }
        if (k == "xpinv") { Xf X=xf(); out(X.pInv()); return true; }
        if (k == "ixto") { Xf X=xf(); Xf Y(~X); out(Y); return true; }                       // Transform_(InverseTransform_)
        if (k == "ixof") { Xf X=xf(); IXf I; I = X; out(Rot(I.RInv())); out(V3(I.pInv())); return true; }   // storage (R_FB,p_FB) after InverseTransform_ = Transform_
        if (k == "c1") { Rot R = rot(); CoordinateAxis x=ax(); out(R.convertOneAxisRotationToOneAngle(x)); return true; }
        if (k == "c2") { Rot R = rot(); BodyOrSpaceType t=bs(); CoordinateAxis x1=ax(), x2=ax(); out(R.convertTwoAxesRotationToTwoAngles(t, x1, x2)); return true; }
        if (k == "c3") { Rot R = rot(); BodyOrSpaceType t=bs(); CoordinateAxis x1=ax(), x2=ax(), x3=ax(); out(R.convertThreeAxesRotationToThreeAngles(t, x1, x2, x3)); return true; }
        return false;
    }
};

int main(int argc, char** argv) {
    const bool flt = argc > 1 && argv[1][0] == 'f';
    std::string line;
    while (std::getline(std::cin, line)) {
        std::istringstream is(line); std::string k; is >> k; A.clear(); ai = 0; std::string t;
        while (is >> t) A.push_back(std::strtod(t.c_str(), 0));
        try {
            bool ok = flt ? Run<float>::op(k) : Run<double>::op(k);
            if (!ok) std::printf("?unknown");
        } catch (const std::exception& e) { std::printf("!exception"); }
        std::printf("\n");
    }
    return 0;
}
