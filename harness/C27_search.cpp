// C27 failing-input search: the property's own predicates evaluated on the implementation only
// (no model): every constructor yields an orthonormal det=+1 matrix, closed forms equal the product of
// elementary rotations, representation round trips, reexpressSymMat33 = R S R^T, Transform laws.
// usage: C27_search <seed> <n>      prints "FAIL <key> <precision> <inputs...>" lines and "DONE <evaluations>".
#include "SimTKcommon.h"
#include <cstdio>
#include <cstdlib>
#include <cmath>
#include <random>
#include <cstdarg>
using namespace SimTK;
static long evals = 0; static int fails = 0;
static std::mt19937_64 rng;
static double U(double a, double b) { return std::uniform_real_distribution<double>(a, b)(rng); }
static double G() { return std::normal_distribution<double>(0, 1)(rng); }

template <class P> struct S {
    typedef Rotation_<P> Rot; typedef Quaternion_<P> Quat; typedef Transform_<P> Xf; typedef Vec<3,P> V3; typedef Vec<4,P> V4;
    typedef Mat<3,3,P> M33; typedef SymMat<3,P> Sym; typedef UnitVec<P,1> UV;
    static const char* pn() { return sizeof(P) == 4 ? "float" : "double"; }
    static P eps() { return NTraits<P>::getEps(); }
    static P g() { return P(G()); }
    static P ortho(const Rot& R) { M33 E = R.asMat33() * ~R.asMat33(); E -= M33(1); M33 F = ~R.asMat33() * R.asMat33(); F -= M33(1);
        return std::max<P>(std::max<P>(E.norm(), F.norm()), std::abs(det(R.asMat33()) - 1)); }
    static P diff(const Rot& A, const Rot& B) { return (A.asMat33() - B.asMat33()).norm(); }
    static void fail(const char* key, const char* fmt, ...) {
        ++fails; if (fails > 40) return; char buf[600]; va_list ap; va_start(ap, fmt); vsnprintf(buf, sizeof buf, fmt, ap); va_end(ap);
        std::printf("FAIL %s %s %s\n", key, pn(), buf); }
    static P angle(int cls) {       // angle classes: uniform, near 0, near +-pi, near +-pi/2
        const double small = sizeof(P) == 4 ? std::pow(10.0, -U(1, 3)) : std::pow(10.0, -U(1, 7));
        switch (cls % 5) { case 0: return P(U(-3.1, 3.1)); case 1: return P(small * (U(0,1) < .5 ? -1 : 1));
            case 2: return P((Pi - small) * (U(0,1) < .5 ? -1 : 1)); case 3: return P((Pi/2 - small) * (U(0,1) < .5 ? -1 : 1));
            default: return P(U(-1.4, 1.4)); } }
    static Rot randRot() { V4 q(g(), g(), g(), g()); return Rot(Quat(q)); }
    static void run(int n) {
        CoordinateAxis ax[3] = {XAxis, YAxis, ZAxis};
        const P tight = 200 * eps(), loose = 20 * std::sqrt(eps());
        for (int t = 0; t < n; ++t) {
            P a1 = angle(t), a2 = angle(t / 5), a3 = angle(t / 25);
            for (int bs = 0; bs < 2; ++bs) for (int i = 0; i < 3; ++i) for (int j = 0; j < 3; ++j) {
                BodyOrSpaceType ty = bs ? SpaceRotationSequence : BodyRotationSequence;
                { Rot R(ty, a1, ax[i], a2, ax[j]); Rot R1(a1, ax[i]), R2(a2, ax[j]); Rot ref = bs ? Rot(R2 * R1) : Rot(R1 * R2);
                  P e0 = ortho(R), e1 = diff(R, ref); evals += 2;
                  if (!(e0 <= tight)) fail("two-angle:not-proper", "%s %d%d angles %a %a err %g", bs ? "space" : "body", i, j, (double)a1, (double)a2, (double)e0);
                  if (!(e1 <= tight)) fail("two-angle:not-product", "%s %d%d angles %a %a err %g", bs ? "space" : "body", i, j, (double)a1, (double)a2, (double)e1);
                  if (i != j) { Vec<2,P> ang = R.convertTwoAxesRotationToTwoAngles(ty, ax[i], ax[j]); Rot back(ty, ang[0], ax[i], ang[1], ax[j]); ++evals;
                      if (!(diff(back, R) <= loose)) fail("two-angle:roundtrip", "%s %d%d angles %a %a err %g", bs ? "space" : "body", i, j, (double)a1, (double)a2, (double)diff(back, R)); } }
                for (int k = 0; k < 3; ++k) {
                    Rot R(ty, a1, ax[i], a2, ax[j], a3, ax[k]); Rot R1(a1, ax[i]), R2(a2, ax[j]), R3(a3, ax[k]); Rot ref = bs ? Rot(R3 * R2 * R1) : Rot(R1 * R2 * R3);
                    P e0 = ortho(R), e1 = diff(R, ref); evals += 3;
                    if (!(e0 <= tight)) fail("three-angle:not-proper", "%s %d%d%d angles %a %a %a err %g", bs ? "space" : "body", i, j, k, (double)a1, (double)a2, (double)a3, (double)e0);
                    if (!(e1 <= tight)) fail("three-angle:not-product", "%s %d%d%d angles %a %a %a err %g", bs ? "space" : "body", i, j, k, (double)a1, (double)a2, (double)a3, (double)e1);
                    V3 ang = R.convertThreeAxesRotationToThreeAngles(ty, ax[i], ax[j], ax[k]); Rot back(ty, ang[0], ax[i], ang[1], ax[j], ang[2], ax[k]);
                    if (!(diff(back, R) <= loose)) fail("three-angle:roundtrip", "%s %d%d%d angles %a %a %a err %g", bs ? "space" : "body", i, j, k, (double)a1, (double)a2, (double)a3, (double)diff(back, R));
                }
            }
            // one angle, body XYZ (both overloads)
            for (int i = 0; i < 3; ++i) { Rot R(a1, ax[i]); P back = R.convertOneAxisRotationToOneAngle(ax[i]); Rot Rb(back, ax[i]); evals += 2;
                if (!(ortho(R) <= tight)) fail("one-angle:not-proper", "axis %d angle %a", i, (double)a1);
                if (!(diff(R, Rb) <= loose)) fail("one-angle:roundtrip", "axis %d angle %a back %a", i, (double)a1, (double)back); }
            { Rot R; R.setRotationToBodyFixedXYZ(V3(a1, a2, a3)); Rot C; C.setRotationToBodyFixedXYZ(V3(std::cos(a1), std::cos(a2), std::cos(a3)), V3(std::sin(a1), std::sin(a2), std::sin(a3))); ++evals;
              if (!(diff(R, C) <= tight)) fail("bodyXYZ:overloads-differ", "angles %a %a %a err %g", (double)a1, (double)a2, (double)a3, (double)diff(R, C)); }
            // quaternion and angle-axis
            Rot R(BodyRotationSequence, a1, XAxis, a2, YAxis, a3, ZAxis);
            { Quat q = R.convertRotationToQuaternion(); Rot Rq(q); evals += 3;
              if (!(std::abs(q.asVec4().norm() - 1) <= tight) || q[0] < 0) fail("rot->quat:not-canonical-unit", "angles %a %a %a q0 %g", (double)a1, (double)a2, (double)a3, (double)q[0]);
              if (!(diff(Rq, R) <= 10 * tight)) fail("rot->quat->rot", "angles %a %a %a err %g", (double)a1, (double)a2, (double)a3, (double)diff(Rq, R));
              V4 aa = R.convertRotationToAngleAxis(); Rot Ra(aa[0], UV(aa[1], aa[2], aa[3]));
              if (!(diff(Ra, R) <= loose) || !(aa[0] > -P(Pi) - tight && aa[0] <= P(Pi) + tight)) fail("rot->angle-axis->rot", "angles %a %a %a err %g angle %g", (double)a1, (double)a2, (double)a3, (double)diff(Ra, R), (double)aa[0]); }
            { V4 qv(g(), g(), g(), g()); if (t % 3 == 0) qv[0] = P(1e-3 * G()); if (t % 7 == 0) { qv[1] *= P(1e-3); qv[2] *= P(1e-3); qv[3] *= P(1e-3); }
              Quat q(qv); Rot Rq(q); Quat q2 = Rq.convertRotationToQuaternion(); evals += 2;
              P d = std::min<P>((q2.asVec4() - q.asVec4()).norm(), (q2.asVec4() + q.asVec4()).norm());
              if (!(ortho(Rq) <= tight)) fail("quat->rot:not-proper", "q %a %a %a %a", (double)q[0], (double)q[1], (double)q[2], (double)q[3]);
              if (!(d <= 20 * tight)) fail("quat->rot->quat", "q %a %a %a %a err %g", (double)q[0], (double)q[1], (double)q[2], (double)q[3], (double)d); }
            { UV u(V3(g(), g(), g())); Rot Ra(a1, u); ++evals;
              M33 ux = crossMat(V3(u)); M33 rod = M33(1) + std::sin(a1) * ux + (1 - std::cos(a1)) * (ux * ux);
              if (!(ortho(Ra) <= tight) || !((Ra.asMat33() - rod).norm() <= tight)) fail("angle-axis:not-rodrigues", "angle %a axis %a %a %a", (double)a1, (double)u[0], (double)u[1], (double)u[2]); }
            // one axis / two axes (second vector random, nearly parallel (band just above the one-axis fallback threshold: regression
            // for the defect fixed by f480eb94, must be proper at the precision), or so nearly parallel / zero that the fallback is taken)
            { UV u(V3(g(), g(), g())); V3 v(g(), g(), g()); if (t % 4 == 0) v = V3(u) * g() + V3(P(1e-6 * G()), P(1e-6 * G()), P(1e-6 * G())); if (t % 4 == 2) v = V3(u) * g() + V3(P(1e-3 * G()), P(1e-3 * G()), P(1e-3 * G())); if (t % 16 == 0) v = V3(0);
              P sth = (V3(u) % v).norm() / std::max<P>(v.norm(), P(1e-30));
              int i = t % 3, j = (t / 3) % 3; Rot R2(u, ax[i], v, ax[j]); Rot R1(u, ax[i]); evals += 2;
              if (!(ortho(R2) <= tight) || !((V3(R2(ax[i])) - V3(u)).norm() <= tight)) fail("two-axes:not-proper", "axes %d %d u %a %a %a v %a %a %a err %g", i, j, (double)u[0], (double)u[1], (double)u[2], (double)v[0], (double)v[1], (double)v[2], (double)ortho(R2));
              if (i != j && sth > P(5e-2) && !(dot(V3(R2(ax[j])), v) > 0)) fail("two-axes:second-axis-not-towards-v", "axes %d %d", i, j);
              if (!(ortho(R1) <= tight) || !((V3(R1(ax[i])) - V3(u)).norm() <= tight)) fail("one-axis:not-proper", "axis %d u %a %a %a", i, (double)u[0], (double)u[1], (double)u[2]); }
            // reexpress, products, transforms
            { Rot A = randRot(), B = randRot(); Sym Sm(g(), g(), g(), g(), g(), g());
              M33 dense = A.asMat33() * M33(Sm) * ~A.asMat33(); M33 denseI = ~A.asMat33() * M33(Sm) * A.asMat33(); evals += 4;
              if (!((M33(A.reexpressSymMat33(Sm)) - dense).norm() <= tight * 10)) fail("reexpress:not-RSRt", "err %g", (double)(M33(A.reexpressSymMat33(Sm)) - dense).norm());
              if (!((M33((~A).reexpressSymMat33(Sm)) - denseI).norm() <= tight * 10)) fail("reexpress-inverse:not-RtSR", "err %g", (double)(M33((~A).reexpressSymMat33(Sm)) - denseI).norm());
              if (!(diff(Rot(A * ~A), Rot()) <= tight) || !(diff(Rot(~A * A), Rot()) <= tight)) fail("R*~R:not-identity", "err %g", (double)diff(Rot(A * ~A), Rot()));
              if (!((Rot(A * ~B).asMat33() - A.asMat33() * ~B.asMat33()).norm() <= tight) || !(ortho(Rot(A / B)) <= tight)) fail("R1*~R2:not-matrix-product", "random rotations A,B of trial %d", t);
              V3 p(g(), g(), g()), r(g(), g(), g()), s(g(), g(), g()); Xf X(A, p), Y(B, r); evals += 5;
              Xf I1 = X * ~X, I2 = ~X * X;
              char xs[400]; { Quat qa = A.convertRotationToQuaternion(); snprintf(xs, sizeof xs, "X = (quaternion %a %a %a %a, p %a %a %a) s = %a %a %a", (double)qa[0], (double)qa[1], (double)qa[2], (double)qa[3], (double)p[0], (double)p[1], (double)p[2], (double)s[0], (double)s[1], (double)s[2]); }
              if (!(diff(I1.R(), Rot()) <= tight && I1.p().norm() <= tight * 10 && diff(I2.R(), Rot()) <= tight && I2.p().norm() <= tight * 10)) fail("X*~X:not-identity", "%s err %g %g", xs, (double)I1.p().norm(), (double)I2.p().norm());
              if (!(((X * Y) * s - X * (Y * s)).norm() <= tight * 10)) fail("(X*Y)*s:not-X*(Y*s)", "%s", xs);
              if (!((~X * (X * s) - s).norm() <= tight * 10) || !((X * (~X * s) - s).norm() <= tight * 10)) fail("~X*(X*s):not-s", "%s err %g", xs, (double)(~X * (X * s) - s).norm());
              Xf Z1 = ~X * Y, Z2 = Xf(~X) * Y, Z3 = X * ~Y, Z4 = X * Xf(~Y), Z5 = ~X * ~Y, Z6 = Xf(~X) * Xf(~Y);
              if (!(diff(Z1.R(), Z2.R()) + (Z1.p() - Z2.p()).norm() + diff(Z3.R(), Z4.R()) + (Z3.p() - Z4.p()).norm() + diff(Z5.R(), Z6.R()) + (Z5.p() - Z6.p()).norm() <= tight * 30)) fail("inverse-transform-compose:differs-from-explicit-inverse", "%s", xs);
              if (!((X.shiftBaseStationToFrame(s) - ~X * s).norm() <= tight * 10) || !(((~X).shiftBaseStationToFrame(s) - X * s).norm() <= tight * 10)) fail("shiftBaseStationToFrame:not-inverse-shift", "%s", xs); }
        }
    }
};
// deterministic (independent of the seed): every three-angle sequence (12 axis orders x body/space) exactly at and next to its gimbal
// lock (middle angle +-pi/2 for i-j-k, 0 / pi for i-j-i orders), 4x4 outer angles: angles -> matrix -> angles -> matrix must reproduce the matrix
template <class P> static void locks() {
    typedef Rotation_<P> Rot; typedef Vec<3,P> V3; CoordinateAxis ax[3] = {XAxis, YAxis, ZAxis};
    const P tol = 200 * NTraits<P>::getEps(), loose = 20 * std::sqrt(NTraits<P>::getEps());
    const double outer[4] = {-2.5, -0.4, 0.9, 2.2}, dl[6] = {0, 1e-16, -1e-16, 1e-9, -1e-6, 1e-4};
    for (int bs = 0; bs < 2; ++bs) for (int i = 0; i < 3; ++i) for (int j = 0; j < 3; ++j) for (int k = 0; k < 3; ++k) {
        if (i == j || j == k) continue;
        BodyOrSpaceType ty = bs ? SpaceRotationSequence : BodyRotationSequence;
        const double lk[2] = { i != k ? Pi/2 : 0.0, i != k ? -Pi/2 : Pi };
        for (int l = 0; l < 2; ++l) for (int d = 0; d < 6; ++d) for (int o1 = 0; o1 < 4; ++o1) for (int o3 = 0; o3 < 4; ++o3) {
            P a1 = P(outer[o1]), a2 = P(lk[l] + dl[d]), a3 = P(outer[o3]);
            Rot R(ty, a1, ax[i], a2, ax[j], a3, ax[k]); V3 ang = R.convertThreeAxesRotationToThreeAngles(ty, ax[i], ax[j], ax[k]);
            Rot back(ty, ang[0], ax[i], ang[1], ax[j], ang[2], ax[k]); ++evals;
            P e = S<P>::diff(back, R);
            // exactly at the lock the answer is a closed form of the entries (tight); next to it atan2 of tiny entries is ill conditioned
            if (!(e <= (d == 0 ? tol : loose)))
                S<P>::fail("three-angle:gimbal-lock-roundtrip", "%s %d%d%d angles %a %a %a -> %a %a %a: rebuilt matrix differs by %g", bs ? "space" : "body", i, j, k,
                           (double)a1, (double)a2, (double)a3, (double)ang[0], (double)ang[1], (double)ang[2], (double)e);
        }
    }
}
// deterministic regression probe (independent of the seed) for the defect fixed by f480eb94: second vector at a small angle to the
// first, above the fallback threshold; the result must be orthogonal to 200 eps of the precision
template <class P> static void conditioning() {
    typedef Vec<3,P> V3; typedef UnitVec<P,1> UV; typedef Rotation_<P> Rot;
    UV u(V3(P(0.3), P(-0.5), P(0.8))); V3 w = V3(UV(V3(P(0.7), P(0.2), P(-0.4)) % V3(u)));
    P worst = 0; double at = 0;
    for (double st = 3e-2; st > 1.3e-4; st /= 1.07) { V3 v = V3(u) * P(1.7) + w * P(1.7 * st); Rot R(u, XAxis, v, YAxis); ++evals;
        P e = S<P>::ortho(R); if (e > worst) { worst = e; at = st; } }
    if (!(worst <= 200 * NTraits<P>::getEps()))
        S<P>::fail("two-axes:nearly-parallel-loses-orthogonality", "u 0.3 -0.5 0.8 (normalized), v = 1.7(u + sin_angle*w), sin_angle %.3e: orthogonality error %.3e = %.0f eps", at, (double)worst, (double)(worst / NTraits<P>::getEps()));
}
int main(int argc, char** argv) {
    unsigned long seed = argc > 1 ? std::strtoul(argv[1], 0, 10) : 1; int n = argc > 2 ? std::atoi(argv[2]) : 500;
    rng.seed(seed); S<double>::run(n); rng.seed(seed + 1); S<float>::run(n);
    conditioning<double>(); conditioning<float>();
    locks<double>(); locks<float>();
    std::printf("DONE %ld\n", evals); return 0;
}
