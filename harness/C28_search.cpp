// C28 failing-input search: evaluates the property's own predicates on the *implementation*
// (Rotation.h helpers as compiled from /repo) on random orientations away from the singularity.
// usage: C28_search <seed> <n>   prints "FAIL <predicate> <inputs...>" for the first failures, "DONE <evals>" at the end
#include "Simbody.h"
#include <cstdio>
#include <random>
using namespace SimTK;
static std::mt19937_64 g;
static Real U(Real a, Real b) { return std::uniform_real_distribution<Real>(a,b)(g); }
static Vec3 rv(Real s=2) { return Vec3(U(-s,s),U(-s,s),U(-s,s)); }
static Vec3 rq() { Real q1; do { q1 = U(-3,3); } while (std::abs(std::cos(q1)) < 0.2); return Vec3(U(-3,3), q1, U(-3,3)); }
static Rotation Rxyz(const Vec3& q) { Rotation R; R.setRotationToBodyFixedXYZ(q); return R; }
static int fails = 0; static long evals = 0;
static void chk(const char* what, Real err, Real scale, const Vec3& q, const Vec3& w, const Vec3& b) {
    ++evals;
    if (!(err <= 1e-6*(1+scale))) { if (fails++ < 5) std::printf("FAIL %s err=%.6g q=%.17g,%.17g,%.17g w=%.17g,%.17g,%.17g b=%.17g,%.17g,%.17g\n",
        what, err, q[0],q[1],q[2], w[0],w[1],w[2], b[0],b[1],b[2]); }
}
int main(int argc, char** argv) {
    g.seed(std::atoll(argv[1])); int n = std::atoi(argv[2]); const Real h = 1e-5;
    for (int it=0; it<n; ++it) {
        Vec3 q = rq(), w = rv(), b = rv(), qd = rv();
        Mat33 I(1);
        chk("NInvB*NB=I", (Rotation::calcNInvForBodyXYZInBodyFrame(q)*Rotation::calcNForBodyXYZInBodyFrame(q) - I).norm(), 1, q,w,b);
        chk("NB*NInvB=I", (Rotation::calcNForBodyXYZInBodyFrame(q)*Rotation::calcNInvForBodyXYZInBodyFrame(q) - I).norm(), 1, q,w,b);
        chk("NInvP*NP=I", (Rotation::calcNInvForBodyXYZInParentFrame(q)*Rotation::calcNForBodyXYZInParentFrame(q) - I).norm(), 1, q,w,b);
        // NDot is d/dt N
        Mat33 fdB = (Rotation::calcNForBodyXYZInBodyFrame(q+h*qd) - Rotation::calcNForBodyXYZInBodyFrame(q-h*qd))/(2*h);
        Mat33 NDB = Rotation::calcNDotForBodyXYZInBodyFrame(q, qd);
        chk("NDotB=dNB/dt", (fdB-NDB).norm(), NDB.norm(), q,qd,b);
        Mat33 fdP = (Rotation::calcNForBodyXYZInParentFrame(q+h*qd) - Rotation::calcNForBodyXYZInParentFrame(q-h*qd))/(2*h);
        Mat33 NDP = Rotation::calcNDotForBodyXYZInParentFrame(q, qd);
        chk("NDotP=dNP/dt", (fdP-NDP).norm(), NDP.norm(), q,qd,b);
        // fast products
        Vec2 cq(std::cos(q[0]),std::cos(q[1])), sq(std::sin(q[0]),std::sin(q[1])); Real oo = 1/cq[1];
        chk("mulNP=NP*w", (Rotation::multiplyByBodyXYZ_N_P(cq,sq,oo,w) - Rotation::calcNForBodyXYZInParentFrame(q)*w).norm(), w.norm()*10, q,w,b);
        chk("mulNTP adjoint", std::abs(dot(b, Rotation::multiplyByBodyXYZ_N_P(cq,sq,oo,w)) - dot(Rotation::multiplyByBodyXYZ_NT_P(cq,sq,oo,b), w)), 10, q,w,b);
        chk("mulNInvTP adjoint", std::abs(dot(b, Rotation::multiplyByBodyXYZ_NInv_P(cq,sq,w)) - dot(Rotation::multiplyByBodyXYZ_NInvT_P(cq,sq,b), w)), 10, q,w,b);
        chk("mulNInvP*mulNP", (Rotation::multiplyByBodyXYZ_NInv_P(cq,sq,Rotation::multiplyByBodyXYZ_N_P(cq,sq,oo,w)) - w).norm(), 10, q,w,b);
        // qdot (body-frame w) moves R with w:  dR/dt = R [w]x
        Vec3 qdB = Rotation::convertAngVelInBodyFrameToBodyXYZDot(q, w);
        Mat33 dR = (Mat33(Rxyz(q+h*qdB)) - Mat33(Rxyz(q-h*qdB)))/(2*h);
        chk("qdotB: dR/dt=R[w]x", (dR - Mat33(Rxyz(q))*crossMat(w)).norm(), w.norm(), q,w,b);
        chk("qdotB roundtrip", (Rotation::convertBodyXYZDotToAngVelInBodyFrame(q, qdB) - w).norm(), w.norm(), q,w,b);
        // parent-frame w: dR/dt = [w]x R
        Vec3 qdP = Rotation::convertAngVelInParentToBodyXYZDot(cq,sq,oo,w);
        Mat33 dRP = (Mat33(Rxyz(q+h*qdP)) - Mat33(Rxyz(q-h*qdP)))/(2*h);
        chk("qdotP: dR/dt=[w]xR", (dRP - crossMat(w)*Mat33(Rxyz(q))).norm(), w.norm(), q,w,b);
        // second derivative helper (body frame)
        Vec3 qdd = Rotation::convertAngVelDotInBodyFrameToBodyXYZDotDot(q, w, b);
        Vec3 fdqdd = (Rotation::convertAngVelInBodyFrameToBodyXYZDot(q+h*qdB, w+h*b) - Rotation::convertAngVelInBodyFrameToBodyXYZDot(q-h*qdB, w-h*b))/(2*h);
        chk("qddB=d(qdotB)/dt", (qdd-fdqdd).norm(), qdd.norm(), q,w,b);
        // parent-frame second derivative: qdd = N b + NDot NInv qdot
        Vec3 qddP = Rotation::convertAngAccInParentToBodyXYZDotDot(cq,sq,oo,qdP,b);
        Vec3 fdqddP = (Rotation::calcNForBodyXYZInParentFrame(q+h*qdP)*(w+h*b) - Rotation::calcNForBodyXYZInParentFrame(q-h*qdP)*(w-h*b))/(2*h);
        chk("qddP=d(NP w)/dt", (qddP-fdqddP).norm(), qddP.norm(), q,w,b);
        // 3-2-1
        Vec3 qd321 = Rotation::convertAngVelToBodyFixed321Dot(q, w);
        chk("321 roundtrip", (Rotation::convertBodyFixed321DotToAngVel(q, qd321) - w).norm(), w.norm(), q,w,b);
        Vec3 qdd321 = Rotation::convertAngVelDotToBodyFixed321DotDot(q, w, b);
        Vec3 fd321 = (Rotation::convertAngVelToBodyFixed321Dot(q+h*qd321, w+h*b) - Rotation::convertAngVelToBodyFixed321Dot(q-h*qd321, w-h*b))/(2*h);
        chk("qdd321=d(qdot321)/dt", (qdd321-fd321).norm(), qdd321.norm(), q,w,b);
        // quaternion
        Vec4 e(U(-1,1),U(-1,1),U(-1,1),U(-1,1)); e = e/e.norm();
        Vec4 ed = Rotation::convertAngVelToQuaternionDot(e, w);
        chk("quat: NInv*N=|q|^2", (Rotation::calcUnnormalizedNInvForQuaternion(e)*(Rotation::calcUnnormalizedNForQuaternion(e)*w) - w).norm(), w.norm(), Vec3(e[0],e[1],e[2]),w,b);
        chk("quat: qdot tangent", std::abs(dot(e,ed)), 1, Vec3(e[0],e[1],e[2]),w,b);
        chk("quat: roundtrip", (Rotation::convertQuaternionDotToAngVel(e, ed) - w).norm(), w.norm(), Vec3(e[0],e[1],e[2]),w,b);
        Vec4 ep = e+h*ed, em = e-h*ed;
        Mat33 dRq = (Mat33(Rotation(Quaternion(ep))) - Mat33(Rotation(Quaternion(em))))/(2*h);
        chk("quat: dR/dt=[w]xR", (dRq - crossMat(w)*Mat33(Rotation(Quaternion(e)))).norm(), w.norm(), Vec3(e[0],e[1],e[2]),w,b);
        Vec4 edd = Rotation::convertAngVelDotToQuaternionDotDot(e, w, b);
        Vec4 fdedd = (Rotation::convertAngVelToQuaternionDot(ep, w+h*b) - Rotation::convertAngVelToQuaternionDot(em, w-h*b))/(2*h);
        chk("quat: qdd=d(qdot)/dt", (edd-fdedd).norm(), edd.norm(), Vec3(e[0],e[1],e[2]),w,b);
    }
    std::printf("DONE %ld fails=%d\n", evals, fails);
    return 0;
}
