// C29 implementation probe: (1) `witness`  replays the Coq witness of C29_valid_implies_psd_refuted on the real Inertia class;
// (2) `search <seed> <n>`  failing-input search: the property's own predicates evaluated on the implementation for n random inputs,
//     through the Transform_/Rotation_ AND the InverseTransform_/InverseRotation_ overloads (they are separately written code).
// Prints `FAIL <predicate> <details>` per violated predicate instance (first few), `DONE <evaluations>` at the end.
#include "Simbody.h"
#include <cstdio>
#include <cstdlib>
#include <cstring>
#include <random>
#include <string>
#include <map>
using namespace SimTK;

static std::mt19937_64 gen;
static double U(double a, double b) { return std::uniform_real_distribution<double>(a, b)(gen); }
static Vec3 rv(double s = 2) { return Vec3(U(-s, s), U(-s, s), U(-s, s)); }
static Rotation rrot() {
    Vec4 q; double n;
    do { std::normal_distribution<double> N(0, 1); q = Vec4(N(gen), N(gen), N(gen), N(gen)); n = q.norm(); } while (n < 1e-3);
    return Rotation(Quaternion(q / n));
}
static Inertia cloudInertia(int npts, double& mass, Vec3& com) {
    Inertia I(0); mass = 0; Vec3 mom(0);
    for (int i = 0; i < npts; ++i) { Vec3 p = rv(); double m = U(0.05, 3); I += Inertia::pointMassAt(p, m); mass += m; mom += m * p; }
    com = mom / mass; return I;
}
static double det(const SymMat33& s) { return SimTK::det(Mat33(s)); }
static double inv2(const SymMat33& s) {
    return s(0,0)*s(1,1) + s(0,0)*s(2,2) + s(1,1)*s(2,2) - s(1,0)*s(1,0) - s(2,0)*s(2,0) - s(2,1)*s(2,1); }
static double scaleOf(const SymMat33& s) { double m = 1; for (int i = 0; i < 3; ++i) for (int j = 0; j <= i; ++j) m = std::max(m, std::abs(s(i,j))); return m; }
static double diff(const SymMat33& a, const SymMat33& b) { double m = 0; for (int i = 0; i < 3; ++i) for (int j = 0; j <= i; ++j) m = std::max(m, std::abs(a(i,j) - b(i,j))); return m; }
// smallest eigenvalue of a symmetric 3x3 by the trigonometric formula (only used to describe a found counterexample)
static double minEig(const SymMat33& A) {
    double p1 = A(1,0)*A(1,0) + A(2,0)*A(2,0) + A(2,1)*A(2,1);
    double q = A.trace() / 3;
    double p2 = (A(0,0)-q)*(A(0,0)-q) + (A(1,1)-q)*(A(1,1)-q) + (A(2,2)-q)*(A(2,2)-q) + 2*p1;
    double p = std::sqrt(p2 / 6); if (p == 0) return q;
    SymMat33 B = (A - SymMat33(q)) / p; double r = det(B) / 2; r = std::max(-1.0, std::min(1.0, r));
    double phi = std::acos(r) / 3;
    return q + 2 * p * std::cos(phi + 2 * Pi / 3);
}

static std::map<std::string, int> nfail; static long evals = 0;
static void fail(const char* pred, const std::string& details) {
    if (nfail[pred]++ < 2) std::printf("FAIL %s %s\n", pred, details.c_str());
}
static std::string fmt(const char* f, ...) { char b[2048]; va_list a; va_start(a, f); vsnprintf(b, sizeof b, f, a); va_end(a); return b; }
static std::string S(const SymMat33& s) { return fmt("[%.17g %.17g %.17g | %.17g %.17g %.17g]", s(0,0), s(1,1), s(2,2), s(1,0), s(2,0), s(2,1)); }
static std::string V(const Vec3& v) { return fmt("(%.17g %.17g %.17g)", v[0], v[1], v[2]); }

int main(int argc, char** argv) {
    if (argc >= 2 && !std::strcmp(argv[1], "witness")) {
        SymMat33 w(1, 1, 2, -1, 0.5, 2);      // moments 1,2,2; xy=1 xz=-1 yz=0.5
        bool acc = Inertia::isValidInertiaMatrix(w);
        double d = det(w), me = minEig(w);
        Vec3 u(-2, 1, -1); double quad = ~u * (w * u);        // the Coq witness direction: u^T I u = -1
        int ctor_ok = 1; try { Inertia I(w); (void)I; } catch (const std::exception&) { ctor_ok = 0; }
        // is Inertia_::errChk compiled in (harness built without NDEBUG)?  a negative moment must then throw
        int dbg = 0; try { Inertia I(SymMat33(-1, 0, 1, 0, 0, 1)); (void)I; } catch (const std::exception&) { dbg = 1; }
        std::printf("WITNESS accepted=%d ctor_ok=%d errChk_active=%d det=%.17g minEig=%.17g quad(-2,1,-1)=%.17g indefinite=%d\n", acc ? 1 : 0, ctor_ok, dbg, d, me, quad, (d < 0 && quad < 0) ? 1 : 0);
        return 0;
    }
    if (argc < 4 || std::strcmp(argv[1], "search")) { std::fprintf(stderr, "usage: witness | search seed n\n"); return 2; }
    gen.seed(std::strtoull(argv[2], 0, 10)); long n = std::atol(argv[3]);
    const double tol = 1e-9;
    for (long it = 0; it < n; ++it) {
        double mass; Vec3 com; int npts = 1 + (int)(it % 5);
        Inertia I_O = cloudInertia(npts, mass, com);                   // inertia of a point cloud about the origin
        const SymMat33& s = I_O.asSymMat33(); double sc = scaleOf(s);
        // P1 every point-cloud inertia is accepted, PSD, triangle inequalities
        ++evals; if (!Inertia::isValidInertiaMatrix(s)) fail("cloud_accepted", S(s));
        { Vec3 u = rv(); ++evals; if (~u * (s * u) < -tol * sc * u.normSqr()) fail("cloud_psd", S(s) + " u=" + V(u));
          ++evals; if (s(0,0)+s(1,1) < s(2,2) - tol*sc || s(0,0)+s(2,2) < s(1,1) - tol*sc || s(1,1)+s(2,2) < s(0,0) - tol*sc) fail("cloud_triangle", S(s)); }
        // P2 shift to / from the mass centre are inverse; parallel axis additivity
        Vec3 c = rv(), q = rv(); double m = U(0.05, 5);
        { Inertia A = I_O.shiftToMassCenter(c, m).shiftFromMassCenter(c, m); ++evals;
          if (diff(A.asSymMat33(), s) > tol * (sc + m * c.normSqr())) fail("shift_to_from_inverse", S(s) + " c=" + V(c) + fmt(" m=%.17g", m));
          Inertia Ic = I_O.shiftToMassCenter(com, mass);               // central inertia of the cloud
          ++evals; if (!Inertia::isValidInertiaMatrix(Ic.asSymMat33()) && npts > 0 && minEig(Ic.asSymMat33()) < -tol * sc) fail("central_inertia_psd", S(Ic.asSymMat33()));
          Inertia viaP = Ic.shiftFromMassCenter(c, mass).shiftToMassCenter(c, mass).shiftFromMassCenter(q, mass);
          Inertia direct = Ic.shiftFromMassCenter(q, mass); ++evals;
          if (diff(viaP.asSymMat33(), direct.asSymMat33()) > tol * (sc + mass * (c.normSqr() + q.normSqr()))) fail("shift_additive", S(s)); }
        // P3 re-expression preserves trace, second invariant, determinant
        Rotation R = rrot();
        { SymMat33 r = I_O.reexpress(R).asSymMat33(); ++evals;
          if (std::abs(r.trace() - s.trace()) > tol * sc || std::abs(inv2(r) - inv2(s)) > tol * sc * sc || std::abs(det(r) - det(s)) > tol * sc * sc * sc)
              fail("reexpress_invariants", S(s) + " -> " + S(r));
          SymMat33 ref(Mat33(~R * Mat33(s) * R)); ++evals;
          if (diff(r, ref) > tol * sc) fail("reexpress_is_congruence", S(s) + " -> " + S(r)); }
        // P4 transforming MassProperties agrees with transforming the SpatialInertia
        UnitInertia G(I_O * (1 / mass)); Vec3 p = rv(); Transform X(R, rv());
        { SpatialInertia M(mass, p, G); MassProperties B(mass, p, G);
          SpatialInertia M2 = M.transform(X); MassProperties B2 = B.calcTransformedMassProps(X); ++evals;
          double e = std::max(diff(M2.getUnitInertia().asSymMat33(), B2.getUnitInertia().asSymMat33()), (M2.getMassCenter() - B2.getMassCenter()).norm());
          if (e > tol * (scaleOf(G.asSymMat33()) + p.normSqr() + X.p().normSqr()) || M2.getMass() != B2.getMass()) fail("transform_agrees_with_massprops", fmt("err=%g ", e) + S(G.asSymMat33()) + " p=" + V(p) + " x=" + V(X.p()));
          SpatialInertia M3 = M.shift(X.p()); MassProperties B3 = B.calcShiftedMassProps(X.p()); ++evals;
          e = std::max(diff(M3.getUnitInertia().asSymMat33(), B3.getUnitInertia().asSymMat33()), (M3.getMassCenter() - B3.getMassCenter()).norm());
          if (e > tol * (scaleOf(G.asSymMat33()) + p.normSqr() + X.p().normSqr())) fail("shift_agrees_with_massprops", fmt("err=%g", e));
          // P5 kinetic energy and power invariant under consistent shift / re-expression
          SpatialVec Vv(rv(), rv()), F(rv(), rv()); Vec3 r = X.p();
          double ke = 0.5 * (~Vv * (M * Vv));
          SpatialVec Vs = shiftVelocityBy(Vv, r); double ke2 = 0.5 * (~Vs * (M3 * Vs)); ++evals;
          double ksc = std::abs(ke) + mass * (1 + p.normSqr() + r.normSqr()) * (Vv[0].normSqr() + Vv[1].normSqr());
          if (std::abs(ke - ke2) > tol * ksc) fail("ke_invariant_under_shift", fmt("ke=%.17g shifted=%.17g", ke, ke2));
          SpatialVec Vr(~R * Vs[0], ~R * Vs[1]); double ke3 = 0.5 * (~Vr * (M2 * Vr)); ++evals;
          if (std::abs(ke - ke3) > tol * ksc) fail("ke_invariant_under_transform", fmt("ke=%.17g transformed=%.17g", ke, ke3));
          double pw = ~F * Vv, pw2 = ~shiftForceBy(F, r) * Vs; ++evals;
          if (std::abs(pw - pw2) > tol * (1 + r.norm()) * (F[0].norm() + F[1].norm()) * (Vv[0].norm() + Vv[1].norm())) fail("power_invariant_under_shift", fmt("%.17g vs %.17g", pw, pw2));
          // momentum (M V) shifts like a force
          SpatialVec h = M * Vv, h2 = M3 * Vs, hs = shiftForceBy(h, r); ++evals;
          if ((h2[0] - hs[0]).norm() + (h2[1] - hs[1]).norm() > tol * ksc) fail("momentum_shifts_like_force", "");
          // P6 articulated inertia: rigid shift by s equals the spatial inertia shifted by -s ... documented sign
          ArticulatedInertia P(M); ArticulatedInertia Ps = P.shift(r); ArticulatedInertia Pref(M.shift(r)); ++evals;
          ArticulatedInertia Pref2(M.shift(-r));
          double e1 = diff(Ps.getInertia(), Pref.getInertia()), e2 = diff(Ps.getInertia(), Pref2.getInertia());
          if (std::min(e1, e2) > tol * ksc) fail("articulated_shift_agrees_with_rigid_shift", fmt("e(+s)=%g e(-s)=%g", e1, e2));
          // P8 the same identities through the InverseTransform_ / InverseRotation_ overloads (separately written code paths):
          //    Y := ~X as a Transform, so that ~Y is an InverseTransform_ denoting the same transform as X
          { Transform Y(~X); const InverseTransform_<Real>& Xi = ~Y; Rotation Rt(~R); const InverseRotation_<Real>& Ri = ~Rt;
            double tsc = scaleOf(G.asSymMat33()) + p.normSqr() + X.p().normSqr() + 1;
            std::string in = S(G.asSymMat33()) + fmt(" m=%.17g p=", mass) + V(p) + " X.p=" + V(X.p()) + fmt(" X.R=[%.17g %.17g %.17g; %.17g %.17g %.17g; %.17g %.17g %.17g]",
                             R[0][0],R[0][1],R[0][2],R[1][0],R[1][1],R[1][2],R[2][0],R[2][1],R[2][2]);
            SpatialInertia Mi = M.transform(Xi); ++evals;               // spatial-inertia route (inverse overload) vs mass-properties route
            double ei = std::max(diff(Mi.getUnitInertia().asSymMat33(), B2.getUnitInertia().asSymMat33()), (Mi.getMassCenter() - B2.getMassCenter()).norm());
            if (ei > tol * tsc) fail("inverse_transform_agrees_with_massprops", fmt("err=%g ", ei) + in);
            SpatialInertia Mip(M); Mip.transformInPlace(Xi); ++evals;
            ei = std::max(diff(Mip.getUnitInertia().asSymMat33(), B2.getUnitInertia().asSymMat33()), (Mip.getMassCenter() - B2.getMassCenter()).norm());
            if (ei > tol * tsc) fail("inverse_transformInPlace_agrees_with_massprops", fmt("err=%g ", ei) + in);
            MassProperties Bi = B.calcTransformedMassProps(Xi); ++evals; // mass-properties route fed the inverse transform (converted)
            ei = std::max(diff(Bi.getUnitInertia().asSymMat33(), M2.getUnitInertia().asSymMat33()), (Bi.getMassCenter() - M2.getMassCenter()).norm());
            if (ei > tol * tsc) fail("massprops_inverse_transform_agrees_with_spatial_inertia", fmt("err=%g ", ei) + in);
            // round trips: transform(X) then transform(~X), and the other way round, return the original
            SpatialInertia Mrt = M.transform(X).transform(~X); ++evals;
            ei = std::max(diff(Mrt.getUnitInertia().asSymMat33(), G.asSymMat33()), (Mrt.getMassCenter() - p).norm());
            if (ei > tol * tsc * (1 + X.p().normSqr())) fail("transform_then_inverse_transform_roundtrip", fmt("err=%g ", ei) + in);
            SpatialInertia Mrt2 = M.transform(~X).transform(X); ++evals;
            ei = std::max(diff(Mrt2.getUnitInertia().asSymMat33(), G.asSymMat33()), (Mrt2.getMassCenter() - p).norm());
            if (ei > tol * tsc * (1 + X.p().normSqr())) fail("inverse_transform_then_transform_roundtrip", fmt("err=%g ", ei) + in);
            MassProperties Brt = B.calcTransformedMassProps(X).calcTransformedMassProps(~X); ++evals;
            ei = std::max(diff(Brt.getUnitInertia().asSymMat33(), G.asSymMat33()), (Brt.getMassCenter() - p).norm());
            if (ei > tol * tsc * (1 + X.p().normSqr())) fail("massprops_transform_roundtrip", fmt("err=%g ", ei) + in);
            // kinetic energy through the inverse overload (Vr = V shifted by X.p and re-expressed by X.R, as above)
            double kei = 0.5 * (~Vr * (Mi * Vr)); ++evals;
            if (std::abs(ke - kei) > tol * ksc) fail("ke_invariant_under_inverse_transform", fmt("ke=%.17g transformed=%.17g ", ke, kei) + in);
            // articulated inertia built from either route is the same operator
            { ArticulatedInertia Pa(Mi), Pb(M2); ++evals;
              if (diff(Pa.getInertia(), Pb.getInertia()) + (Pa.getMassMoment() - Pb.getMassMoment()).norm() > tol * ksc) fail("articulated_of_inverse_transform_agrees", in); }
            // re-expression through InverseRotation_ equals re-expression through Rotation_ (Inertia, UnitInertia, SpatialInertia, MassProperties)
            ++evals; if (diff(I_O.reexpress(Ri).asSymMat33(), I_O.reexpress(R).asSymMat33()) > tol * sc) fail("inertia_reexpress_inverse_rotation", S(s));
            ++evals; if (diff(G.reexpress(Ri).asSymMat33(), G.reexpress(R).asSymMat33()) > tol * tsc) fail("unitinertia_reexpress_inverse_rotation", in);
            { SpatialInertia Ma = M.reexpress(Ri), Mb = M.reexpress(R); ++evals;
              if (diff(Ma.getUnitInertia().asSymMat33(), Mb.getUnitInertia().asSymMat33()) + (Ma.getMassCenter() - Mb.getMassCenter()).norm() > tol * tsc) fail("spatialinertia_reexpress_inverse_rotation", in);
              SpatialInertia Mc(M); Mc.reexpressInPlace(Ri); ++evals;
              if (diff(Mc.getUnitInertia().asSymMat33(), Mb.getUnitInertia().asSymMat33()) + (Mc.getMassCenter() - Mb.getMassCenter()).norm() > tol * tsc) fail("spatialinertia_reexpressInPlace_inverse_rotation", in);
              MassProperties Bb = B.reexpress(R); ++evals;
              if (diff(Bb.getUnitInertia().asSymMat33(), Mb.getUnitInertia().asSymMat33()) + (Bb.getMassCenter() - Mb.getMassCenter()).norm() > tol * tsc) fail("massprops_reexpress_agrees_with_spatial_inertia", in); }
          } }
        // P7 accepted => positive semidefinite (the known finding lives here): random symmetric matrices
        { Vec3 d(U(0, 2), U(0, 2), U(0, 2)); Vec3 pr(U(-1, 1), U(-1, 1), U(-1, 1)); SymMat33 t(d[0], pr[0], d[1], pr[1], pr[2], d[2]); ++evals;
          if (Inertia::isValidInertiaMatrix(t)) {
              double me = minEig(t);
              if (me < -1e-6 * scaleOf(t)) fail("valid_implies_psd", S(t) + fmt(" minEig=%.17g det=%.17g", me, det(t)));
              ++evals; if (t(0,0)+t(1,1) < t(2,2) - tol*2 || t(0,0)+t(2,2) < t(1,1) - tol*2 || t(1,1)+t(2,2) < t(0,0) - tol*2) fail("valid_implies_triangle", S(t));
          } }
    }
    std::printf("DONE %ld\n", evals);
    return 0;
}
