// C30 probe: PolynomialRootFinder::findRoots, all six overloads, both precisions.
// One case per input line, one output line per case:
//   QR <d|f> a b c                      findRoots(Vec<3,T>,  Vec<2,complex<T>>)          real quadratic
//   QC <d|f> ar ai br bi cr ci          findRoots(Vec<3,complex<T>>, ...)                 complex quadratic
//   PR <d|f> n c0..cn                   real coefficients, degree n: n==3 -> Vec<4,T> overload, else Vector_<T>
//   VR <d|f> n c0..cn                   real coefficients, always the Vector_<T> overload
//   PC <d|f> n c0r c0i .. cnr cni       complex coefficients, n==3 -> Vec<4,complex<T>> overload, else Vector_
//   VC <d|f> n c0r c0i .. cnr cni       complex coefficients, always the Vector_ overload
// Output: "OK re im re im ..." (%a, floats widened exactly to double), "ZLC" for the ZeroLeadingCoefficient
// exception, "EXC <what>" for any other exception.
#include "SimTKcommon.h"
#include <cstdio>
#include <cstdlib>
#include <iostream>
#include <sstream>
#include <string>
#include <vector>
#include <complex>
using namespace SimTK;
static std::vector<std::string> tk; static size_t ti;
static double nf() { return std::strtod(tk.at(ti++).c_str(), 0); }
static int ni() { return std::atoi(tk.at(ti++).c_str()); }

template <class T, class V> static void out(const V& roots, int n) {
    std::printf("OK");
    for (int i = 0; i < n; ++i) std::printf(" %a %a", (double)roots[i].real(), (double)roots[i].imag());
    std::printf("\n");
}

template <class T> static void run(const std::string& kind) {
    typedef std::complex<T> CT;
    if (kind == "QR") {
        Vec<3,T> c; for (int i = 0; i < 3; ++i) c[i] = (T)nf();
        Vec<2,CT> r; PolynomialRootFinder::findRoots(c, r); out<T>(r, 2);
    } else if (kind == "QC") {
        Vec<3,CT> c; for (int i = 0; i < 3; ++i) { T re = (T)nf(); T im = (T)nf(); c[i] = CT(re, im); }
        Vec<2,CT> r; PolynomialRootFinder::findRoots(c, r); out<T>(r, 2);
    } else if (kind == "PR" || kind == "VR") {
        int n = ni(); std::vector<T> c(n+1); for (int i = 0; i <= n; ++i) c[i] = (T)nf();
        if (n == 3 && kind == "PR") {
            Vec<4,T> v; for (int i = 0; i < 4; ++i) v[i] = c[i];
            Vec<3,CT> r; PolynomialRootFinder::findRoots(v, r); out<T>(r, 3);
        } else {
            Vector_<T> v(n+1); for (int i = 0; i <= n; ++i) v[i] = c[i];
            Vector_<CT> r(n); PolynomialRootFinder::findRoots(v, r); out<T>(r, n);
        }
    } else if (kind == "PC" || kind == "VC") {
        int n = ni(); std::vector<CT> c(n+1); for (int i = 0; i <= n; ++i) { T re = (T)nf(); T im = (T)nf(); c[i] = CT(re, im); }
        if (n == 3 && kind == "PC") {
            Vec<4,CT> v; for (int i = 0; i < 4; ++i) v[i] = c[i];
            Vec<3,CT> r; PolynomialRootFinder::findRoots(v, r); out<T>(r, 3);
        } else {
            Vector_<CT> v(n+1); for (int i = 0; i <= n; ++i) v[i] = c[i];
            Vector_<CT> r(n); PolynomialRootFinder::findRoots(v, r); out<T>(r, n);
        }
    } else std::printf("?unknown\n");
}

int main() {
    std::string line;
    while (std::getline(std::cin, line)) {
        std::istringstream is(line); tk.clear(); ti = 0; std::string t; while (is >> t) tk.push_back(t);
        if (tk.empty()) continue;
        try {
            const std::string kind = tk[ti++]; const std::string prec = tk[ti++];
            if (prec == "f") run<float>(kind); else run<double>(kind);
        } catch (const PolynomialRootFinder::ZeroLeadingCoefficient&) { std::printf("ZLC\n"); }
        catch (const std::exception& e) {
            std::string w = e.what(); for (size_t i = 0; i < w.size(); ++i) if (w[i] == '\n') w[i] = ' ';
            std::printf("EXC %s\n", w.substr(0, 160).c_str());
        }
        std::fflush(stdout);
    }
    return 0;
}
