// C31 probe: runs the real SFMT / SimTK::Random on command lines read from stdin and prints one
// result line per command (all numbers in hex, doubles as their IEEE bit patterns) so that the
// check can compare them exactly with the extracted Coq model.
//   G32 seed n            init_gen_rand(seed); n x gen_rand32
//   G64 seed n            init_gen_rand(seed); n x gen_rand64
//   F32 seed size reps    init_gen_rand(seed); reps x fill_array32(size)
//   F64 seed size reps    init_gen_rand(seed); reps x fill_array64(size)
//   RES v                 to_res53(v)
//   U  seed n             Random::Uniform(); setSeed(seed); n x getValue
//   UF seed n             same through fillArray
//   UR seed min max n     Random::Uniform(min,max); setSeed; n x getValue       (min,max = bit patterns)
//   US seed min max n     Random::Uniform(); setMin; setMax; setSeed; n x getValue
//   UI seed min max n     Random::Uniform(min,max); setSeed; n x getIntValue    (decimal, signed)
//   GA seed mean sd n     Random::Gaussian(mean,sd); setSeed; n x getValue
//   RS seed n k           Uniform: setSeed, n draws, setSeed again, k draws (reseeding restarts the stream)
//   DEF n                 a fresh Random::Uniform() without setSeed: prints n values (seed = construction count)
//   WIT seed min max lim  first draw (1-based) at which Uniform(min,max).getIntValue() >= max or < min, and the
//                         unit-interval value of that draw (from a twin Uniform(0,1) with the same seed)
#include "SimTKcommon.h"
#include "SimTKcommon/Random/src/SFMT.h"
#include <cstdio>
#include <cstring>
#include <cstdint>
#include <string>
#include <iostream>
#include <sstream>
#include <vector>
using namespace SimTK;
using namespace SimTK_SFMT;

static uint64_t bitsOf(double d) { uint64_t u; memcpy(&u, &d, 8); return u; }
static double ofBits(uint64_t u) { double d; memcpy(&d, &u, 8); return d; }
static uint64_t rdhex(std::istringstream& is) { std::string s; is >> s; return strtoull(s.c_str(), 0, 16); }

int main() {
    std::string line;
    while (std::getline(std::cin, line)) {
        std::istringstream is(line);
        std::string cmd; is >> cmd;
        if (cmd == "G32" || cmd == "G64") {
            long long seed; int n; is >> seed >> n;
            SFMTData* d = createSFMTData();
            init_gen_rand((uint32_t)seed, *d);
            for (int i = 0; i < n; ++i) {
                if (cmd == "G32") printf("%x ", gen_rand32(*d));
                else printf("%llx ", (unsigned long long)gen_rand64(*d));
            }
            deleteSFMTData(d);
        } else if (cmd == "F32" || cmd == "F64") {
            long long seed; int size, reps; is >> seed >> size >> reps;
            SFMTData* d = createSFMTData();
            init_gen_rand((uint32_t)seed, *d);
            std::vector<uint64_t> buf(size);   // 8-byte aligned is enough for the standard-C path
            for (int r = 0; r < reps; ++r) {
                if (cmd == "F32") {
                    fill_array32((uint32_t*)buf.data(), size, *d);
                    for (int i = 0; i < size; ++i) printf("%x ", ((uint32_t*)buf.data())[i]);
                } else {
                    fill_array64(buf.data(), size, *d);
                    for (int i = 0; i < size; ++i) printf("%llx ", (unsigned long long)buf[i]);
                }
            }
            deleteSFMTData(d);
        } else if (cmd == "RES") {
            uint64_t v = rdhex(is);
            printf("%llx ", (unsigned long long)bitsOf(to_res53(v)));
        } else if (cmd == "U" || cmd == "UF") {
            int seed, n; is >> seed >> n;
            Random::Uniform u; u.setSeed(seed);
            if (cmd == "U") for (int i = 0; i < n; ++i) printf("%llx ", (unsigned long long)bitsOf(u.getValue()));
            else { std::vector<Real> a(n); u.fillArray(a.data(), n);
                   for (int i = 0; i < n; ++i) printf("%llx ", (unsigned long long)bitsOf(a[i])); }
        } else if (cmd == "UR" || cmd == "US" || cmd == "UI") {
            int seed, n; is >> seed; uint64_t mn = rdhex(is), mx = rdhex(is); is >> n;
            Random::Uniform* u;
            if (cmd == "US") { u = new Random::Uniform(); u->setMin(ofBits(mn)); u->setMax(ofBits(mx)); }
            else u = new Random::Uniform(ofBits(mn), ofBits(mx));
            u->setSeed(seed);
            for (int i = 0; i < n; ++i) {
                if (cmd == "UI") printf("%d ", u->getIntValue());
                else printf("%llx ", (unsigned long long)bitsOf(u->getValue()));
            }
            delete u;
        } else if (cmd == "GA") {
            int seed, n; is >> seed; uint64_t mean = rdhex(is), sd = rdhex(is); is >> n;
            Random::Gaussian g(ofBits(mean), ofBits(sd)); g.setSeed(seed);
            for (int i = 0; i < n; ++i) printf("%llx ", (unsigned long long)bitsOf(g.getValue()));
        } else if (cmd == "RS") {
            int seed, n, k; is >> seed >> n >> k;
            Random::Uniform u; u.setSeed(seed);
            for (int i = 0; i < n; ++i) u.getValue();
            u.setSeed(seed);
            for (int i = 0; i < k; ++i) printf("%llx ", (unsigned long long)bitsOf(u.getValue()));
        } else if (cmd == "DEF") {
            int n; is >> n;
            Random::Uniform u;
            for (int i = 0; i < n; ++i) printf("%llx ", (unsigned long long)bitsOf(u.getValue()));
        } else if (cmd == "WIT") {
            int seed; long long lim; is >> seed; uint64_t mn = rdhex(is), mx = rdhex(is); is >> lim;
            Random::Uniform u(ofBits(mn), ofBits(mx)), t(0.0, 1.0);
            u.setSeed(seed); t.setSeed(seed);
            long long at = 0; uint64_t rb = 0; int got = 0;
            for (long long i = 1; i <= lim; ++i) {
                int v = u.getIntValue(); double r = t.getValue();
                if (!(v < ofBits(mx)) || v < ofBits(mn)) { at = i; rb = bitsOf(r); got = v; break; }
            }
            printf("%lld %llx %d ", at, (unsigned long long)rb, got);
        } else if (cmd.empty()) {
            continue;
        } else printf("?");
        printf("\n");
    }
    return 0;
}
