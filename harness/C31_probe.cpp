// C31 probe: runs the real SFMT / SimTK::Random on command lines read from stdin and prints one
// result line per command (all numbers in hex, doubles as their IEEE bit patterns) so that the
// check can compare them exactly with the extracted Coq model.
//   G32 seed n            init_gen_rand(seed); n x gen_rand32
//   G64 seed n            init_gen_rand(seed); n x gen_rand64
//   F32 seed size reps    init_gen_rand(seed); reps x fill_array32(size)
//   F64 seed size reps    init_gen_rand(seed); reps x fill_array64(size)
//   RES v                 to_res53(v)
//   U  seed n             Random::Uniform(); setSeed(seed); n x getValue
//   UF seed n             same through fillArray
//   UR seed min max n     Random::Uniform(min,max); setSeed; n x getValue       (min,max = bit patterns)
//   US seed min max n     Random::Uniform(); setMin; setMax; setSeed; n x getValue
//   UI seed min max n     Random::Uniform(min,max); setSeed; n x getIntValue    (decimal, signed)
//   GA seed mean sd n     Random::Gaussian(mean,sd); setSeed; n x getValue
//   RS seed n k           Uniform: setSeed, n draws, setSeed again, k draws (reseeding restarts the stream)
//   DEF n                 a fresh Random::Uniform() without setSeed: prints n values (seed = construction count)
//   EX min max r          the expressions of Uniform::getValue/getIntValue evaluated in C++ double arithmetic for a
//                         given unit value r: bits and (int)floor of the pre-fix value min + r*(max-min), then of the
//                         value clamped as in commit 181ff92a (validates the Flocq binary64 model, incl. Bpred =
//                         nextafter, on boundary r; the use of the expression by Random is tied by UR/UI/AT)
//   AT seed min max k     Uniform(min,max); setSeed; the k-th getIntValue() (1-based), the k-th getValue() of an
//                         identical twin, and the unit value of that draw (twin Uniform(0,1))
//   HG seed mean sd ops..  history of one Random::Gaussian(mean,sd) after setSeed(seed); ops: g getValue, f<n> fillArray(n),
//                         m<bits> setMean, x<bits> setStdDev, s<seed> setSeed; prints every value produced
//   HU seed min max ops.. history of one Random::Uniform(min,max): g getValue, i getIntValue (printed i<dec>), f<n> fillArray,
//                         m<bits> setMin, x<bits> setMax, s<seed> setSeed
//   SRCH seed n           failing-input search: the property's predicates on n generated cases (see below)
//   WIT seed min max lim  first draw (1-based) at which Uniform(min,max).getIntValue() >= max or < min, and the
//                         unit-interval value of that draw (from a twin Uniform(0,1) with the same seed)
#include "SimTKcommon.h"
#include "SimTKcommon/Random/src/SFMT.h"
#include <cstdio>
#include <cmath>
#include <cstring>
#include <cstdint>
#include <string>
#include <iostream>
#include <sstream>
#include <vector>
using namespace SimTK;
using namespace SimTK_SFMT;

static uint64_t bitsOf(double d) { uint64_t u; memcpy(&u, &d, 8); return u; }
static double ofBits(uint64_t u) { double d; memcpy(&d, &u, 8); return d; }
static uint64_t rdhex(std::istringstream& is) { std::string s; is >> s; return strtoull(s.c_str(), 0, 16); }

int main() {
    std::string line;
    while (std::getline(std::cin, line)) {
        std::istringstream is(line);
        std::string cmd; is >> cmd;
        if (cmd == "G32" || cmd == "G64") {
            long long seed; int n; is >> seed >> n;
            SFMTData* d = createSFMTData();
            init_gen_rand((uint32_t)seed, *d);
            for (int i = 0; i < n; ++i) {
                if (cmd == "G32") printf("%x ", gen_rand32(*d));
                else printf("%llx ", (unsigned long long)gen_rand64(*d));
            }
            deleteSFMTData(d);
        } else if (cmd == "F32" || cmd == "F64") {
            long long seed; int size, reps; is >> seed >> size >> reps;
            SFMTData* d = createSFMTData();
            init_gen_rand((uint32_t)seed, *d);
            std::vector<uint64_t> buf(size);   // 8-byte aligned is enough for the standard-C path
            for (int r = 0; r < reps; ++r) {
                if (cmd == "F32") {
                    fill_array32((uint32_t*)buf.data(), size, *d);
                    for (int i = 0; i < size; ++i) printf("%x ", ((uint32_t*)buf.data())[i]);
                } else {
                    fill_array64(buf.data(), size, *d);
                    for (int i = 0; i < size; ++i) printf("%llx ", (unsigned long long)buf[i]);
                }
            }
            deleteSFMTData(d);
        } else if (cmd == "RES") {
            uint64_t v = rdhex(is);
            printf("%llx ", (unsigned long long)bitsOf(to_res53(v)));
        } else if (cmd == "U" || cmd == "UF") {
            int seed, n; is >> seed >> n;
            Random::Uniform u; u.setSeed(seed);
            if (cmd == "U") for (int i = 0; i < n; ++i) printf("%llx ", (unsigned long long)bitsOf(u.getValue()));
            else { std::vector<Real> a(n); u.fillArray(a.data(), n);
                   for (int i = 0; i < n; ++i) printf("%llx ", (unsigned long long)bitsOf(a[i])); }
        } else if (cmd == "UR" || cmd == "US" || cmd == "UI") {
            int seed, n; is >> seed; uint64_t mn = rdhex(is), mx = rdhex(is); is >> n;
            Random::Uniform* u;
            if (cmd == "US") { u = new Random::Uniform(); u->setMin(ofBits(mn)); u->setMax(ofBits(mx)); }
            else u = new Random::Uniform(ofBits(mn), ofBits(mx));
            u->setSeed(seed);
            for (int i = 0; i < n; ++i) {
                if (cmd == "UI") printf("%d ", u->getIntValue());
                else printf("%llx ", (unsigned long long)bitsOf(u->getValue()));
            }
            delete u;
        } else if (cmd == "GA") {
            int seed, n; is >> seed; uint64_t mean = rdhex(is), sd = rdhex(is); is >> n;
            Random::Gaussian g(ofBits(mean), ofBits(sd)); g.setSeed(seed);
            for (int i = 0; i < n; ++i) printf("%llx ", (unsigned long long)bitsOf(g.getValue()));
        } else if (cmd == "RS") {
            int seed, n, k; is >> seed >> n >> k;
            Random::Uniform u; u.setSeed(seed);
            for (int i = 0; i < n; ++i) u.getValue();
            u.setSeed(seed);
            for (int i = 0; i < k; ++i) printf("%llx ", (unsigned long long)bitsOf(u.getValue()));
        } else if (cmd == "DEF") {
            int n; is >> n;
            Random::Uniform u;
            for (int i = 0; i < n; ++i) printf("%llx ", (unsigned long long)bitsOf(u.getValue()));
        } else if (cmd == "WIT") {
            int seed; long long lim; is >> seed; uint64_t mn = rdhex(is), mx = rdhex(is); is >> lim;
            Random::Uniform u(ofBits(mn), ofBits(mx)), t(0.0, 1.0);
            u.setSeed(seed); t.setSeed(seed);
            long long at = 0; uint64_t rb = 0; int got = 0;
            for (long long i = 1; i <= lim; ++i) {
                int v = u.getIntValue(); double r = t.getValue();
                if (!(v < ofBits(mx)) || v < ofBits(mn)) { at = i; rb = bitsOf(r); got = v; break; }
            }
            printf("%lld %llx %d ", at, (unsigned long long)rb, got);
        } else if (cmd == "EX") {
            volatile double mn = ofBits(rdhex(is)), mx = ofBits(rdhex(is)), r = ofBits(rdhex(is));
            volatile double range = mx - mn; volatile double p = r * range; volatile double v = mn + p;
            volatile double c = v;
            if (v >= mx && mn < mx) c = std::nextafter((double)mx, (double)mn);
            for (int k = 0; k < 2; ++k) {
                double x = k ? (double)c : (double)v; double fl = std::floor(x);
                printf("%llx ", (unsigned long long)bitsOf(x));
                if (fl >= -2147483648.0 && fl <= 2147483647.0) printf("%d ", (int)fl); else printf("x ");
            }
        } else if (cmd == "AT") {
            int seed; long long k; is >> seed; uint64_t mn = rdhex(is), mx = rdhex(is); is >> k;
            Random::Uniform u(ofBits(mn), ofBits(mx)), w(ofBits(mn), ofBits(mx)), t(0.0, 1.0);
            u.setSeed(seed); w.setSeed(seed); t.setSeed(seed);
            int iv = 0; double rv = 0, r = 0;
            for (long long i = 1; i <= k; ++i) { iv = u.getIntValue(); rv = w.getValue(); r = t.getValue(); }
            printf("%d %llx %llx ", iv, (unsigned long long)bitsOf(rv), (unsigned long long)bitsOf(r));
        } else if (cmd == "HG" || cmd == "HU") {
            int seed; is >> seed; uint64_t a = rdhex(is), b = rdhex(is);
            Random::Gaussian* g = 0; Random::Uniform* u = 0; Random* rr;
            if (cmd == "HG") { g = new Random::Gaussian(ofBits(a), ofBits(b)); rr = g; } else { u = new Random::Uniform(ofBits(a), ofBits(b)); rr = u; }
            rr->setSeed(seed);
            std::string op;
            while (is >> op) {
                char c = op[0]; std::string arg = op.substr(1);
                if (c == 'g') printf("%llx ", (unsigned long long)bitsOf(rr->getValue()));
                else if (c == 'i' && u) printf("i%d ", u->getIntValue());
                else if (c == 'f') { int n = atoi(arg.c_str()); std::vector<Real> v(n); rr->fillArray(v.data(), n);
                                     for (int k = 0; k < n; ++k) printf("%llx ", (unsigned long long)bitsOf(v[k])); }
                else if (c == 'm') { double x = ofBits(strtoull(arg.c_str(), 0, 16)); if (g) g->setMean(x); else u->setMin(x); }
                else if (c == 'x') { double x = ofBits(strtoull(arg.c_str(), 0, 16)); if (g) g->setStdDev(x); else u->setMax(x); }
                else if (c == 's') rr->setSeed(atoi(arg.c_str()));
                else printf("? ");
            }
            delete rr;
        } else if (cmd == "SRCH") {
            int seed, n; is >> seed >> n;
            long long evals = 0; int fails = 0;
            // generator of the search itself: independent of the code under test (xorshift64*)
            struct Pick { uint64_t s; double getValue() { s ^= s >> 12; s ^= s << 25; s ^= s >> 27;
                          return (double)((s * 2685821657736338717ULL) >> 11) / 9007199254740992.0; } } pick;
            pick.s = 0x9E3779B97F4A7C15ULL ^ (uint64_t)(uint32_t)seed * 0x100000001B3ULL; if (!pick.s) pick.s = 1;
            // (a) SFMT reference vector
            { SFMTData* d = createSFMTData(); init_gen_rand(1234, *d);
              unsigned int e[] = {3440181298u, 1564997079u, 1510669302u, 2930277156u, 1452439940u};
              for (int i = 0; i < 5; ++i) { ++evals; unsigned int g = gen_rand32(*d);
                  if (g != e[i] && fails++ < 5) printf("FAIL sfmt-reference init_gen_rand(1234) output %d = %u expected %u\n", i, g, e[i]); }
              deleteSFMTData(d); }
            for (int c = 0; c < n; ++c) {
                int sd = (int)std::floor(pick.getValue() * 4294967296.0 - 2147483648.0);
                // (b) same seed -> same sequence; reseeding restarts it; values in [0,1)
                Random::Uniform u1, u2; u1.setSeed(sd); u2.setSeed(sd);
                double first = 0;
                for (int i = 0; i < 1500; ++i) { ++evals; double a = u1.getValue(), b = u2.getValue(); if (i == 0) first = a;
                    if (bitsOf(a) != bitsOf(b) && fails++ < 5) printf("FAIL determinism seed %d draw %d: %a vs %a\n", sd, i + 1, a, b);
                    if (!(a >= 0 && a < 1) && fails++ < 5) printf("FAIL unit-range seed %d draw %d: %a\n", sd, i + 1, a); }
                u1.setSeed(sd); ++evals;
                { double a = u1.getValue(); if (bitsOf(a) != bitsOf(first) && fails++ < 5) printf("FAIL reseed seed %d: %a vs %a\n", sd, a, first); }
                // (c) gen_rand64 and fill_array64 deliver the same stream
                { SFMTData* d1 = createSFMTData(); SFMTData* d2 = createSFMTData();
                  init_gen_rand((uint32_t)sd, *d1); init_gen_rand((uint32_t)sd, *d2);
                  std::vector<uint64_t> buf(1024); fill_array64(buf.data(), 1024, *d2);
                  for (int i = 0; i < 1024; ++i) { ++evals; uint64_t g = gen_rand64(*d1);
                      if (g != buf[i] && fails++ < 5) printf("FAIL fill-vs-gen seed %d index %d\n", sd, i); }
                  deleteSFMTData(d1); deleteSFMTData(d2); }
                // (d) ranges: intervals with |bounds| <= 1000 (where an overshoot by rounding has probability < 2^-40 per draw)
                double lo = std::floor(pick.getValue() * 2000 - 1000), w = 1 + std::floor(pick.getValue() * 50);
                if (c % 3 == 1) { lo = pick.getValue() * 2 - 1; w = pick.getValue() * 1e-3 + 1e-9; }
                Random::Uniform ur(lo, lo + w), ui(std::floor(lo), std::floor(lo) + std::ceil(w)); ur.setSeed(sd); ui.setSeed(sd);
                for (int i = 0; i < 1500; ++i) { evals += 2; double a = ur.getValue(); int k = ui.getIntValue();
                    if (!(a >= lo && a < lo + w) && fails++ < 5) printf("FAIL real-range seed %d min %a max %a draw %d: %a\n", sd, lo, lo + w, i + 1, a);
                    if (!(k >= std::floor(lo) && k < std::floor(lo) + std::ceil(w)) && fails++ < 5)
                        printf("FAIL int-range seed %d min %a max %a draw %d: %d\n", sd, std::floor(lo), std::floor(lo) + std::ceil(w), i + 1, k); }
                // (f) histories: parameters changed on a generator in use, after odd and even numbers of draws.
                //     A twin constructed with the NEW parameters and the same seed has identical underlying deviates,
                //     so after the change both must return bit-identical values; stddev := 0 must give exactly the mean;
                //     setSeed must restart the stream (and drop the cached second deviate); fillArray = repeated getValue.
                { int k = (int)std::floor(pick.getValue() * 7);            // 0..6 draws before the change
                  double m0 = pick.getValue() * 20 - 10, s0 = pick.getValue() * 5 + 0.1, m1 = pick.getValue() * 200 - 100, s1 = pick.getValue() * 3 + 0.05;
                  Random::Gaussian A(m0, s0), B(m1, s1), Z(m0, s0); A.setSeed(sd); B.setSeed(sd); Z.setSeed(sd);
                  for (int i = 0; i < k; ++i) { A.getValue(); B.getValue(); Z.getValue(); }
                  A.setMean(m1); A.setStdDev(s1);
                  ++evals; if ((A.getMean() != m1 || A.getStdDev() != s1) && fails++ < 5) printf("FAIL gaussian-getters seed %d: getMean/getStdDev do not return the values set\n", sd);
                  for (int i = 0; i < 5; ++i) { ++evals; double a = A.getValue(), b = B.getValue();
                      if (bitsOf(a) != bitsOf(b) && fails++ < 5)
                          printf("FAIL gaussian-history seed %d: Gaussian(%a,%a), %d draws, setMean(%a), setStdDev(%a), then value %d is %a but a generator with these parameters from the start gives %a\n", sd, m0, s0, k, m1, s1, i + 1, a, b); }
                  Z.setStdDev(0); ++evals; { double z = Z.getValue();
                      if (z != m0 && fails++ < 5) printf("FAIL gaussian-zero-stddev seed %d: Gaussian(%a,%a), %d draws, setStdDev(0), next value %a is not the mean\n", sd, m0, s0, k, z); }
                  // reseed after k+6 draws (odd or even): must equal a fresh generator
                  Random::Gaussian Fz(m1, s1); Fz.setSeed(sd ^ 1); A.setSeed(sd ^ 1);
                  for (int i = 0; i < 3; ++i) { ++evals; double a = A.getValue(), b = Fz.getValue();
                      if (bitsOf(a) != bitsOf(b) && fails++ < 5) printf("FAIL gaussian-reseed seed %d: after %d draws setSeed(%d), value %d is %a, a fresh generator gives %a\n", sd, k + 5, sd ^ 1, i + 1, a, b); }
                  // fillArray after an odd number of getValue calls
                  Random::Gaussian P(m0, s0), Q(m0, s0); P.setSeed(sd); Q.setSeed(sd); P.getValue(); Q.getValue();
                  Real arr[5]; P.fillArray(arr, 5);
                  for (int i = 0; i < 5; ++i) { ++evals; double b = Q.getValue();
                      if (bitsOf(arr[i]) != bitsOf(b) && fails++ < 5) printf("FAIL gaussian-fillArray seed %d: element %d after one getValue is %a, getValue gives %a\n", sd, i, arr[i], b); }
                  // Uniform: setMin/setMax on a generator in use
                  double a0 = std::floor(pick.getValue() * 100 - 50), w0 = 1 + std::floor(pick.getValue() * 9), a1 = std::floor(pick.getValue() * 100 - 50), w1 = 1 + std::floor(pick.getValue() * 9);
                  Random::Uniform U(a0, a0 + w0), V(a1, a1 + w1); U.setSeed(sd); V.setSeed(sd);
                  for (int i = 0; i < k; ++i) { U.getValue(); V.getValue(); }
                  if (k % 2) { U.setMin(a1); U.setMax(a1 + w1); } else { U.setMax(a1 + w1); U.setMin(a1); }
                  ++evals; if ((U.getMin() != a1 || U.getMax() != a1 + w1) && fails++ < 5) printf("FAIL uniform-getters seed %d\n", sd);
                  for (int i = 0; i < 4; ++i) { evals += 2; double a = U.getValue(), b = V.getValue(); int ia = U.getIntValue(), ib = V.getIntValue();
                      if ((bitsOf(a) != bitsOf(b) || ia != ib) && fails++ < 5)
                          printf("FAIL uniform-history seed %d: Uniform(%a,%a), %d draws, setMin(%a)/setMax(%a), then value %a / int %d but a generator with these bounds from the start gives %a / %d\n", sd, a0, a0 + w0, k, a1, a1 + w1, a, ia, b, ib); }
                  U.setSeed(sd); V.setSeed(sd); Real ua[3]; U.fillArray(ua, 3);
                  for (int i = 0; i < 3; ++i) { ++evals; double b = V.getValue(); if (bitsOf(ua[i]) != bitsOf(b) && fails++ < 5) printf("FAIL uniform-fillArray seed %d element %d\n", sd, i); }
                }
                // (e) Gaussian: same seed -> same sequence, finite values
                Random::Gaussian g1(lo, w), g2(lo, w); g1.setSeed(sd); g2.setSeed(sd);
                for (int i = 0; i < 300; ++i) { ++evals; double a = g1.getValue(), b = g2.getValue();
                    if ((bitsOf(a) != bitsOf(b) || !std::isfinite(a)) && fails++ < 5) printf("FAIL gaussian seed %d draw %d: %a vs %a\n", sd, i + 1, a, b); }
            }
            printf("DONE %lld %d", evals, fails);
        } else if (cmd.empty()) {
            continue;
        } else printf("?");
        printf("\n");
    }
    return 0;
}
