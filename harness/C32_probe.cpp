// C32 probe: text <-> value conversions of SimTK::String and the unformatted serialization, driven by
// command lines on stdin; strings are passed/printed hex-encoded (two hex digits per byte, "-" = empty),
// floating values as IEEE bit patterns, so the check compares with the extracted Coq model exactly.
//   CB hex | CI hex | CD hex | CF hex     String(s).tryConvertTo<bool|int|double|float>: "1 value" or "0",
//                                         followed by "t"/"n" = convertTo<T>() threw / did not throw
//   PD bits | PF bits32 | PI int | PB 0/1  String(x): the text (hex) and the value converted back
//   PP bits p                              String(double x, int precision p): text and value converted back
//   W type v1 v2 ...                       writeUnformatted of a value of the named type built from the doubles
//                                          v_i (bit patterns): text (hex), then readUnformatted of that text:
//                                          "1 bits..." or "0"
//   RU type hex                            readUnformatted<type> of an arbitrary text: "1 bits..." or "0"
//   XT c hex | XA c hex                    Xml round trip through the API with white-space condensing c (1/0): a document whose
//                                          root element has the text (XT) / an attribute with the value (XA) is written with
//                                          writeToString and re-read with readFromString: prints the written document (hex),
//                                          "1 <value read back, hex>" or "0" (exception)
//   XR c hex                               a hand-written document <?xml ..?><r a="CONTENT">CONTENT</r> is read: prints
//                                          "1 <attribute value hex> <element text hex>" or "0"
//   K name                                 replays of the known findings of the text route (see checks/C32.py)
// types: S double, SF float, I int, B bool, C complex<double>, V3 Vec3, V2V3 Vec<2,Vec3>, M23 Mat<2,3>, M22 Mat22,
//        R3 Row3, A Array_<double>, AV3 Array_<Vec3>, AC Array_<complex<double>>, VEC Vector_<double>,
//        VV3 Vector_<Vec3>, AM22 Array_<Mat22>, V3F Vec<3,float>, AF Array_<float>, VECF Vector_<float>
#include "SimTKcommon.h"
#include <cstdio>
#include <cstring>
#include <cstdint>
#include <cmath>
#include <complex>
#include <string>
#include <iostream>
#include <sstream>
#include <vector>
using namespace SimTK;

static uint64_t bitsOf(double d) { uint64_t u; memcpy(&u, &d, 8); return u; }
static double ofBits(uint64_t u) { double d; memcpy(&d, &u, 8); return d; }
static uint32_t bitsOfF(float d) { uint32_t u; memcpy(&u, &d, 4); return u; }
static float ofBitsF(uint32_t u) { float d; memcpy(&d, &u, 4); return d; }
static std::string unhex(const std::string& h) {
    std::string s; if (h == "-") return s;
    for (size_t i = 0; i + 1 < h.size(); i += 2) s.push_back((char)strtoul(h.substr(i, 2).c_str(), 0, 16));
    return s;
}
static std::string tohex(const std::string& s) {
    if (s.empty()) return "-";
    std::string h; char b[4];
    for (unsigned char c : s) { snprintf(b, 4, "%02x", c); h += b; }
    return h;
}
static void pd(double x) { printf("%llx ", (unsigned long long)bitsOf(x)); }

template <class T> static bool throwsOnConvert(const String& s) {
    try { T t; s.convertTo<T>(t); return false; } catch (const std::exception&) { return true; }
}

// flatten values to doubles for printing
static void out(double x) { pd(x); }
static void out(float x) { printf("%x ", bitsOfF(x)); }
static void out(int x) { printf("%d ", x); }
static void out(bool x) { printf("%d ", x ? 1 : 0); }
static void out(const std::complex<double>& c) { pd(c.real()); pd(c.imag()); }
template <int M, class E, int S> static void out(const Vec<M,E,S>& v) { for (int i = 0; i < M; ++i) out(v[i]); }
template <int M, class E, int S> static void out(const Row<M,E,S>& v) { for (int i = 0; i < M; ++i) out(v[i]); }
template <int M, int N, class E, int CS, int RS> static void out(const Mat<M,N,E,CS,RS>& m)
{ for (int i = 0; i < M; ++i) for (int j = 0; j < N; ++j) out(m(i,j)); }
template <class T> static void out(const Array_<T>& a) { printf("n%d ", (int)a.size()); for (int i = 0; i < (int)a.size(); ++i) out(a[i]); }
template <class T> static void out(const Vector_<T>& a) { printf("n%d ", a.size()); for (int i = 0; i < a.size(); ++i) out(a[i]); }

// fill values from a list of doubles
struct Src { std::vector<double> v; size_t k = 0; double next() { return k < v.size() ? v[k++] : 0.0; } bool more() const { return k < v.size(); } };
static void fill(Src& s, double& x) { x = s.next(); }
static void fill(Src& s, float& x) { x = (float)s.next(); }
static void fill(Src& s, std::complex<double>& c) { double a = s.next(), b = s.next(); c = std::complex<double>(a, b); }
template <int M, class E, int S> static void fill(Src& s, Vec<M,E,S>& v) { for (int i = 0; i < M; ++i) fill(s, v[i]); }
template <int M, class E, int S> static void fill(Src& s, Row<M,E,S>& v) { for (int i = 0; i < M; ++i) fill(s, v[i]); }
template <int M, int N, class E, int CS, int RS> static void fill(Src& s, Mat<M,N,E,CS,RS>& m)
{ for (int i = 0; i < M; ++i) for (int j = 0; j < N; ++j) fill(s, m(i,j)); }
template <class T> static void fill(Src& s, Array_<T>& a) { a.clear(); while (s.more()) { T t; fill(s, t); a.push_back(t); } }
template <class T> static void fill(Src& s, Vector_<T>& a) { Array_<T> b; fill(s, b); a.resize((int)b.size()); for (int i = 0; i < (int)b.size(); ++i) a[i] = b[i]; }

template <class T> static void doW(Src& s) {
    T v; fill(s, v);
    std::ostringstream os; writeUnformatted(os, v);
    printf("%s ", tohex(os.str()).c_str());
    std::istringstream is(os.str()); T back;
    if (readUnformatted(is, back)) { printf("1 "); out(back); } else printf("0 ");
}
template <class T> static void doRU(const std::string& text) {
    std::istringstream is(text); T back;
    if (readUnformatted(is, back)) { printf("1 "); out(back); } else printf("0 ");
}
#define TYPES(X) X("S",double) X("SF",float) X("C",std::complex<double>) X("V3",Vec3) X("V2V3",Vec<2 COMMA Vec3>) \
    X("M23",Mat<2 COMMA 3>) X("M22",Mat22) X("R3",Row3) X("A",Array_<double>) X("AV3",Array_<Vec3>) \
    X("AC",Array_<std::complex<double> >) X("VEC",Vector_<double>) X("VV3",Vector_<Vec3>) X("AM22",Array_<Mat22>) \
    X("V3F",Vec<3 COMMA float>) X("AF",Array_<float>) X("VECF",Vector_<float>)
#define COMMA ,

int main() {
    std::string line;
    while (std::getline(std::cin, line)) {
        std::istringstream ls(line);
        std::string cmd; ls >> cmd;
        if (cmd.empty()) continue;
        if (cmd == "CB" || cmd == "CI" || cmd == "CD" || cmd == "CF") {
            std::string h; ls >> h; String s(unhex(h));
            if (cmd == "CB") { bool b = false; if (s.tryConvertTo<bool>(b)) printf("1 %d ", b ? 1 : 0); else printf("0 "); printf(throwsOnConvert<bool>(s) ? "t" : "n"); }
            if (cmd == "CI") { int i = 0; if (s.tryConvertTo<int>(i)) printf("1 %d ", i); else printf("0 "); printf(throwsOnConvert<int>(s) ? "t" : "n"); }
            if (cmd == "CD") { double d = 0; if (s.tryConvertTo<double>(d)) printf("1 %llx ", (unsigned long long)bitsOf(d)); else printf("0 "); printf(throwsOnConvert<double>(s) ? "t" : "n"); }
            if (cmd == "CF") { float d = 0; if (s.tryConvertTo<float>(d)) printf("1 %x ", bitsOfF(d)); else printf("0 "); printf(throwsOnConvert<float>(s) ? "t" : "n"); }
        } else if (cmd == "PD") {
            std::string h; ls >> h; double x = ofBits(strtoull(h.c_str(), 0, 16));
            String s(x); double y = 0; bool ok = s.tryConvertTo<double>(y);
            printf("%s %d %llx", tohex(s).c_str(), ok ? 1 : 0, (unsigned long long)bitsOf(y));
        } else if (cmd == "PP") {
            std::string h; int p; ls >> h >> p; double x = ofBits(strtoull(h.c_str(), 0, 16));
            String s(x, p); double y = 0; bool ok = s.tryConvertTo<double>(y);
            printf("%s %d %llx", tohex(s).c_str(), ok ? 1 : 0, (unsigned long long)bitsOf(y));
        } else if (cmd == "PF") {
            std::string h; ls >> h; float x = ofBitsF((uint32_t)strtoul(h.c_str(), 0, 16));
            String s(x); float y = 0; bool ok = s.tryConvertTo<float>(y);
            printf("%s %d %x", tohex(s).c_str(), ok ? 1 : 0, bitsOfF(y));
        } else if (cmd == "PI") {
            int x; ls >> x; String s(x); int y = 0; bool ok = s.tryConvertTo<int>(y);
            printf("%s %d %d", tohex(s).c_str(), ok ? 1 : 0, y);
        } else if (cmd == "PB") {
            int x; ls >> x; String s(x != 0); bool y = false; bool ok = s.tryConvertTo<bool>(y);
            printf("%s %d %d", tohex(s).c_str(), ok ? 1 : 0, y ? 1 : 0);
        } else if (cmd == "W") {
            std::string ty, h; ls >> ty; Src src; while (ls >> h) src.v.push_back(ofBits(strtoull(h.c_str(), 0, 16)));
            bool done = false;
#define X(name, T) if (!done && ty == name) { doW< T >(src); done = true; }
            TYPES(X)
#undef X
            if (!done) printf("?");
        } else if (cmd == "RU") {
            std::string ty, h; ls >> ty >> h; std::string text = unhex(h);
            bool done = false;
#define X(name, T) if (!done && ty == name) { doRU< T >(text); done = true; }
            TYPES(X)
#undef X
            if (!done && ty == "I") { doRU<int>(text); done = true; }
            if (!done && ty == "B") { doRU<bool>(text); done = true; }
            if (!done) printf("?");
        } else if (cmd == "XT" || cmd == "XA" || cmd == "XR") {
            int cw; std::string h; ls >> cw >> h; std::string content = unhex(h);
            Xml::Document::setXmlCondenseWhiteSpace(cw != 0);
            try {
                if (cmd == "XR") {
                    std::string text = "<?xml version=\"1.0\" encoding=\"UTF-8\"?><r a=\"" + content + "\">" + content + "</r>";
                    Xml::Document d; d.readFromString(String(text));
                    Xml::Element r = d.getRootElement();
                    printf("1 %s %s", tohex(r.getRequiredAttributeValue("a")).c_str(), tohex(r.getValue()).c_str());
                } else {
                    Xml::Document d; d.setRootTag("r");
                    Xml::Element r = d.getRootElement();
                    if (cmd == "XT") r.setValue(String(content)); else r.setAttributeValue("a", String(content));
                    String out; d.writeToString(out, true);
                    Xml::Document e; e.readFromString(out);
                    Xml::Element q = e.getRootElement();
                    std::string back = cmd == "XT" ? std::string(q.getValue()) : std::string(q.getRequiredAttributeValue("a"));
                    printf("%s 1 %s", tohex(out).c_str(), tohex(back).c_str());
                }
            } catch (const std::exception& ex) { printf("0"); }
            Xml::Document::setXmlCondenseWhiteSpace(true);
        } else if (cmd == "K") {
            std::string name; ls >> name;
            if (name == "vec_default_digits") {        // String(Vec3) uses the stream default of 6 digits
                Vec3 v(0.1234567890123, 1.0 / 3.0, 2.0 / 3.0); String s(v); Vec3 w(0);
                bool ok = s.tryConvertTo<Vec3>(w);
                printf("%s %d %d", tohex(s).c_str(), ok ? 1 : 0, (ok && w == v) ? 1 : 0);
            } else if (name == "vector_default_digits") {
                Vector v(3); v[0] = 0.1234567890123; v[1] = 1.0 / 3.0; v[2] = 2.0 / 3.0; String s(v); Vector w;
                bool ok = s.tryConvertTo<Vector>(w);
                printf("%s %d %d", tohex(s).c_str(), ok ? 1 : 0, (ok && w.size() == 3 && w[0] == v[0] && w[1] == v[1] && w[2] == v[2]) ? 1 : 0);
            } else if (name == "complex_nonfinite") {   // "(NaN,1)" as printed does not convert back
                std::complex<double> c(NaN, 1.0); String s(c); std::complex<double> d;
                bool ok = s.tryConvertTo<std::complex<double> >(d);
                std::complex<double> c2(1.5, -2.25); String s2(c2); std::complex<double> d2; bool ok2 = s2.tryConvertTo<std::complex<double> >(d2);
                printf("%s %d %s %d %d", tohex(s).c_str(), ok ? 1 : 0, tohex(s2).c_str(), ok2 ? 1 : 0, (ok2 && d2 == c2) ? 1 : 0);
            } else if (name == "vec_nonfinite") {        // "~[nan,inf,-inf]" does not convert back
                Vec3 v(NaN, Infinity, -Infinity); String s(v); Vec3 w(0);
                bool ok = s.tryConvertTo<Vec3>(w);
                printf("%s %d", tohex(s).c_str(), ok ? 1 : 0);
            } else if (name == "mat_extraction") {       // operator>>(istream&, Mat&) is assert(false); return is;
                Mat22 m(1, 2, 3, 4); String s(m); Mat22 w(0);
                fflush(stdout);
                bool ok = s.tryConvertTo<Mat22>(w);      // aborts here unless NDEBUG
                printf("%s %d", tohex(s).c_str(), ok ? 1 : 0);
            } else printf("?");
        } else printf("?");
        printf("\n");
    }
    return 0;
}
