// C33 probe: runs the real ParallelExecutor / Parallel2DExecutor / ParallelWorkQueue on cases read from stdin and
// prints (a) every task callback and (if the SIMBODY_VERIF hook call sites are present in the library) every hook
// event as one totally ordered, mutex-protected log, (b) the property's own predicates evaluated on the
// implementation ("PRED ok" / "PRED FAIL ..."), (c) for Parallel2DExecutor the binStart / squares tables of the
// implementation object.  Schedules are perturbed pseudo-randomly (from the seed) in every callback and every
// SimTK_VERIF_YIELD point.
//
// stdin, one case per line:
//   pe  <seed> <perturb> <maxThreads> <n1> <n2> ...          one executor, one execute() per n
//   p2d <seed> <perturb> <gridSize> <numProc> <rt 0|1|2> <ext 0|1|2> <reps>
//         ext 0: Parallel2DExecutor(gridSize, numProc); 1: (gridSize, ParallelExecutor(numProc)); 2: as 1 with
//         sysconf(_SC_NPROCESSORS_ONLN) faked to 1 (single-processor machine)
//   wq  <seed> <perturb> <queueSize> <numThreads> <prog>     prog over {a = addTask(next id), f = flush()}
// stdout per case:  CASE k ... / R <tid> <tag> <numbers...> / PRED ... / TAB ... / SQ ... / NPROC n / END
#include "SimTKcommon/internal/common.h"
#include "SimTKcommon/internal/Array.h"
#include "SimTKcommon/internal/ParallelExecutor.h"
#include "SimTKcommon/internal/Parallel2DExecutor.h"
#include "SimTKcommon/internal/ParallelWorkQueue.h"
#include "SimTKcommon/internal/VerifTrace.h"
#include <atomic>
#include <chrono>
#include <cstdio>
#include <cstring>
#include <iostream>
#include <map>
#include <mutex>
#include <sstream>
#include <string>
#include <thread>
#include <vector>
#include <dlfcn.h>
#include <unistd.h>
#include <sched.h>
#define private public
#include "SimTKcommon/src/Parallel2DExecutorImpl.h"
#undef private

using namespace SimTK;

// ---------------------------------------------------------------- fake processor count (ext == 2)
static std::atomic<long> gFakeNproc{0};
#if !defined(__SANITIZE_THREAD__)             // the sanitizer runtime calls sysconf before it is initialised: no interposer there
extern "C" long __sysconf(int name);          // glibc's own entry point
extern "C" long sysconf(int name) {
    if (name == _SC_NPROCESSORS_ONLN && gFakeNproc.load() > 0) return gFakeNproc.load();
    return __sysconf(name);
}
#endif

// ---------------------------------------------------------------- log
struct Rec { int tid; const char* tag; int n; double v[8]; };
static std::mutex gLogMx;
static std::vector<Rec> gLog;
static std::map<std::thread::id, int> gTid;
static std::atomic<int> gEpoch{0};
static unsigned long long gSeed = 1;
static int gPerturb = 0;
static std::atomic<int> gHookRecords{0};

static void logRec(const char* tag, int n, const double* v) {
    std::lock_guard<std::mutex> g(gLogMx);
    std::thread::id me = std::this_thread::get_id();
    std::map<std::thread::id, int>::iterator it = gTid.find(me);
    int tid;
    if (it == gTid.end()) { tid = (int)gTid.size(); gTid[me] = tid; } else tid = it->second;
    Rec r; r.tid = tid; r.tag = tag; r.n = n > 8 ? 8 : n;
    for (int i = 0; i < r.n; ++i) r.v[i] = v[i];
    gLog.push_back(r);
}
static void logT(const char* tag) { logRec(tag, 0, 0); }
static void logT(const char* tag, double a) { logRec(tag, 1, &a); }
static void logT(const char* tag, double a, double b) { double v[2] = {a, b}; logRec(tag, 2, v); }

// pseudo-random schedule perturbation, per-thread generator derived from the case seed
static void perturb() {
    if (gPerturb <= 0) return;
    thread_local unsigned long long st = 0; thread_local int ep = -1;
    if (ep != gEpoch.load()) {
        ep = gEpoch.load();
        st = gSeed * 0x9E3779B97F4A7C15ULL ^ (std::hash<std::thread::id>()(std::this_thread::get_id()) * 0xBF58476D1CE4E5B9ULL);
        if (!st) st = 88172645463325252ULL;
    }
    st ^= st << 13; st ^= st >> 7; st ^= st << 17;
    unsigned r = (unsigned)(st >> 33) % 64;
    if (r < (unsigned)(4 * gPerturb)) sched_yield();
    else if (r < (unsigned)(6 * gPerturb)) std::this_thread::sleep_for(std::chrono::microseconds(1 + (st >> 20) % 60));
    else if (r == 63 && gPerturb >= 2) std::this_thread::sleep_for(std::chrono::microseconds(200 + (st >> 20) % 400));
}
static void hookSink(const char* tag, int n, const double* v) { gHookRecords++; logRec(tag, n, v); }
static void hookYield(const char*) { perturb(); }

static std::mutex gFailMx; static std::string gFail;
static void fail(const std::string& s) { std::lock_guard<std::mutex> g(gFailMx); if (gFail.empty()) gFail = s; }

static void beginCase(unsigned long long seed, int pert) {
    gEpoch++; gSeed = seed; gPerturb = pert; gFail.clear();
    std::lock_guard<std::mutex> g(gLogMx); gLog.clear(); gTid.clear();
    gTid[std::this_thread::get_id()] = 0;                    // the caller is thread 0
}
static void dumpLog() {
    std::lock_guard<std::mutex> g(gLogMx);
    for (size_t i = 0; i < gLog.size(); ++i) {
        const Rec& r = gLog[i];
        std::printf("R %d %s", r.tid, r.tag);
        for (int k = 0; k < r.n; ++k) std::printf(" %.0f", r.v[k]);
        std::printf("\n");
    }
}
static void endCase() {
    dumpLog();
    if (gFail.empty()) std::printf("PRED ok\n"); else std::printf("PRED FAIL %s\n", gFail.c_str());
    std::printf("END\n"); std::fflush(stdout);
}

// ---------------------------------------------------------------- ParallelExecutor
static std::atomic<int> gInFinish{0};
struct PETask : public ParallelExecutor::Task {
    int n; std::vector<std::atomic<int> > cnt; std::atomic<int> inits, fins, running;
    PETask(int n) : n(n), cnt(n > 0 ? n : 0), inits(0), fins(0), running(0) { for (int i = 0; i < n; ++i) cnt[i] = 0; }
    static int& phase() { thread_local int p = 0; return p; }
    void initialize() override {
        logT("t.init"); if (phase() != 0) fail("initialize called twice on a thread without finish"); phase() = 1;
        inits++; running++; perturb();
    }
    void execute(int i) override {
        logT("t.exec", i); if (phase() != 1) fail("execute before initialize / after finish on its thread");
        if (i < 0 || i >= n) fail("index out of range"); else cnt[i]++;
        perturb();
    }
    void finish() override {
        logT("t.fin.b"); if (phase() != 1) fail("finish without initialize on its thread"); phase() = 0;
        if (gInFinish.fetch_add(1) != 0) fail("two finish() calls overlap");
        perturb();
        gInFinish.fetch_sub(1); fins++; running--;
        logT("t.fin.e");
    }
};

static void runPE(std::istringstream& in) {
    unsigned long long seed; int pert, maxThreads; in >> seed >> pert >> maxThreads;
    std::vector<int> ns; int x; while (in >> x) ns.push_back(x);
    beginCase(seed, pert);
    {
        ParallelExecutor ex(maxThreads);
        for (size_t r = 0; r < ns.size(); ++r) {
            PETask task(ns[r]);
            logT("c.exec.begin", ns[r]);
            ex.execute(task, ns[r]);
            // execute() has returned: everything must be complete
            int expect = maxThreads < 2 ? 1 : maxThreads;
            if (task.running.load() != 0) fail("execute returned while a worker was between initialize and finish");
            if (task.inits.load() != expect || task.fins.load() != expect) fail("initialize/finish call count wrong at return of execute");
            for (int i = 0; i < ns[r]; ++i) if (task.cnt[i].load() != 1) { fail("index not executed exactly once at return of execute"); break; }
            logT("c.exec.end", ns[r]);
        }
        logT("c.dtor");
    }
    logT("c.done");
    endCase();
}

// ---------------------------------------------------------------- Parallel2DExecutor
struct P2Task : public Parallel2DExecutor::Task {
    int n; std::vector<std::atomic<int> > cnt, busy; std::atomic<int> inits, fins;
    P2Task(int n) : n(n), cnt((size_t)n * n), busy(n), inits(0), fins(0) {
        for (size_t i = 0; i < cnt.size(); ++i) cnt[i] = 0; for (int i = 0; i < n; ++i) busy[i] = 0; }
    void initialize() override { logT("t.init"); inits++; perturb(); }
    void execute(int i, int j) override {
        logT("t.x2", i, j);
        if (i < 0 || j < 0 || i >= n || j >= n) { fail("pair out of range"); return; }
        cnt[(size_t)i * n + j]++;
        if (busy[i].fetch_add(1) != 0) fail("two concurrent invocations share an index");
        if (j != i && busy[j].fetch_add(1) != 0) fail("two concurrent invocations share an index");
        perturb();
        busy[i].fetch_sub(1); if (j != i) busy[j].fetch_sub(1);
    }
    void finish() override {
        logT("t.fin.b"); if (gInFinish.fetch_add(1) != 0) fail("two finish() calls overlap"); perturb();
        gInFinish.fetch_sub(1); fins++; logT("t.fin.e"); }
};
static bool inRange(int rt, int i, int j) { return rt == 0 ? true : rt == 1 ? j < i : j <= i; }

static void runP2D(std::istringstream& in) {
    unsigned long long seed; int pert, gridSize, numProc, rt, ext, reps; in >> seed >> pert >> gridSize >> numProc >> rt >> ext >> reps;
    beginCase(seed, pert);
    gFakeNproc = (ext == 2) ? 1 : 0;
    std::printf("NPROC %d\n", ParallelExecutor::getNumProcessors());
    {
        ParallelExecutor* shared = ext ? new ParallelExecutor(numProc) : 0;
        Parallel2DExecutor* ex = ext ? new Parallel2DExecutor(gridSize, *shared) : new Parallel2DExecutor(gridSize, numProc);
        const Parallel2DExecutorImpl& impl = ex->getImpl();
        std::printf("TAB");
        for (int i = 0; i < (int)impl.binStart.size(); ++i) std::printf(" %d", impl.binStart[i]);
        std::printf("\n");
        for (int p = 0; p < (int)impl.squares.size(); ++p) {
            std::printf("SQ %d", p);
            for (int k = 0; k < (int)impl.squares[p].size(); ++k) std::printf(" %d,%d", impl.squares[p][k].first, impl.squares[p][k].second);
            std::printf("\n");
        }
        for (int r = 0; r < reps; ++r) {
            P2Task task(gridSize);
            logT("c.exec.begin", r);
            ex->execute(task, (Parallel2DExecutor::RangeType)rt);
            for (int i = 0; i < gridSize; ++i) for (int j = 0; j < gridSize; ++j) {
                int want = inRange(rt, i, j) ? 1 : 0;
                if (task.cnt[(size_t)i * gridSize + j].load() != want) {
                    std::ostringstream o; o << "pair (" << i << "," << j << ") executed " << task.cnt[(size_t)i * gridSize + j].load() << " times, expected " << want;
                    fail(o.str()); i = gridSize; break; }
            }
            logT("c.exec.end", r);
        }
        delete ex; delete shared;
    }
    gFakeNproc = 0;
    logT("c.done");
    endCase();
}

// ---------------------------------------------------------------- ParallelWorkQueue
static std::vector<std::atomic<int> >* gExecd = 0; static std::vector<std::atomic<int> >* gDeld = 0;
struct WQTask : public ParallelWorkQueue::Task {
    int id; WQTask(int id) : id(id) {}
    void execute() override { logT("t.exec", id); (*gExecd)[id]++; perturb(); }
    ~WQTask() override { if ((*gExecd)[id].load() != 1) fail("task deleted before/without being executed exactly once");
                         (*gDeld)[id]++; perturb(); logT("t.del", id); }
};
static void runWQ(std::istringstream& in) {
    unsigned long long seed; int pert, qs, nt; std::string prog; in >> seed >> pert >> qs >> nt >> prog;
    beginCase(seed, pert);
    int total = 0; for (size_t i = 0; i < prog.size(); ++i) if (prog[i] == 'a') total++;
    std::vector<std::atomic<int> > execd(total + 1), deld(total + 1);
    for (int i = 0; i <= total; ++i) { execd[i] = 0; deld[i] = 0; }
    gExecd = &execd; gDeld = &deld;
    int added = 0;
    {
        ParallelWorkQueue q(qs, nt);
        for (size_t k = 0; k < prog.size(); ++k) {
            if (prog[k] == 'a') { logT("c.add", added); q.addTask(new WQTask(added)); added++; perturb(); }
            else {
                logT("c.flush.begin"); q.flush();
                for (int i = 0; i < added; ++i) if (execd[i].load() != 1 || deld[i].load() != 1) {
                    std::ostringstream o; o << "flush returned but task " << i << " executed " << execd[i].load() << " deleted " << deld[i].load();
                    fail(o.str()); break; }
                logT("c.flush.end");
            }
        }
        logT("c.dtor");
    }
    for (int i = 0; i < added; ++i) if (execd[i].load() != 1 || deld[i].load() != 1) {
        std::ostringstream o; o << "after destruction task " << i << " executed " << execd[i].load() << " deleted " << deld[i].load();
        fail(o.str()); break; }
    logT("c.done");
    endCase();
}

int main() {
#ifdef SIMBODY_VERIF
    SimTK::VerifTrace::sink().store(&hookSink);
    SimTK::VerifTrace::yielder().store(&hookYield);
#endif
    std::string line; int k = 0;
    while (std::getline(std::cin, line)) {
        std::istringstream in(line); std::string kind; if (!(in >> kind)) continue;
        std::printf("CASE %d %s\n", k++, line.c_str());
        if (kind == "pe") runPE(in); else if (kind == "p2d") runP2D(in); else if (kind == "wq") runWQ(in);
        else { std::printf("PRED FAIL unknown case kind\nEND\n"); }
    }
    std::printf("HOOKRECORDS %d\n", gHookRecords.load());
    return 0;
}
