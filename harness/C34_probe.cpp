// C34 probe: surface queries of the analytic ContactGeometry shapes, one query per input line, results with %a.
//   HSN p[3]            -> point[3] inside normal[3]            (HalfSpace::findNearestPoint)
//   HSR o[3] d[3]       -> hit dist normal[3] dirUsed[3]        (intersectsRay; d is normalised here and echoed)
//   SPN r p[3] | SPR r o[3] d[3] | SPV r x[3] -> value grad[3] | SPS r d[3] -> support[3] dirUsed[3] | SPB r -> centre[3] radius
//   CYN r p[3] | CYR r o[3] d[3] | CYV r x[3]
//   BXS h[3] d[3] -> support[3] dirUsed[3] | BXB h[3] -> centre[3] radius | BXN h[3] p[3] | BXR h[3] o[3] d[3]   (the last two throw)
//   ELN a b c p[3] -> point[3] inside normal[3]                 (Ellipsoid::findNearestPoint, for the degenerate centre query)
//   SEARCH seed n  -> implementation-only predicates on n random queries per shape; prints FAIL lines and a DONE line
#include "Simbody.h"
#include <cstdio>
#include <cstdlib>
#include <string>
#include <sstream>
#include <iostream>
#include <vector>
#include <random>
using namespace SimTK;
static std::vector<double> A; static size_t ai;
static double nx() { if (ai >= A.size()) throw std::runtime_error("args"); return A[ai++]; }
static Vec3 nv() { Vec3 v; for (int i = 0; i < 3; ++i) v[i] = nx(); return v; }
static void pr(double x) { std::printf("%a ", x); }
static void pr(const Vec3& v) { for (int i = 0; i < 3; ++i) pr(v[i]); }
static void pr(const UnitVec3& v) { for (int i = 0; i < 3; ++i) pr(v[i]); }

static void nearest(const ContactGeometry& g, const Vec3& p) {
    bool inside = false; UnitVec3 n; Vec3 q = g.findNearestPoint(p, inside, n); pr(q); pr(inside ? 1.0 : 0.0); pr(n);
}
static void ray(const ContactGeometry& g, const Vec3& o, const Vec3& d) {
    UnitVec3 u(d); Real dist = NaN; UnitVec3 n; bool hit = g.intersectsRay(o, u, dist, n);
    pr(hit ? 1.0 : 0.0); if (hit) { pr(dist); pr(n); } else { pr(0.0); pr(Vec3(0)); } pr(u);
}
static void valgrad(const ContactGeometry& g, const Vec3& x) { pr(g.calcSurfaceValue(x)); pr(g.calcSurfaceGradient(x)); }
static void support(const ContactGeometry& g, const Vec3& d) { UnitVec3 u(d); pr(g.calcSupportPoint(u)); pr(u); }
static void bsphere(const ContactGeometry& g) { Vec3 c; Real r; g.getBoundingSphere(c, r); pr(c); pr(r); }

// ---- implementation-only predicates
static int nfail = 0; static long nev = 0;
static void fail(const char* what, const char* shape, const Vec3& a, const Vec3& b, double x) {
    if (nfail < 5) std::printf("FAIL %s:%s a=%.17g,%.17g,%.17g b=%.17g,%.17g,%.17g x=%.17g\n", shape, what, a[0], a[1], a[2], b[0], b[1], b[2], x);
    ++nfail;
}
static void search(unsigned seed, int n) {
    std::mt19937_64 rng(seed); std::uniform_real_distribution<double> U(-1, 1);
    auto rv = [&](double s) { return Vec3(s * U(rng), s * U(rng), s * U(rng)); };
    auto ru = [&]() { Vec3 v; do v = rv(1); while (v.norm() < 0.2 || v.norm() > 1); return UnitVec3(v); };
    for (int it = 0; it < n; ++it) {
        const Real r = 0.2 + 1.3 * std::abs(U(rng));
        ContactGeometry::Sphere sp(r); ContactGeometry::Cylinder cy(r); ContactGeometry::HalfSpace hs;
        Vec3 h(0.2 + std::abs(U(rng)), 0.2 + std::abs(U(rng)), 0.2 + std::abs(U(rng))); ContactGeometry::Brick bx(h);
        // nearest point: on the surface, flag = sign of f, unit normal, no sampled surface point closer
        Vec3 p = rv(2.5); if (p.norm() < 1e-3) p = Vec3(0.3, 0, 0);
        for (int sh = 0; sh < 3; ++sh) {
            const ContactGeometry& g = sh == 0 ? (const ContactGeometry&)sp : sh == 1 ? (const ContactGeometry&)cy : (const ContactGeometry&)hs;
            const char* nm = sh == 0 ? "Sphere" : sh == 1 ? "Cylinder" : "HalfSpace";
            if (sh == 1 && Vec2(p[0], p[1]).norm() < 1e-3) continue;
            bool inside; UnitVec3 nrm; Vec3 q = g.findNearestPoint(p, inside, nrm); ++nev;
            Real fq = sh == 2 ? q[0] : g.calcSurfaceValue(q), fp = sh == 2 ? p[0] : g.calcSurfaceValue(p);
            if (std::abs(fq) > 1e-9 * (1 + r * r)) fail("nearest-not-on-surface", nm, p, q, fq);
            if (inside != (fp >= 0) && std::abs(fp) > 1e-9) fail("inside-flag-not-sign-of-f", nm, p, q, fp);
            if (std::abs(nrm.norm() - 1) > 1e-12) fail("normal-not-unit", nm, p, q, nrm.norm());
            for (int k = 0; k < 8; ++k) {   // other surface points
                Vec3 s;
                if (sh == 0) s = r * Vec3(ru());
                else if (sh == 1) { Real a = Pi * U(rng); s = Vec3(r * std::cos(a), r * std::sin(a), p[2] + U(rng)); }
                else s = Vec3(0, p[1] + U(rng), p[2] + U(rng));
                if ((p - s).norm() < (p - q).norm() - 1e-9) fail("nearest-not-closest", nm, p, s, (p - q).norm() - (p - s).norm());
            }
            // outward normal = -grad/|grad| (sphere, cylinder)
            if (sh < 2) { Vec3 gr = g.calcSurfaceGradient(q); if ((Vec3(nrm) + gr / gr.norm()).norm() > 1e-9) fail("normal-not-minus-unit-gradient", nm, p, q, 0);
                // gradient is the derivative of f
                Vec3 x = rv(1.5), d = Vec3(ru()); Real e = 1e-6;
                Real fd = (g.calcSurfaceValue(x + e * d) - g.calcSurfaceValue(x - e * d)) / (2 * e);
                if (std::abs(fd - dot(g.calcSurfaceGradient(x), d)) > 1e-6) fail("gradient-not-derivative", nm, x, d, fd); }
            // ray: reported hit lies on the surface, no earlier crossing (sign change of f sampled along the ray)
            Vec3 o = rv(2.5); UnitVec3 d = ru(); Real dist; UnitVec3 hn; ++nev;
            if (sh == 1 && Vec2(d[0], d[1]).norm() < 1e-2) continue;
            auto f = [&](const Vec3& y) { return sh == 2 ? y[0] : g.calcSurfaceValue(y); };
            bool hit = g.intersectsRay(o, d, dist, hn);
            Real smax = hit ? dist : 12.0; int crossings = 0; Real prev = f(o);
            for (int k = 1; k <= 400; ++k) { Real s = smax * k / 400.0 * (hit ? 0.999 : 1.0); Real cur = f(o + s * d); if ((prev > 0) != (cur > 0) && std::abs(prev) > 1e-9 && std::abs(cur) > 1e-9) ++crossings; prev = cur; }
            if (hit && (dist < 0 || std::abs(f(o + dist * d)) > 1e-8 * (1 + dist * dist))) fail("ray-hit-not-on-surface", nm, o, Vec3(d), dist);
            if (crossings > 0 && std::abs(f(o)) > 1e-6) fail(hit ? "ray-hit-not-first" : "ray-missed-a-crossing", nm, o, Vec3(d), hit ? dist : -1);
        }
        // support points: on the shape, no sampled point of the shape further along d
        UnitVec3 d = ru(); ++nev;
        Vec3 s1 = sp.calcSupportPoint(d), s2 = bx.calcSupportPoint(d);
        if (std::abs(s1.norm() - r) > 1e-12) fail("support-not-on-surface", "Sphere", Vec3(d), s1, 0);
        for (int k = 0; k < 8; ++k) {
            Vec3 q1 = r * std::abs(U(rng)) * Vec3(ru()), q2(h[0] * U(rng), h[1] * U(rng), h[2] * U(rng));
            if (dot(q1, d) > dot(s1, d) + 1e-12) fail("support-not-max", "Sphere", Vec3(d), q1, 0);
            if (dot(q2, d) > dot(s2, d) + 1e-12) fail("support-not-max", "Brick", Vec3(d), q2, 0);
            Vec3 c; Real br; bx.getBoundingSphere(c, br); if ((q2 - c).norm() > br + 1e-12) fail("bounding-sphere-misses-point", "Brick", q2, c, br);
            sp.getBoundingSphere(c, br); if ((q1 - c).norm() > br + 1e-12) fail("bounding-sphere-misses-point", "Sphere", q1, c, br);
        }
        for (int k = 0; k < 3; ++k) if (std::abs(std::abs(s2[k]) - h[k]) > 0) fail("support-not-a-vertex", "Brick", Vec3(d), s2, 0);
    }
    std::printf("DONE %ld %d\n", nev, nfail);
}

int main() {
    std::string line;
    while (std::getline(std::cin, line)) {
        std::istringstream is(line); std::string k; is >> k; A.clear(); ai = 0;
        std::string t; while (is >> t) A.push_back(std::strtod(t.c_str(), 0));
        try {
            if (k == "SEARCH") { unsigned seed = (unsigned)nx(); int n = (int)nx(); search(seed, n); continue; }
            if (k == "HSN") nearest(ContactGeometry::HalfSpace(), nv());
            else if (k == "HSR") { Vec3 o = nv(), d = nv(); ray(ContactGeometry::HalfSpace(), o, d); }
            else if (k == "SPN") { Real r = nx(); nearest(ContactGeometry::Sphere(r), nv()); }
            else if (k == "SPR") { Real r = nx(); Vec3 o = nv(), d = nv(); ray(ContactGeometry::Sphere(r), o, d); }
            else if (k == "SPV") { Real r = nx(); valgrad(ContactGeometry::Sphere(r), nv()); }
            else if (k == "SPS") { Real r = nx(); support(ContactGeometry::Sphere(r), nv()); }
            else if (k == "SPB") { Real r = nx(); bsphere(ContactGeometry::Sphere(r)); }
            else if (k == "CYN") { Real r = nx(); nearest(ContactGeometry::Cylinder(r), nv()); }
            else if (k == "CYR") { Real r = nx(); Vec3 o = nv(), d = nv(); ray(ContactGeometry::Cylinder(r), o, d); }
            else if (k == "CYV") { Real r = nx(); valgrad(ContactGeometry::Cylinder(r), nv()); }
            else if (k == "BXS") { Vec3 h = nv(); support(ContactGeometry::Brick(h), nv()); }
            else if (k == "BXB") { Vec3 h = nv(); bsphere(ContactGeometry::Brick(h)); }
            else if (k == "BXN") { Vec3 h = nv(); nearest(ContactGeometry::Brick(h), nv()); }
            else if (k == "BXR") { Vec3 h = nv(); Vec3 o = nv(), d = nv(); ray(ContactGeometry::Brick(h), o, d); }
            else if (k == "ELN") { Vec3 r = nv(); nearest(ContactGeometry::Ellipsoid(r), nv()); }
            else std::printf("?unknown");
            std::printf("\n");
        } catch (const std::exception& e) { std::printf("!exception\n"); }
        std::fflush(stdout);
    }
    return 0;
}
