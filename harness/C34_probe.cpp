// C34 probe: surface queries of the analytic ContactGeometry shapes, one query per input line, results with %a.
//   HSN p[3]            -> point[3] inside normal[3]            (HalfSpace::findNearestPoint)
//   HSR o[3] d[3]       -> hit dist normal[3] dirUsed[3]        (intersectsRay; d is normalised here and echoed)
//   SPN r p[3] | SPR r o[3] d[3] | SPV r x[3] -> value grad[3] | SPS r d[3] -> support[3] dirUsed[3] | SPB r -> centre[3] radius
//   CYN r p[3] | CYR r o[3] d[3] | CYV r x[3]
//   BXS h[3] d[3] -> support[3] dirUsed[3] | BXB h[3] -> centre[3] radius | BXN h[3] p[3] | BXR h[3] o[3] d[3]   (the last two throw)
//   ELN a b c p[3] -> point[3] inside normal[3]                 (Ellipsoid::findNearestPoint, for the degenerate centre query)
//   EL nops {code r[3]}*nops kind args   ellipsoid as an OBJECT: op 0 = construct with radii r (first), 1 = setRadii(r), 2 = copy (r ignored);
//        then one query on the resulting object:  1 x[3] -> value grad[3] hessian[9] | 2 d[3] -> support[3] dirUsed[3] | 3 q[3] -> findPointInSameDirection[3]
//        | 4 q[3] -> findUnitNormalAtPoint[3] | 5 -> centre[3] radius | 6 -> getCurvatures[3] getRadii[3] | 7 i sign -> calcCurvature at sign*r_i e_i: kmax kmin zaxis[3]
//   ELSEARCH seed n -> implementation-only ellipsoid predicates after random construct / setRadii / copy sequences
//   SEARCH seed n  -> implementation-only predicates on n random queries per shape; prints FAIL lines and a DONE line
#include "Simbody.h"
#include <cstdio>
#include <cstdlib>
#include <string>
#include <sstream>
#include <iostream>
#include <vector>
#include <random>
using namespace SimTK;
static std::vector<double> A; static size_t ai;
static double nx() { if (ai >= A.size()) throw std::runtime_error("args"); return A[ai++]; }
static Vec3 nv() { Vec3 v; for (int i = 0; i < 3; ++i) v[i] = nx(); return v; }
static void pr(double x) { std::printf("%a ", x); }
static void pr(const Vec3& v) { for (int i = 0; i < 3; ++i) pr(v[i]); }
static void pr(const UnitVec3& v) { for (int i = 0; i < 3; ++i) pr(v[i]); }

static void nearest(const ContactGeometry& g, const Vec3& p) {
    bool inside = false; UnitVec3 n; Vec3 q = g.findNearestPoint(p, inside, n); pr(q); pr(inside ? 1.0 : 0.0); pr(n);
}
static void ray(const ContactGeometry& g, const Vec3& o, const Vec3& d) {
    UnitVec3 u(d); Real dist = NaN; UnitVec3 n; bool hit = g.intersectsRay(o, u, dist, n);
    pr(hit ? 1.0 : 0.0); if (hit) { pr(dist); pr(n); } else { pr(0.0); pr(Vec3(0)); } pr(u);
}
static void valgrad(const ContactGeometry& g, const Vec3& x) { pr(g.calcSurfaceValue(x)); pr(g.calcSurfaceGradient(x)); }
static void support(const ContactGeometry& g, const Vec3& d) { UnitVec3 u(d); pr(g.calcSupportPoint(u)); pr(u); }
static void bsphere(const ContactGeometry& g) { Vec3 c; Real r; g.getBoundingSphere(c, r); pr(c); pr(r); }


// ---- ellipsoid as an object
static void elQuery(ContactGeometry::Ellipsoid& e, int kind) {
    if (kind == 1) { Vec3 x = nv(); pr(e.calcSurfaceValue(x)); pr(e.calcSurfaceGradient(x)); Mat33 H = e.calcSurfaceHessian(x); for (int i = 0; i < 3; ++i) for (int j = 0; j < 3; ++j) pr(H(i, j)); }
    else if (kind == 2) { UnitVec3 u(nv()); pr(e.calcSupportPoint(u)); pr(u); }
    else if (kind == 3) pr(e.findPointInSameDirection(nv()));
    else if (kind == 4) pr(Vec3(e.findUnitNormalAtPoint(nv())));
    else if (kind == 5) { Vec3 c; Real r; e.getBoundingSphere(c, r); pr(c); pr(r); }
    else if (kind == 6) { pr(e.getCurvatures()); pr(e.getRadii()); }
    else if (kind == 7) { const int i = (int)nx(); const Real sg = nx(); Vec3 Q(0); Q[i] = sg * e.getRadii()[i]; Vec2 k; Rotation R; e.calcCurvature(Q, k, R); pr(k[0]); pr(k[1]); pr(Vec3(R.z())); }
}
static void runELobj() {
    const int nops = (int)nx();
    std::vector<ContactGeometry::Ellipsoid*> objs;      // every object stays alive; copies are new objects
    ContactGeometry::Ellipsoid* cur = 0;
    for (int k = 0; k < nops; ++k) {
        const int code = (int)nx(); const Vec3 r = nv();
        if (code == 0) cur = new ContactGeometry::Ellipsoid(r);
        else if (code == 1) cur->setRadii(r);
        else cur = new ContactGeometry::Ellipsoid(*cur);
        objs.push_back(cur);
    }
    const int kind = (int)nx(); elQuery(*cur, kind);
    for (size_t i = 0; i < objs.size(); ++i) if (i == 0 || objs[i] != objs[i - 1]) delete objs[i];
}
static void elsearch(unsigned seed, int n) {
    std::mt19937_64 rng(seed); std::uniform_real_distribution<double> U(-1, 1);
    auto rr = [&]() { return Vec3(0.3 + 2.2 * std::abs(U(rng)), 0.3 + 2.2 * std::abs(U(rng)), 0.3 + 2.2 * std::abs(U(rng))); };
    auto rv = [&](double s) { return Vec3(s * U(rng), s * U(rng), s * U(rng)); };
    auto ru = [&]() { Vec3 v; do v = rv(1); while (v.norm() < 0.2 || v.norm() > 1); return UnitVec3(v); };
    long ev = 0; int nf = 0;
    auto fl = [&](const char* what, const char* hist, const Vec3& r, double got, double want) {
        if (nf < 5) std::printf("FAIL Ellipsoid:%s after %s radii=%.17g,%.17g,%.17g got=%.17g expected=%.17g\n", what, hist, r[0], r[1], r[2], got, want); ++nf; };
    for (int it = 0; it < n; ++it) {
        ContactGeometry::Ellipsoid* e = new ContactGeometry::Ellipsoid(rr()); std::string hist = "construct";
        const int nops = it % 4;            // 0: fresh, 1..3 further operations
        for (int k = 0; k < nops; ++k) {
            if ((it / 4 + k) % 3 != 2) { e->setRadii(rr()); hist += ",setRadii"; }
            else { ContactGeometry::Ellipsoid* c = new ContactGeometry::Ellipsoid(*e); delete e; e = c; hist += ",copy"; }
        }
        const Vec3 r = e->getRadii(); const char* h = hist.c_str(); ++ev;
        // cache = reciprocal radii
        for (int i = 0; i < 3; ++i) if (std::abs(e->getCurvatures()[i] * r[i] - 1) > 1e-12) fl("getCurvatures-not-reciprocal-radii", h, r, e->getCurvatures()[i], 1 / r[i]);
        // point in direction lies on the surface
        Vec3 q = rv(2); if (q.norm() < 0.05) q = Vec3(0.3, 0.1, 0);
        Vec3 p = e->findPointInSameDirection(q);
        if (std::abs(e->calcSurfaceValue(p)) > 1e-9) fl("findPointInSameDirection-not-on-surface", h, r, e->calcSurfaceValue(p), 0);
        // unit normal parallel to -gradient, and the support point in direction d has normal d
        Vec3 g = e->calcSurfaceGradient(p); UnitVec3 nrm = e->findUnitNormalAtPoint(p);
        if ((Vec3(nrm) + g / g.norm()).norm() > 1e-9) fl("unit-normal-not-parallel-to-gradient", h, r, (Vec3(nrm) + g / g.norm()).norm(), 0);
        UnitVec3 d = ru(); Vec3 sp = e->calcSupportPoint(d);
        if (std::abs(e->calcSurfaceValue(sp)) > 1e-9) fl("support-not-on-surface", h, r, e->calcSurfaceValue(sp), 0);
        if ((Vec3(e->findUnitNormalAtPoint(sp)) - Vec3(d)).norm() > 1e-9) fl("normal-at-support-point-is-not-the-direction", h, r, (Vec3(e->findUnitNormalAtPoint(sp)) - Vec3(d)).norm(), 0);
        for (int k = 0; k < 6; ++k) { Vec3 s2 = e->findPointInSameDirection(Vec3(ru())); s2 = e->calcSurfaceValue(s2) > -1e-9 && std::abs(e->calcSurfaceValue(s2)) < 1e-9 ? s2 : Vec3(r[0] * ru()[0], 0, 0);
            if (dot(s2, d) > dot(sp, d) + 1e-9) fl("support-not-max", h, r, dot(s2, d), dot(sp, d)); }
        // gradient and Hessian by finite differences
        Vec3 x = rv(1.5), dd = Vec3(ru()); const Real eps = 1e-6;
        Real fd = (e->calcSurfaceValue(x + eps * dd) - e->calcSurfaceValue(x - eps * dd)) / (2 * eps);
        if (std::abs(fd - dot(e->calcSurfaceGradient(x), dd)) > 1e-6) fl("gradient-not-derivative", h, r, fd, dot(e->calcSurfaceGradient(x), dd));
        Vec3 gd = (e->calcSurfaceGradient(x + eps * dd) - e->calcSurfaceGradient(x - eps * dd)) / (2 * eps);
        if ((gd - e->calcSurfaceHessian(x) * dd).norm() > 1e-6) fl("hessian-not-derivative-of-gradient", h, r, (gd - e->calcSurfaceHessian(x) * dd).norm(), 0);
        // principal curvatures at an axis point: r_i / r_j^2, frame z = outward normal
        const int i = it % 3, j = (i + 1) % 3, l = (i + 2) % 3; Vec3 Q(0); Q[i] = ((it / 3) % 2 ? -1 : 1) * r[i]; Vec2 kk; Rotation R; e->calcCurvature(Q, kk, R);
        const Real k1 = r[i] / (r[j] * r[j]), k2 = r[i] / (r[l] * r[l]);
        if (std::abs(kk[0] - std::max(k1, k2)) > 1e-9 * (1 + std::max(k1, k2))) fl("kmax-at-axis-point", h, r, kk[0], std::max(k1, k2));
        if (std::abs(kk[1] - std::min(k1, k2)) > 1e-9 * (1 + std::max(k1, k2))) fl("kmin-at-axis-point", h, r, kk[1], std::min(k1, k2));
        if ((Vec3(R.z()) - Q / Q.norm()).norm() > 1e-9) fl("curvature-frame-z-not-normal", h, r, (Vec3(R.z()) - Q / Q.norm()).norm(), 0);
        // bounding sphere contains sampled surface points
        Vec3 c; Real br; e->getBoundingSphere(c, br); if ((sp - c).norm() > br + 1e-12 || (p - c).norm() > br + 1e-12) fl("bounding-sphere-misses-point", h, r, (sp - c).norm(), br);
        delete e;
    }
    std::printf("DONE %ld %d\n", ev, nf);
}

// ---- implementation-only predicates
static int nfail = 0; static long nev = 0;
static void fail(const char* what, const char* shape, const Vec3& a, const Vec3& b, double x) {
    if (nfail < 5) std::printf("FAIL %s:%s a=%.17g,%.17g,%.17g b=%.17g,%.17g,%.17g x=%.17g\n", shape, what, a[0], a[1], a[2], b[0], b[1], b[2], x);
    ++nfail;
}
static void search(unsigned seed, int n) {
    std::mt19937_64 rng(seed); std::uniform_real_distribution<double> U(-1, 1);
    auto rv = [&](double s) { return Vec3(s * U(rng), s * U(rng), s * U(rng)); };
    auto ru = [&]() { Vec3 v; do v = rv(1); while (v.norm() < 0.2 || v.norm() > 1); return UnitVec3(v); };
    for (int it = 0; it < n; ++it) {
        const Real r = 0.2 + 1.3 * std::abs(U(rng));
        ContactGeometry::Sphere sp(r); ContactGeometry::Cylinder cy(r); ContactGeometry::HalfSpace hs;
        Vec3 h(0.2 + std::abs(U(rng)), 0.2 + std::abs(U(rng)), 0.2 + std::abs(U(rng))); ContactGeometry::Brick bx(h);
        // nearest point: on the surface, flag = sign of f, unit normal, no sampled surface point closer
        Vec3 p = rv(2.5); if (p.norm() < 1e-3) p = Vec3(0.3, 0, 0);
        for (int sh = 0; sh < 3; ++sh) {
            const ContactGeometry& g = sh == 0 ? (const ContactGeometry&)sp : sh == 1 ? (const ContactGeometry&)cy : (const ContactGeometry&)hs;
            const char* nm = sh == 0 ? "Sphere" : sh == 1 ? "Cylinder" : "HalfSpace";
            if (sh == 1 && Vec2(p[0], p[1]).norm() < 1e-3) continue;
            bool inside; UnitVec3 nrm; Vec3 q = g.findNearestPoint(p, inside, nrm); ++nev;
            Real fq = sh == 2 ? q[0] : g.calcSurfaceValue(q), fp = sh == 2 ? p[0] : g.calcSurfaceValue(p);
            if (std::abs(fq) > 1e-9 * (1 + r * r)) fail("nearest-not-on-surface", nm, p, q, fq);
            if (inside != (fp >= 0) && std::abs(fp) > 1e-9) fail("inside-flag-not-sign-of-f", nm, p, q, fp);
            if (std::abs(nrm.norm() - 1) > 1e-12) fail("normal-not-unit", nm, p, q, nrm.norm());
            for (int k = 0; k < 8; ++k) {   // other surface points
                Vec3 s;
                if (sh == 0) s = r * Vec3(ru());
                else if (sh == 1) { Real a = Pi * U(rng); s = Vec3(r * std::cos(a), r * std::sin(a), p[2] + U(rng)); }
                else s = Vec3(0, p[1] + U(rng), p[2] + U(rng));
                if ((p - s).norm() < (p - q).norm() - 1e-9) fail("nearest-not-closest", nm, p, s, (p - q).norm() - (p - s).norm());
            }
            // outward normal = -grad/|grad| (sphere, cylinder)
            if (sh < 2) { Vec3 gr = g.calcSurfaceGradient(q); if ((Vec3(nrm) + gr / gr.norm()).norm() > 1e-9) fail("normal-not-minus-unit-gradient", nm, p, q, 0);
                // gradient is the derivative of f
                Vec3 x = rv(1.5), d = Vec3(ru()); Real e = 1e-6;
                Real fd = (g.calcSurfaceValue(x + e * d) - g.calcSurfaceValue(x - e * d)) / (2 * e);
                if (std::abs(fd - dot(g.calcSurfaceGradient(x), d)) > 1e-6) fail("gradient-not-derivative", nm, x, d, fd); }
            // ray: reported hit lies on the surface, no earlier crossing (sign change of f sampled along the ray)
            Vec3 o = rv(2.5); UnitVec3 d = ru(); Real dist; UnitVec3 hn; ++nev;
            if (sh == 1 && Vec2(d[0], d[1]).norm() < 1e-2) continue;
            auto f = [&](const Vec3& y) { return sh == 2 ? y[0] : g.calcSurfaceValue(y); };
            bool hit = g.intersectsRay(o, d, dist, hn);
            Real smax = hit ? dist : 12.0; int crossings = 0; Real prev = f(o);
            for (int k = 1; k <= 400; ++k) { Real s = smax * k / 400.0 * (hit ? 0.999 : 1.0); Real cur = f(o + s * d); if ((prev > 0) != (cur > 0) && std::abs(prev) > 1e-9 && std::abs(cur) > 1e-9) ++crossings; prev = cur; }
            if (hit && (dist < 0 || std::abs(f(o + dist * d)) > 1e-8 * (1 + dist * dist))) fail("ray-hit-not-on-surface", nm, o, Vec3(d), dist);
            if (crossings > 0 && std::abs(f(o)) > 1e-6) fail(hit ? "ray-hit-not-first" : "ray-missed-a-crossing", nm, o, Vec3(d), hit ? dist : -1);
        }
        // support points: on the shape, no sampled point of the shape further along d
        UnitVec3 d = ru(); ++nev;
        Vec3 s1 = sp.calcSupportPoint(d), s2 = bx.calcSupportPoint(d);
        if (std::abs(s1.norm() - r) > 1e-12) fail("support-not-on-surface", "Sphere", Vec3(d), s1, 0);
        for (int k = 0; k < 8; ++k) {
            Vec3 q1 = r * std::abs(U(rng)) * Vec3(ru()), q2(h[0] * U(rng), h[1] * U(rng), h[2] * U(rng));
            if (dot(q1, d) > dot(s1, d) + 1e-12) fail("support-not-max", "Sphere", Vec3(d), q1, 0);
            if (dot(q2, d) > dot(s2, d) + 1e-12) fail("support-not-max", "Brick", Vec3(d), q2, 0);
            Vec3 c; Real br; bx.getBoundingSphere(c, br); if ((q2 - c).norm() > br + 1e-12) fail("bounding-sphere-misses-point", "Brick", q2, c, br);
            sp.getBoundingSphere(c, br); if ((q1 - c).norm() > br + 1e-12) fail("bounding-sphere-misses-point", "Sphere", q1, c, br);
        }
        for (int k = 0; k < 3; ++k) if (std::abs(std::abs(s2[k]) - h[k]) > 0) fail("support-not-a-vertex", "Brick", Vec3(d), s2, 0);
    }
    std::printf("DONE %ld %d\n", nev, nfail);
}

int main() {
    std::string line;
    while (std::getline(std::cin, line)) {
        std::istringstream is(line); std::string k; is >> k; A.clear(); ai = 0;
        std::string t; while (is >> t) A.push_back(std::strtod(t.c_str(), 0));
        try {
            if (k == "ELSEARCH") { unsigned seed = (unsigned)nx(); int n = (int)nx(); elsearch(seed, n); continue; }
            if (k == "EL") { runELobj(); std::printf("\n"); continue; }
            if (k == "SEARCH") { unsigned seed = (unsigned)nx(); int n = (int)nx(); search(seed, n); continue; }
            if (k == "HSN") nearest(ContactGeometry::HalfSpace(), nv());
            else if (k == "HSR") { Vec3 o = nv(), d = nv(); ray(ContactGeometry::HalfSpace(), o, d); }
            else if (k == "SPN") { Real r = nx(); nearest(ContactGeometry::Sphere(r), nv()); }
            else if (k == "SPR") { Real r = nx(); Vec3 o = nv(), d = nv(); ray(ContactGeometry::Sphere(r), o, d); }
            else if (k == "SPV") { Real r = nx(); valgrad(ContactGeometry::Sphere(r), nv()); }
            else if (k == "SPS") { Real r = nx(); support(ContactGeometry::Sphere(r), nv()); }
            else if (k == "SPB") { Real r = nx(); bsphere(ContactGeometry::Sphere(r)); }
            else if (k == "CYN") { Real r = nx(); nearest(ContactGeometry::Cylinder(r), nv()); }
            else if (k == "CYR") { Real r = nx(); Vec3 o = nv(), d = nv(); ray(ContactGeometry::Cylinder(r), o, d); }
            else if (k == "CYV") { Real r = nx(); valgrad(ContactGeometry::Cylinder(r), nv()); }
            else if (k == "BXS") { Vec3 h = nv(); support(ContactGeometry::Brick(h), nv()); }
            else if (k == "BXB") { Vec3 h = nv(); bsphere(ContactGeometry::Brick(h)); }
            else if (k == "BXN") { Vec3 h = nv(); nearest(ContactGeometry::Brick(h), nv()); }
            else if (k == "BXR") { Vec3 h = nv(); Vec3 o = nv(), d = nv(); ray(ContactGeometry::Brick(h), o, d); }
            else if (k == "ELN") { Vec3 r = nv(); nearest(ContactGeometry::Ellipsoid(r), nv()); }
            else std::printf("?unknown");
            std::printf("\n");
        } catch (const std::exception& e) { std::printf("!exception\n"); }
        std::fflush(stdout);
    }
    return 0;
}
