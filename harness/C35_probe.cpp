// C35 probe: sphere/sphere and half-space/sphere collision detection, one case per input line, results with %a.
//   AS p1[3] r1 p2[3] r2            CollisionDetectionAlgorithm::SphereSphere::processObjects (sphere frames rotated arbitrarily)
//   AH ang[3] p1[3] p2[3] r         CollisionDetectionAlgorithm::HalfSpaceSphere::processObjects   (X1 = rot(ang), p1)
//        -> n {surf1 surf2 depth normal[3] location[3] radius}   and the rotation used (9) for AH
//   GS order ang[3] p1[3] p2[3] r   the same pair through GeneralContactSubsystem; order 0: half space added first, 1: sphere first
//        -> n {surf1 surf2 depth normal[3] location[3] radius} rotation[9]
//   TS ang[3] p1[3] r1 p2[3] r2 cutoff   ContactTracker::SphereSphere::trackContact (untracked prior), sphere-1 frame rot(ang)
//   TH ang[3] p1[3] p2[3] r cutoff       ContactTracker::HalfSpaceSphere::trackContact
//        -> ok kind(0 none,1 circular point) depth normal[3] origin[3] radius  rotation[9]
//   CC order kind2 r1[3] r2[3] c1[3] axis t phi offs[3] useQ Qang[3] tq[3]
//        convex-convex detector through GeneralContactSubsystem: A = Ellipsoid(r1) at c1 (axis-aligned), B = Ellipsoid(r2) (kind2 0) or
//        Sphere(r2[0]) (kind2 1) rotated by phi about the common axis, centred at c1 + t e_axis + offs; order 1 adds B before A;
//        useQ 1 moves both by the rigid motion (rot(Qang), tq).   -> n {surf1 surf2 depth normal[3] location[3] radius} Q[9]
//   TB useQ Qang[3] tq[3] nb {ang[3] p[3]}*nb nsurf {body shape par[3] offC[3] placeAng[3] placeP[3]}*nsurf
//        ContactTrackerSubsystem scene: nb Free bodies (body 0 = Ground), surfaces placed on their bodies with ROTATED and translated X_BS;
//        shape 0 Sphere(par0) 1 Ellipsoid(par) 2 cube mesh (half lengths par) with its vertices shifted by offC (bounding sphere off the
//        origin) 3 sphere mesh (radius par0) shifted by offC 4 HalfSpace 5 Brick(par); useQ 1 moves every body by (rot(Qang), tq).
//        -> nsurf {body X_GB[12] X_BS[12] bsCentre[3] bsRadius} | nbrute {i j kind value} | nactive {i j kind value}
//           brute = the registered tracker called directly on EVERY pair of surfaces on different bodies, exactly as the subsystem
//           calls it (value: depth of a point contact / number of faces of a mesh contact); active = getActiveContacts
//   HM kind rotFaces hsAng[3] hsP[3] mAng[3] mP[3] data[12]     ContactTracker::HalfSpaceTriangleMesh called directly on a mesh whose
//        faces list their vertices in a rotated order (face f is rotated by (f + rotFaces) mod 3): kind 0 tetrahedron with the 4 vertices
//        data[12], 1 brick mesh (half lengths data[0..2]) shifted by data[3..5], 2 sphere mesh radius data[0] shifted by data[3..5]
//        -> ok nReported nBrute nMissing nExtra margin     brute = faces with a vertex strictly inside the half space (x_H > 0),
//           margin = smallest |x_H| over the vertices
//   SEARCH seed n                   implementation-only predicates (contact iff overlap, formulas, swap, rigid motion)
#include "Simbody.h"
#include <cstdio>
#include <cstdlib>
#include <string>
#include <sstream>
#include <iostream>
#include <vector>
#include <random>
using namespace SimTK;
static std::vector<double> A; static size_t ai;
static double nx() { if (ai >= A.size()) throw std::runtime_error("args"); return A[ai++]; }
static Vec3 nv() { Vec3 v; for (int i = 0; i < 3; ++i) v[i] = nx(); return v; }
static Rotation rot(const Vec3& a) { return Rotation(BodyRotationSequence, a[0], XAxis, a[1], YAxis, a[2], ZAxis); }
static void pr(double x) { std::printf("%a ", x); }
static void pr(const Vec3& v) { for (int i = 0; i < 3; ++i) pr(v[i]); }
static void pr(const Rotation& R) { for (int i = 0; i < 3; ++i) for (int j = 0; j < 3; ++j) pr(R[i][j]); }
static void prContacts(const Array_<Contact>& cs) {
    pr((double)cs.size());
    for (int i = 0; i < (int)cs.size(); ++i) {
        const PointContact& c = static_cast<const PointContact&>(cs[i]);
        pr((double)(int)c.getSurface1()); pr((double)(int)c.getSurface2()); pr(c.getDepth()); pr(c.getNormal()); pr(c.getLocation()); pr(c.getEffectiveRadiusOfCurvature());
    }
}
static Array_<Contact> algSS(const Vec3& p1, Real r1, const Vec3& p2, Real r2, const Rotation& R1 = Rotation(), const Rotation& R2 = Rotation()) {
    Array_<Contact> cs; CollisionDetectionAlgorithm::SphereSphere alg;
    alg.processObjects(ContactSurfaceIndex(0), ContactGeometry::Sphere(r1), Transform(R1, p1), ContactSurfaceIndex(1), ContactGeometry::Sphere(r2), Transform(R2, p2), cs);
    return cs;
}
static Array_<Contact> algHS(const Transform& X1, const Vec3& p2, Real r, const Rotation& R2 = Rotation()) {
    Array_<Contact> cs; CollisionDetectionAlgorithm::HalfSpaceSphere alg;
    alg.processObjects(ContactSurfaceIndex(0), ContactGeometry::HalfSpace(), X1, ContactSurfaceIndex(1), ContactGeometry::Sphere(r), Transform(R2, p2), cs);
    return cs;
}
static void prTracked(bool ok, const Contact& cur) {
    pr(ok ? 1.0 : 0.0);
    if (ok && !cur.isEmpty() && CircularPointContact::isInstance(cur)) { const CircularPointContact& c = CircularPointContact::getAs(cur);
        pr(1.0); pr(c.getDepth()); pr(Vec3(c.getNormal())); pr(c.getOrigin()); pr(c.getEffectiveRadius()); }
    else { pr(0.0); for (int k = 0; k < 8; ++k) pr(0.0); }
}

static int nfail = 0; static long nev = 0;
static void fail(const char* what, const Vec3& a, const Vec3& b, double x, double y) {
    if (nfail < 5) std::printf("FAIL %s a=%.17g,%.17g,%.17g b=%.17g,%.17g,%.17g x=%.17g y=%.17g\n", what, a[0], a[1], a[2], b[0], b[1], b[2], x, y);
    ++nfail;
}
static void search(unsigned seed, int n) {
    std::mt19937_64 rng(seed); std::uniform_real_distribution<double> U(-1, 1);
    auto rv = [&](double s) { return Vec3(s * U(rng), s * U(rng), s * U(rng)); };
    for (int it = 0; it < n; ++it) {
        const Real r1 = 0.2 + std::abs(U(rng)), r2 = 0.2 + std::abs(U(rng));
        const Vec3 p1 = rv(1); Vec3 dir = rv(1); if (dir.norm() < 0.1) dir = Vec3(1, 0, 0); dir = dir / dir.norm();
        const Real gap = (it % 3 == 0) ? 1e-7 * U(rng) : 0.6 * U(rng);           // > 0 separated, < 0 overlapping
        const Real d = r1 + r2 + gap; const Vec3 p2 = p1 + d * dir;
        const Rotation Q = rot(rv(3)); const Vec3 t = rv(2);
        // sphere / sphere
        Array_<Contact> c = algSS(p1, r1, p2, r2, rot(rv(3)), rot(rv(3))), cs = algSS(p2, r2, p1, r1), cm = algSS(Q * p1 + t, r1, Q * p2 + t, r2); ++nev;
        const bool overlap = (p2 - p1).norm() < r1 + r2;
        if (std::abs(gap) > 1e-12 && (c.size() == 1) != overlap) fail("SphereSphere:contact-iff-overlap", p1, p2, r1, r2);
        if (c.size() != cs.size() || c.size() != cm.size()) { if (std::abs(gap) > 1e-12) fail("SphereSphere:swap-or-motion-changes-detection", p1, p2, r1, r2); }
        else if (c.size() == 1) {
            const PointContact& a = static_cast<const PointContact&>(c[0]); const PointContact& b = static_cast<const PointContact&>(cs[0]); const PointContact& m = static_cast<const PointContact&>(cm[0]);
            const Real tol = 1e-12 * (1 + d);
            if (std::abs(a.getDepth() - (r1 + r2 - (p2 - p1).norm())) > tol) fail("SphereSphere:depth", p1, p2, a.getDepth(), r1 + r2 - (p2 - p1).norm());
            if ((a.getNormal() - (p2 - p1) / (p2 - p1).norm()).norm() > 1e-9) fail("SphereSphere:normal", p1, p2, 0, 0);
            if ((a.getLocation() - (p1 + (r1 - a.getDepth() / 2) * a.getNormal())).norm() > 1e-9) fail("SphereSphere:location", p1, p2, 0, 0);
            if (std::abs(b.getDepth() - a.getDepth()) > tol || (b.getNormal() + a.getNormal()).norm() > 1e-9 || (b.getLocation() - a.getLocation()).norm() > 1e-9
                || std::abs(b.getEffectiveRadiusOfCurvature() - a.getEffectiveRadiusOfCurvature()) > tol) fail("SphereSphere:swap-symmetry", p1, p2, r1, r2);
            if (std::abs(m.getDepth() - a.getDepth()) > 1e-9 || (m.getNormal() - Q * a.getNormal()).norm() > 1e-9 || (m.getLocation() - (Q * a.getLocation() + t)).norm() > 1e-9)
                fail("SphereSphere:rigid-motion-invariance", p1, p2, r1, r2);
        }
        // half space / sphere
        const Transform X1(rot(rv(3)), rv(1)); const Vec3 u = X1.R() * Vec3(1, 0, 0);
        const Real h = (it % 3 == 0) ? 1e-7 * U(rng) : 0.8 * U(rng);               // depth
        const Vec3 cc = X1.p() + (h - r1) * u + X1.R() * Vec3(0, U(rng), U(rng));
        Array_<Contact> hc = algHS(X1, cc, r1, rot(rv(3))), hm = algHS(Transform(Q * X1.R(), Q * X1.p() + t), Q * cc + t, r1); ++nev;
        const Real depth = r1 + dot(u, cc - X1.p());
        if (std::abs(h) > 1e-12 && (hc.size() == 1) != (depth > 0)) fail("HalfSpaceSphere:contact-iff-overlap", cc, X1.p(), depth, r1);
        if (hc.size() != hm.size()) { if (std::abs(h) > 1e-12) fail("HalfSpaceSphere:motion-changes-detection", cc, X1.p(), depth, r1); }
        else if (hc.size() == 1) {
            const PointContact& a = static_cast<const PointContact&>(hc[0]); const PointContact& m = static_cast<const PointContact&>(hm[0]);
            if (std::abs(a.getDepth() - depth) > 1e-12 * (1 + std::abs(depth))) fail("HalfSpaceSphere:depth", cc, X1.p(), a.getDepth(), depth);
            if ((a.getNormal() + u).norm() > 1e-12) fail("HalfSpaceSphere:normal", cc, X1.p(), 0, 0);
            if ((a.getLocation() - (cc + (r1 - depth / 2) * u)).norm() > 1e-9) fail("HalfSpaceSphere:location", cc, X1.p(), 0, 0);
            if (std::abs(m.getDepth() - a.getDepth()) > 1e-9 || (m.getNormal() - Q * a.getNormal()).norm() > 1e-9 || (m.getLocation() - (Q * a.getLocation() + t)).norm() > 1e-9)
                fail("HalfSpaceSphere:rigid-motion-invariance", cc, X1.p(), depth, r1);
        }
    }
    std::printf("DONE %ld %d\n", nev, nfail);
}

int main() {
    std::string line;
    while (std::getline(std::cin, line)) {
        std::istringstream is(line); std::string k; is >> k; A.clear(); ai = 0;
        std::string t; while (is >> t) A.push_back(std::strtod(t.c_str(), 0));
        try {
            if (k == "SEARCH") { unsigned seed = (unsigned)nx(); int n = (int)nx(); search(seed, n); continue; }
            if (k == "AS") { Vec3 p1 = nv(); Real r1 = nx(); Vec3 p2 = nv(); Real r2 = nx(); prContacts(algSS(p1, r1, p2, r2)); }
            else if (k == "AH") { Rotation R = rot(nv()); Vec3 p1 = nv(), p2 = nv(); Real r = nx(); prContacts(algHS(Transform(R, p1), p2, r)); pr(R); }
            else if (k == "GS") {
                const int order = (int)nx(); Rotation R = rot(nv()); Vec3 p1 = nv(), p2 = nv(); Real r = nx();
                // (GeneralContactSubsystem skips pairs on the same body, so the sphere sits on a body welded to Ground)
                MultibodySystem sys2; SimbodyMatterSubsystem m2(sys2); GeneralContactSubsystem c2(sys2); ContactSetIndex s2 = c2.createContactSet();
                Body::Rigid body(MassProperties(1.0, Vec3(0), Inertia(1)));
                MobilizedBody::Weld w(m2.updGround(), Transform(), body, Transform());
                if (order == 0) { c2.addBody(s2, m2.updGround(), ContactGeometry::HalfSpace(), Transform(R, p1)); c2.addBody(s2, w, ContactGeometry::Sphere(r), Transform(p2)); }
                else { c2.addBody(s2, w, ContactGeometry::Sphere(r), Transform(p2)); c2.addBody(s2, m2.updGround(), ContactGeometry::HalfSpace(), Transform(R, p1)); }
                State st = sys2.realizeTopology(); sys2.realize(st, Stage::Dynamics);
                prContacts(c2.getContacts(st, s2)); pr(R);
            }
            else if (k == "CC") {
                const int order = (int)nx(); const int kind2 = (int)nx(); Vec3 r1 = nv(), r2 = nv(), c1 = nv(); const int axis = (int)nx(); const Real t = nx(), phi = nx();
                Vec3 offs = nv(); const bool useQ = nx() != 0; Vec3 qa = nv(), tq = nv();
                Vec3 e(0); e[axis] = 1; Transform TA(c1), TB(Rotation(phi, CoordinateAxis(axis)), c1 + t * e + offs);
                Transform X; if (useQ) { X = Transform(rot(qa), tq); TA = X * TA; TB = X * TB; }
                MultibodySystem sys; SimbodyMatterSubsystem m(sys); GeneralContactSubsystem c(sys); ContactSetIndex set = c.createContactSet();
                Body::Rigid body(MassProperties(1.0, Vec3(0), Inertia(1)));
                MobilizedBody::Weld w(m.updGround(), Transform(), body, Transform());
                ContactGeometry gB = kind2 == 0 ? (ContactGeometry)ContactGeometry::Ellipsoid(r2) : (ContactGeometry)ContactGeometry::Sphere(r2[0]);
                if (order == 0) { c.addBody(set, m.updGround(), ContactGeometry::Ellipsoid(r1), TA); c.addBody(set, w, gB, TB); }
                else { c.addBody(set, w, gB, TB); c.addBody(set, m.updGround(), ContactGeometry::Ellipsoid(r1), TA); }
                State st = sys.realizeTopology(); sys.realize(st, Stage::Dynamics);
                prContacts(c.getContacts(st, set)); pr(X.R());
            }
            else if (k == "TB") {
                const bool useQ = nx() != 0; Vec3 qa = nv(), tq = nv(); Transform XQ = useQ ? Transform(rot(qa), tq) : Transform();
                const int nb = (int)nx(); std::vector<Transform> pose(nb + 1); for (int b = 1; b <= nb; ++b) { Vec3 a = nv(), pp = nv(); pose[b] = XQ * Transform(rot(a), pp); }
                const int nsurf = (int)nx();
                MultibodySystem sys; SimbodyMatterSubsystem matter(sys); ContactTrackerSubsystem tracker(sys);
                std::vector<Body::Rigid> bodies(nb + 1, Body::Rigid(MassProperties(1.0, Vec3(0), Inertia(1))));
                const ContactMaterial mat(1e4, 0.1, 0, 0, 0);
                for (int i = 0; i < nsurf; ++i) {
                    const int b = (int)nx(), shape = (int)nx(); Vec3 par = nv(), offC = nv(), pa = nv(), ppos = nv(); Transform X_BS(rot(pa), ppos);
                    ContactGeometry g = ContactGeometry::Sphere(par[0]);
                    if (shape == 1) g = ContactGeometry::Ellipsoid(par);
                    else if (shape == 2) { PolygonalMesh m = PolygonalMesh::createBrickMesh(par, 1); m.transformMesh(Transform(offC)); g = ContactGeometry::TriangleMesh(m); }
                    else if (shape == 3) { PolygonalMesh m = PolygonalMesh::createSphereMesh(par[0], 1); m.transformMesh(Transform(offC)); g = ContactGeometry::TriangleMesh(m); }
                    else if (shape == 4) g = ContactGeometry::HalfSpace();
                    else if (shape == 5) g = ContactGeometry::Brick(par);
                    if (b == 0) matter.updGround().updBody().addContactSurface(X_BS, ContactSurface(g, mat));
                    else bodies[b].addContactSurface(X_BS, ContactSurface(g, mat));
                }
                std::vector<MobilizedBody> mb(nb + 1); mb[0] = matter.updGround();
                for (int b = 1; b <= nb; ++b) mb[b] = MobilizedBody::Free(matter.updGround(), Transform(), bodies[b], Transform());
                State st = sys.realizeTopology();
                for (int b = 1; b <= nb; ++b) mb[b].setQToFitTransform(st, pose[b]);
                sys.realize(st, Stage::Position);
                const int ns = tracker.getNumSurfaces(); pr((double)ns);
                std::vector<Transform> XGS(ns);
                for (ContactSurfaceIndex i(0); i < ns; ++i) {
                    const MobilizedBody& m = tracker.getMobilizedBody(i); const Transform& XBS = tracker.getContactSurfaceTransform(i);
                    Vec3 c; Real r; tracker.getContactSurface(i).getShape().getBoundingSphere(c, r);
                    pr((double)(int)m.getMobilizedBodyIndex()); pr(m.getBodyRotation(st)); pr(m.getBodyOriginLocation(st)); pr(XBS.R()); pr(XBS.p()); pr(c); pr(r);
                    XGS[i] = m.getBodyTransform(st) * XBS;
                }
                std::printf("| ");
                auto value = [](const Contact& c) -> std::pair<double,double> {
                    if (CircularPointContact::isInstance(c)) return std::make_pair(1.0, CircularPointContact::getAs(c).getDepth());
                    if (EllipticalPointContact::isInstance(c)) return std::make_pair(2.0, EllipticalPointContact::getAs(c).getDepth());
                    if (TriangleMeshContact::isInstance(c)) { const TriangleMeshContact& t = TriangleMeshContact::getAs(c); return std::make_pair(3.0, (double)(t.getSurface1Faces().size() + t.getSurface2Faces().size())); }
                    if (BrickHalfSpaceContact::isInstance(c)) return std::make_pair(4.0, BrickHalfSpaceContact::getAs(c).getDepth());
                    return std::make_pair(9.0, 0.0); };
                std::vector<double> brute;
                for (ContactSurfaceIndex i(0); i < ns; ++i) for (ContactSurfaceIndex j(i + 1); j < ns; ++j) {
                    if (tracker.getMobilizedBody(i).getMobilizedBodyIndex() == tracker.getMobilizedBody(j).getMobilizedBodyIndex()) continue;
                    const ContactGeometry& g1 = tracker.getContactSurface(i).getShape(); const ContactGeometry& g2 = tracker.getContactSurface(j).getShape();
                    if (!tracker.hasContactTracker(g1.getTypeId(), g2.getTypeId())) continue;
                    bool rev; const ContactTracker& tr = tracker.getContactTracker(g1.getTypeId(), g2.getTypeId(), rev);
                    UntrackedContact prior(rev ? j : i, rev ? i : j); Contact next;
                    if (rev) tr.trackContact(prior, XGS[j], g2, XGS[i], g1, 0, next); else tr.trackContact(prior, XGS[i], g1, XGS[j], g2, 0, next);
                    if (!next.isEmpty()) { std::pair<double,double> v = value(next); brute.push_back((double)(int)i); brute.push_back((double)(int)j); brute.push_back(v.first); brute.push_back(v.second); }
                }
                pr((double)(brute.size() / 4)); for (size_t q = 0; q < brute.size(); ++q) pr(brute[q]);
                std::printf("| ");
                const ContactSnapshot& act = tracker.getActiveContacts(st); pr((double)act.getNumContacts());
                for (int q = 0; q < act.getNumContacts(); ++q) { const Contact& c = act.getContact(q); int a = (int)c.getSurface1(), b = (int)c.getSurface2(); if (a > b) std::swap(a, b);
                    std::pair<double,double> v = value(c); pr((double)a); pr((double)b); pr(v.first); pr(v.second); }
            }
            else if (k == "HM") {
                const int kind = (int)nx(), rotF = (int)nx(); Rotation RH = rot(nv()); Vec3 pH = nv(); Rotation RM = rot(nv()); Vec3 pM = nv();
                double dta[12]; for (int q = 0; q < 12; ++q) dta[q] = nx();
                Array_<Vec3> verts; Array_<int> faces;
                if (kind == 0) { for (int q = 0; q < 4; ++q) verts.push_back(Vec3(dta[3*q], dta[3*q+1], dta[3*q+2]));
                    int f[4][3] = {{0,1,2},{0,3,1},{1,3,2},{2,3,0}};
                    // orient outward: flip a face if its normal points towards the centroid
                    Vec3 cen = (verts[0]+verts[1]+verts[2]+verts[3])/4;
                    for (int q = 0; q < 4; ++q) { Vec3 a = verts[f[q][0]], b = verts[f[q][1]], c = verts[f[q][2]]; if (dot((b-a)%(c-a), a-cen) < 0) std::swap(f[q][1], f[q][2]);
                        for (int v = 0; v < 3; ++v) faces.push_back(f[q][v]); } }
                else { PolygonalMesh pm = kind == 1 ? PolygonalMesh::createBrickMesh(Vec3(dta[0], dta[1], dta[2]), 1) : PolygonalMesh::createSphereMesh(dta[0], 1);
                    pm.transformMesh(Transform(Vec3(dta[3], dta[4], dta[5]))); ContactGeometry::TriangleMesh t0(pm);
                    for (int v = 0; v < t0.getNumVertices(); ++v) verts.push_back(t0.getVertexPosition(v));
                    for (int f = 0; f < t0.getNumFaces(); ++f) for (int v = 0; v < 3; ++v) faces.push_back(t0.getFaceVertex(f, v)); }
                const int nf = (int)faces.size() / 3;
                for (int f = 0; f < nf; ++f) { const int sh = (f + rotF) % 3; int a[3] = {faces[3*f], faces[3*f+1], faces[3*f+2]}; for (int v = 0; v < 3; ++v) faces[3*f+v] = a[(v + sh) % 3]; }
                ContactGeometry::TriangleMesh mesh(verts, faces);
                Transform X_GH(RH, pH), X_GM(RM, pM);
                ContactTracker::HalfSpaceTriangleMesh tr; Contact cur; UntrackedContact prior(ContactSurfaceIndex(0), ContactSurfaceIndex(1));
                bool ok = tr.trackContact(prior, X_GH, ContactGeometry::HalfSpace(), X_GM, mesh, 0, cur);
                std::set<int> rep; if (ok && !cur.isEmpty() && TriangleMeshContact::isInstance(cur)) rep = TriangleMeshContact::getAs(cur).getSurface2Faces();
                const Transform X_HM = ~X_GH * X_GM; std::set<int> brute; Real margin = Infinity;
                for (int f = 0; f < mesh.getNumFaces(); ++f) for (int v = 0; v < 3; ++v) {
                    const Real x = (X_HM * mesh.getVertexPosition(mesh.getFaceVertex(f, v)))[0]; margin = std::min(margin, std::abs(x)); if (x > 0) brute.insert(f); }
                int missing = 0, extra = 0; for (int f : brute) if (!rep.count(f)) ++missing; for (int f : rep) if (!brute.count(f)) ++extra;
                pr(ok ? 1.0 : 0.0); pr((double)rep.size()); pr((double)brute.size()); pr((double)missing); pr((double)extra); pr(margin);
            }
            else if (k == "TS") { Rotation R = rot(nv()); Vec3 p1 = nv(); Real r1 = nx(); Vec3 p2 = nv(); Real r2 = nx(); Real cutoff = nx();
                ContactTracker::SphereSphere tr; Contact cur; UntrackedContact prior(ContactSurfaceIndex(0), ContactSurfaceIndex(1));
                bool ok = tr.trackContact(prior, Transform(R, p1), ContactGeometry::Sphere(r1), Transform(p2), ContactGeometry::Sphere(r2), cutoff, cur);
                prTracked(ok, cur); pr(R); }
            else if (k == "TH") { Rotation R = rot(nv()); Vec3 p1 = nv(), p2 = nv(); Real r = nx(); Real cutoff = nx();
                ContactTracker::HalfSpaceSphere tr; Contact cur; UntrackedContact prior(ContactSurfaceIndex(0), ContactSurfaceIndex(1));
                bool ok = tr.trackContact(prior, Transform(R, p1), ContactGeometry::HalfSpace(), Transform(p2), ContactGeometry::Sphere(r), cutoff, cur);
                prTracked(ok, cur); pr(R); }
            else std::printf("?unknown");
            std::printf("\n");
        } catch (const std::exception& e) { std::printf("!exception\n"); }
        std::fflush(stdout);
    }
    return 0;
}
