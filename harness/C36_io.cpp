// C36 file-format part: loads every mesh file named on stdin (one path per line, optionally preceded by "stl " to force
// PolygonalMesh::loadStlFile, otherwise PolygonalMesh::loadFile picks the reader from the extension) and prints what was
// loaded: vertices (as %.17g and, since binary STL coordinates are binary32 values, also the 4 little-endian bytes of each
// coordinate converted back to float) and the vertex indices of every face; "THROW" if the loader threw.
#include "SimTKcommon.h"
#include <cstdio>
#include <cstring>
#include <iostream>
#include <string>
using namespace SimTK;
int main() {
    std::string line;
    while (std::getline(std::cin, line)) {
        if (line.empty()) continue;
        bool forceStl = line.compare(0, 4, "stl ") == 0; std::string path = forceStl ? line.substr(4) : line;
        printf("FILE %s\n", path.c_str());
        PolygonalMesh mesh;
        try { if (forceStl) mesh.loadStlFile(path); else mesh.loadFile(path); }
        catch (const std::exception& e) { std::string w = e.what(); for (char& c : w) if (c == '\n') c = ' '; printf("THROW %.300s\n", w.c_str()); continue; }
        printf("NV %d NF %d\n", mesh.getNumVertices(), mesh.getNumFaces());
        for (int v = 0; v < mesh.getNumVertices(); ++v) {
            const Vec3& p = mesh.getVertexPosition(v); printf("V %.17g %.17g %.17g |", p[0], p[1], p[2]);
            for (int k = 0; k < 3; ++k) { float f = (float)p[k]; unsigned char b[4]; std::memcpy(b, &f, 4); printf(" %d %d %d %d", b[0], b[1], b[2], b[3]); }
            printf(" | %d\n", ((double)(float)p[0] == p[0] && (double)(float)p[1] == p[1] && (double)(float)p[2] == p[2]) ? 1 : 0);
        }
        for (int f = 0; f < mesh.getNumFaces(); ++f) {
            printf("F"); for (int k = 0; k < mesh.getNumVerticesForFace(f); ++k) printf(" %d", mesh.getFaceVertex(f, k)); printf("\n");
        }
    }
    printf("DONE\n");
    return 0;
}
