// C36 probe: builds a ContactGeometry::TriangleMesh from the vertices/faces read from stdin and prints
//  - the mesh (echo), the adjacency tables, the whole OBB tree (public OBBTreeNode accessors) = the certificate the
//    extracted checker of coq/C36/C36_Model.v verifies,
//  - the answers of the tree-pruned queries (findNearestPoint, intersectsRay) for the given query points / rays,
//  - OrientedBoundingBox(points) and Geo::Point::calcBoundingSphere(points) of the given point clouds.
// Input (all numbers decimal / %.17g):  MESH nv nf | v x y z | f i j k | N x y z | R ox oy oz dx dy dz | P n x y z ... | END
//        B r00 .. r22 px py pz sx sy sz | Y ox oy oz dx dy dz     (box/ray test OrientedBoundingBox::intersectsRay alone)
#include "Simbody.h"
#include <cstdio>
#include <iostream>
#include <sstream>
#include <string>
#include <vector>
using namespace SimTK;
typedef ContactGeometry::TriangleMesh Mesh;

static void pv(const Vec3& v) { printf(" %.17g %.17g %.17g", v[0], v[1], v[2]); }
static void pbox(const OrientedBoundingBox& b) {
    const Rotation& R = b.getTransform().R();
    for (int i = 0; i < 3; ++i) for (int j = 0; j < 3; ++j) printf(" %.17g", R.asMat33()(i, j));
    pv(b.getTransform().p()); pv(b.getSize());
}
static void dumpTree(const Mesh::OBBTreeNode& n) {
    if (n.isLeafNode()) {
        printf("T L"); pbox(n.getBounds()); const Array_<int>& t = n.getTriangles();
        printf(" %d %d", n.getNumTriangles(), (int)t.size()); for (int k = 0; k < (int)t.size(); ++k) printf(" %d", t[k]); printf("\n");
    } else {
        printf("T N"); pbox(n.getBounds()); printf(" %d\n", n.getNumTriangles());
        dumpTree(n.getFirstChildNode()); dumpTree(n.getSecondChildNode());
    }
}

int main() {
    std::string line; Array_<Vec3> verts; Array_<int> faces; Mesh* mesh = 0; int nv = 0, nf = 0; OrientedBoundingBox curBox;
    auto build = [&]() {
        if (mesh || nv == 0) return;
        try { mesh = new Mesh(verts, faces, false); }
        catch (const std::exception& e) { printf("BUILDFAIL %.200s\n", e.what()); return; }
        printf("ADJ %d %d %d\n", mesh->getNumVertices(), mesh->getNumFaces(), mesh->getNumEdges());
        for (int f = 0; f < mesh->getNumFaces(); ++f)
            printf("AF %d %d %d %d %d %d\n", mesh->getFaceVertex(f, 0), mesh->getFaceVertex(f, 1), mesh->getFaceVertex(f, 2),
                   mesh->getFaceEdge(f, 0), mesh->getFaceEdge(f, 1), mesh->getFaceEdge(f, 2));
        for (int e = 0; e < mesh->getNumEdges(); ++e)
            printf("AE %d %d %d %d\n", mesh->getEdgeVertex(e, 0), mesh->getEdgeVertex(e, 1), mesh->getEdgeFace(e, 0), mesh->getEdgeFace(e, 1));
        dumpTree(mesh->getOBBTreeNode());
        Vec3 c; Real r; mesh->getBoundingSphere(c, r); printf("MS"); pv(c); printf(" %.17g\n", r);
    };
    while (std::getline(std::cin, line)) {
        if (line.empty()) continue;
        std::istringstream is(line); std::string cmd; is >> cmd;
        if (cmd == "MESH") { delete mesh; mesh = 0; verts.clear(); faces.clear(); is >> nv >> nf; printf("%s\n", line.c_str()); }
        else if (cmd == "v") { Vec3 p; is >> p[0] >> p[1] >> p[2]; verts.push_back(p); printf("%s\n", line.c_str()); }
        else if (cmd == "f") { int a, b, c; is >> a >> b >> c; faces.push_back(a); faces.push_back(b); faces.push_back(c); printf("%s\n", line.c_str()); }
        else if (cmd == "N") {
            build(); Vec3 p; is >> p[0] >> p[1] >> p[2]; printf("%s\n", line.c_str());
            if (!mesh) { printf("NEAR -\n"); continue; }
            bool inside; int face; Vec2 uv; Vec3 q = mesh->findNearestPoint(p, inside, face, uv);
            printf("NEAR %.17g %d %d", (q - p).normSqr(), inside ? 1 : 0, face); pv(q); printf("\n");
        } else if (cmd == "NF") {       // per-face routine TriangleMesh::findNearestPointToFace for EVERY face of the mesh
            build(); Vec3 p; is >> p[0] >> p[1] >> p[2]; printf("%s\n", line.c_str());
            if (!mesh) { printf("NFACE -\n"); continue; }
            printf("NFACE");
            for (int f = 0; f < mesh->getNumFaces(); ++f) { Vec2 uv; Vec3 q = mesh->findNearestPointToFace(p, f, uv); printf(" %.17g", (q - p).normSqr()); }
            printf("\n");
        } else if (cmd == "R") {
            build(); Vec3 o, d; is >> o[0] >> o[1] >> o[2] >> d[0] >> d[1] >> d[2]; printf("%s\n", line.c_str());
            if (!mesh) { printf("RAY -\n"); continue; }
            Real dist = 0; int face = -1; Vec2 uv; bool hit = mesh->intersectsRay(o, UnitVec3(d), dist, face, uv);
            printf("RAY %d %.17g %d\n", hit ? 1 : 0, hit ? dist : 0.0, hit ? face : -1);
        } else if (cmd == "P") {
            int n; is >> n; Vector_<Vec3> pts(n); Array_<Vec3> arr;
            for (int k = 0; k < n; ++k) { Vec3 p; is >> p[0] >> p[1] >> p[2]; pts[k] = p; arr.push_back(p); }
            printf("%s\n", line.c_str());
            OrientedBoundingBox bx(pts); int inb = 0; for (int k = 0; k < n; ++k) if (bx.containsPoint(pts[k])) ++inb;
            printf("PB"); pbox(bx); printf(" %d\n", inb);
            Geo::Sphere s = Geo::Point::calcBoundingSphere(arr);
            printf("PS"); pv(s.getCenter()); printf(" %.17g\n", s.getRadius());
        } else if (cmd == "B") {        // an oriented box: rotation (row major, taken as is), origin, size
            Mat33 R; Vec3 o, sz; for (int i = 0; i < 3; ++i) for (int j = 0; j < 3; ++j) is >> R(i, j);
            is >> o[0] >> o[1] >> o[2] >> sz[0] >> sz[1] >> sz[2];
            curBox = OrientedBoundingBox(Transform(Rotation(R, true), o), sz); printf("B"); pbox(curBox); printf("\n");
        } else if (cmd == "Y") {        // a ray against the current box: OrientedBoundingBox::intersectsRay
            Vec3 o, d; is >> o[0] >> o[1] >> o[2] >> d[0] >> d[1] >> d[2]; UnitVec3 u(d);
            printf("Y"); pv(o); pv(Vec3(u)); printf("\n");
            Real dist = 0; bool hit = curBox.intersectsRay(o, u, dist);
            printf("BR %d %.17g\n", hit ? 1 : 0, hit ? dist : 0.0);
        } else if (cmd == "END") { build(); printf("END\n"); }
    }
    printf("DONE\n");
    return 0;
}
