// C37 elastic-foundation probe: ElasticFoundationForce through GeneralContactSubsystem, one scene per input line.
//   EF other vt  ballRes ballRadius  ballPar[5]  otherPar[5]  otherOnGround otherPose[12] otherSurf[6]  ballPose[12]
//   FD other     ballRes ballRadius  kBall kOther             otherSurf[6]  q[3]
// other: 0 half space, 1 analytic sphere (radius otherPar[0] is unused; radius 0.7), 2 mesh brick WITH parameters,
//        3 mesh brick WITHOUT parameters, 4 mesh sphere WITH parameters.     pose[12] = angles p w v; surf[6] = angles p
// EF prints the per-face data the model needs, reproduced with the public API exactly as processContact does
// (TriangleMeshContact face sets, centroid springs, face areas, findNearestPoint of the other surface), then the
// rigid-body forces and the potential energy:
//   OK nb {p w v}* | nc { b1 b2 has1 has2 n1 {spG[3] npG[3] inside area}*n1 n2 {...}*n2 }* | forces | pe
// FD (static, no dissipation, no friction, ball on a Translation mobilizer): force on the ball and the central finite
// difference of calcPotentialEnergy w.r.t. the three translations:  OK pe f[3] grad[3] ncontacts
#include "Simbody.h"
#include <cstdio>
#include <cstdlib>
#include <string>
#include <sstream>
#include <iostream>
#include <vector>
#include <set>
using namespace SimTK;
static std::vector<double> A; static size_t ai;
static double nx() { if (ai >= A.size()) throw std::runtime_error("args"); return A[ai++]; }
static Vec3 nv() { Vec3 v; for (int i = 0; i < 3; ++i) v[i] = nx(); return v; }
static Rotation rot(const Vec3& a) { return Rotation(BodyRotationSequence, a[0], XAxis, a[1], YAxis, a[2], ZAxis); }
static Transform nframe() { Vec3 a = nv(); Vec3 p = nv(); return Transform(rot(a), p); }
static void pr(double x) { std::printf("%a ", x); }
static void pr(const Vec3& v) { for (int i = 0; i < 3; ++i) pr(v[i]); }
static void pr(const SpatialVec& v) { pr(v[0]); pr(v[1]); }
static void bar() { std::printf("| "); }

static ContactGeometry makeOther(int other) {
    if (other == 0) return ContactGeometry::HalfSpace();
    if (other == 1) return ContactGeometry::Sphere(0.7);
    if (other == 4) return ContactGeometry::TriangleMesh(PolygonalMesh::createSphereMesh(0.7, 2));
    return ContactGeometry::TriangleMesh(PolygonalMesh::createBrickMesh(Vec3(0.6, 0.5, 0.6), 4));
}

static void sideFaces(const State& s, const GeneralContactSubsystem& contacts, ContactSetIndex set,
                      ContactSurfaceIndex meshIndex, ContactSurfaceIndex otherIndex, const std::set<int>& faces) {
    const ContactGeometry::TriangleMesh& mesh = ContactGeometry::TriangleMesh::getAs(contacts.getBodyGeometry(set, meshIndex));
    const ContactGeometry& otherObject = contacts.getBodyGeometry(set, otherIndex);
    const Transform t1g = contacts.getBody(set, meshIndex).getBodyTransform(s) * contacts.getBodyTransform(set, meshIndex);
    const Transform t2g = contacts.getBody(set, otherIndex).getBodyTransform(s) * contacts.getBodyTransform(set, otherIndex);
    const Transform t12 = ~t2g * t1g;
    pr((double)faces.size());
    for (std::set<int>::const_iterator it = faces.begin(); it != faces.end(); ++it) {
        const int face = *it;
        const Vec3 spring = (mesh.getVertexPosition(mesh.getFaceVertex(face, 0)) + mesh.getVertexPosition(mesh.getFaceVertex(face, 1))
                             + mesh.getVertexPosition(mesh.getFaceVertex(face, 2))) / 3;
        UnitVec3 normal; bool inside;
        Vec3 nearest = otherObject.findNearestPoint(t12 * spring, inside, normal);
        pr(t1g * spring); pr(t2g * nearest); pr(inside ? 1.0 : 0.0); pr(mesh.getFaceArea(face));
    }
}

static void runEF() {
    const int other = (int)nx(); const Real vt = nx(); const int res = (int)nx(); const Real rad = nx();
    Real bp[5], op[5]; for (int i = 0; i < 5; ++i) bp[i] = nx(); for (int i = 0; i < 5; ++i) op[i] = nx();
    const bool onGround = nx() != 0; Vec3 oa = nv(), opos = nv(), ow = nv(), ov = nv(); Transform osurf = nframe();
    Vec3 ba = nv(), bpos = nv(), bw = nv(), bv = nv();
    MultibodySystem system; SimbodyMatterSubsystem matter(system); GeneralContactSubsystem contacts(system); GeneralForceSubsystem forces(system);
    Body::Rigid body(MassProperties(1.0, Vec3(0), Inertia(1)));
    ContactSetIndex set = contacts.createContactSet();
    MobilizedBody::Free ball(matter.updGround(), Transform(), body, Transform());
    MobilizedBody ob = matter.updGround();
    if (!onGround) ob = MobilizedBody::Free(matter.updGround(), Transform(), body, Transform());
    contacts.addBody(set, ball, ContactGeometry::TriangleMesh(PolygonalMesh::createSphereMesh(rad, res)), Transform(Vec3(0.05, -0.02, 0.03)));
    contacts.addBody(set, ob, makeOther(other), osurf);
    ElasticFoundationForce ef(forces, contacts, set);
    ef.setBodyParameters(ContactSurfaceIndex(0), bp[0], bp[1], bp[2], bp[3], bp[4]);
    if (other == 2 || other == 4) ef.setBodyParameters(ContactSurfaceIndex(1), op[0], op[1], op[2], op[3], op[4]);
    ef.setTransitionVelocity(vt);
    State s = system.realizeTopology();
    ball.setQToFitTransform(s, Transform(rot(ba), bpos)); if (!onGround) ob.setQToFitTransform(s, Transform(rot(oa), opos));
    system.realize(s, Stage::Position);
    ball.setUToFitVelocity(s, SpatialVec(bw, bv)); if (!onGround) ob.setUToFitVelocity(s, SpatialVec(ow, ov));
    system.realize(s, Stage::Dynamics);
    std::printf("OK "); pr((double)matter.getNumBodies());
    for (MobilizedBodyIndex i(0); i < matter.getNumBodies(); ++i) { const MobilizedBody& b = matter.getMobilizedBody(i);
        pr(b.getBodyOriginLocation(s)); pr(b.getBodyAngularVelocity(s)); pr(b.getBodyOriginVelocity(s)); }
    bar();
    const Array_<Contact>& cs = contacts.getContacts(s, set);
    pr((double)cs.size());
    for (int i = 0; i < (int)cs.size(); ++i) {
        const ContactSurfaceIndex s1 = cs[i].getSurface1(), s2 = cs[i].getSurface2();
        const bool has1 = (s1 == 0) || (other == 2 || other == 4), has2 = (s2 == 0) || (other == 2 || other == 4);
        pr((double)(int)contacts.getBody(set, s1).getMobilizedBodyIndex()); pr((double)(int)contacts.getBody(set, s2).getMobilizedBodyIndex());
        pr(has1 ? 1.0 : 0.0); pr(has2 ? 1.0 : 0.0); pr((double)(int)s1); pr((double)(int)s2);
        if (!TriangleMeshContact::isInstance(cs[i])) { pr(0.0); pr(0.0); continue; }
        const TriangleMeshContact& c = static_cast<const TriangleMeshContact&>(cs[i]);
        if (has1) sideFaces(s, contacts, set, s1, s2, c.getSurface1Faces()); else pr(0.0);
        if (has2) sideFaces(s, contacts, set, s2, s1, c.getSurface2Faces()); else pr(0.0);
    }
    bar();
    const Vector_<SpatialVec>& F = system.getRigidBodyForces(s, Stage::Dynamics);
    for (int i = 0; i < matter.getNumBodies(); ++i) pr(F[i]);
    bar(); pr(system.calcPotentialEnergy(s)); std::printf("\n");
}

static void runFD() {
    const int other = (int)nx(); const int res = (int)nx(); const Real rad = nx(); const Real kb = nx(), ko = nx();
    Transform osurf = nframe(); const Vec3 q0 = nv();
    MultibodySystem system; SimbodyMatterSubsystem matter(system); GeneralContactSubsystem contacts(system); GeneralForceSubsystem forces(system);
    Body::Rigid body(MassProperties(1.0, Vec3(0), Inertia(1)));
    ContactSetIndex set = contacts.createContactSet();
    MobilizedBody::Translation ball(matter.updGround(), Transform(), body, Transform(Vec3(0.01, 0, 0)));
    contacts.addBody(set, ball, ContactGeometry::TriangleMesh(PolygonalMesh::createSphereMesh(rad, res)), Transform());
    contacts.addBody(set, matter.updGround(), makeOther(other), osurf);
    ElasticFoundationForce ef(forces, contacts, set);
    ef.setBodyParameters(ContactSurfaceIndex(0), kb, 0.0, 0.0, 0.0, 0.0);
    if (other == 2 || other == 4) ef.setBodyParameters(ContactSurfaceIndex(1), ko, 0.0, 0.0, 0.0, 0.0);
    State s = system.realizeTopology();
    auto eval = [&](const Vec3& q, Real& pe, Vec3& f) { ball.setQToFitTranslation(s, q); system.realize(s, Stage::Dynamics);
        pe = system.calcPotentialEnergy(s); f = system.getRigidBodyForces(s, Stage::Dynamics)[ball.getMobilizedBodyIndex()][1]; };
    Real pe0; Vec3 f0; eval(q0, pe0, f0); const int nc = (int)contacts.getContacts(s, set).size();
    Vec3 grad; const Real h = 1e-6;
    for (int i = 0; i < 3; ++i) { Vec3 dq(0); dq[i] = h; Real pp, pm; Vec3 t; eval(q0 + dq, pp, t); eval(q0 - dq, pm, t); grad[i] = (pp - pm) / (2 * h); }
    std::printf("OK "); pr(pe0); pr(f0); pr(grad); pr((double)nc); std::printf("\n");
}

int main() {
    std::string line;
    while (std::getline(std::cin, line)) {
        std::istringstream is(line); std::string k; is >> k; A.clear(); ai = 0;
        std::string t; while (is >> t) A.push_back(std::strtod(t.c_str(), 0));
        try { if (k == "EF") runEF(); else if (k == "FD") runFD(); else std::printf("?unknown\n"); }
        catch (const std::exception& e) { std::string m = e.what(); for (auto& ch : m) if (ch == '\n') ch = ' '; std::printf("!exception %s\n", m.c_str()); }
        std::fflush(stdout);
    }
    return 0;
}
