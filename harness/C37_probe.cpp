// C37 probe: runs simbody's compliant contact force elements on one case per input line and prints what the
// extracted Coq model needs as input (contact geometry as reported by the collision detectors, body poses and
// velocities as the State has them) together with what the force elements produced (rigid body forces after
// realize(Dynamics), potential energy, per-contact ContactForce objects).  All numbers are printed with %a.
//
//   HC nS vt onGround  hsBody[15]  hsPar[5] hsFrame[6]  useMesh  { radius E c us ud uv  off[3]  pose[15] } * nS
//   SS onGround hsBody[15] frame[6] par[9] radius loc[3] pose[15]
//   ES plane[6] par[8: d0 d1 d2 cz maxFz kxy cxy vSettle] mus muk K p0[3] station[3] pose[15]
//   HZ nS vt onGround hsBody[15] hsMat[5] hsFrame[6] { radius mat[5] off[3] pose[15] } * nS
//   BK vt onGround hsBody[15] hsMat[5] hsFrame[6]  half[3] mat[5] off[6] pose[15]
//   ME vt onGround plateBody[15] plateMat[5] plateFrame[6] plate(0 half space,1 mesh brick) plateThickness  rad res mat[5] thickness off[6] pose[15]
//        (triangle-mesh sphere; CompliantContactSubsystem's elastic-foundation generator: ContactForce with a patch moment)
// pose[15] = body-fixed XYZ angles[3], p[3], w[3], v[3], unused[3];   frame[6] = angles[3], p[3]
#include "Simbody.h"
#include <cstdio>
#include <cstdlib>
#include <string>
#include <sstream>
#include <iostream>
#include <vector>
using namespace SimTK;

static std::vector<double> A; static size_t ai;
static double nx() { if (ai >= A.size()) throw std::runtime_error("args"); return A[ai++]; }
static Vec3 nv() { Vec3 v; for (int i = 0; i < 3; ++i) v[i] = nx(); return v; }
static Rotation rot(const Vec3& a) { return Rotation(BodyRotationSequence, a[0], XAxis, a[1], YAxis, a[2], ZAxis); }
static Transform nframe() { Vec3 a = nv(); Vec3 p = nv(); return Transform(rot(a), p); }
struct Pose { Transform X; SpatialVec V; };
static Pose npose() { Pose P; Vec3 a = nv(); Vec3 p = nv(); Vec3 w = nv(); Vec3 v = nv(); nv(); P.X = Transform(rot(a), p); P.V = SpatialVec(w, v); return P; }
static void pr(double x) { std::printf("%a ", x); }
static void pr(const Vec3& v) { for (int i = 0; i < 3; ++i) pr(v[i]); }
static void pr(const UnitVec3& v) { for (int i = 0; i < 3; ++i) pr(v[i]); }
static void pr(const SpatialVec& v) { pr(v[0]); pr(v[1]); }
static void pr(const Rotation& R) { for (int i = 0; i < 3; ++i) for (int j = 0; j < 3; ++j) pr(R[i][j]); }
static void pr(const Transform& X) { pr(X.R()); pr(X.p()); }
static void bar() { std::printf("| "); }
static void pi(int x) { std::printf("%a ", (double)x); }   // integers are printed as %a too (the comparer parses every token as a hex float)

static void setPose(State& s, const MobilizedBody& b, const Pose& P) { b.setQToFitTransform(s, P.X); }
static void setVel(State& s, const MobilizedBody& b, const Pose& P) { b.setUToFitVelocity(s, P.V); }
static void prBodies(const State& s, const SimbodyMatterSubsystem& matter, bool withR) {
    pi(matter.getNumBodies());
    for (MobilizedBodyIndex i(0); i < matter.getNumBodies(); ++i) {
        const MobilizedBody& b = matter.getMobilizedBody(i);
        if (withR) pr(b.getBodyRotation(s));
        pr(b.getBodyOriginLocation(s)); pr(b.getBodyAngularVelocity(s)); pr(b.getBodyOriginVelocity(s));
    }
}
static void prForces(const State& s, const MultibodySystem& sys, const SimbodyMatterSubsystem& matter) {
    const Vector_<SpatialVec>& F = sys.getRigidBodyForces(s, Stage::Dynamics);
    for (int i = 0; i < matter.getNumBodies(); ++i) pr(F[i]);
}

static void runHC() {
    const int nS = (int)nx(); const Real vt = nx(); const bool onGround = nx() != 0;
    Pose hsPose = npose(); Real hp[5]; for (int i = 0; i < 5; ++i) hp[i] = nx(); Transform hsFrame = nframe();
    const bool useMesh = nx() != 0;
    MultibodySystem system; SimbodyMatterSubsystem matter(system);
    GeneralContactSubsystem contacts(system); GeneralForceSubsystem forces(system);
    Body::Rigid body(MassProperties(1.0, Vec3(0), Inertia(1)));
    ContactSetIndex set = contacts.createContactSet();
    std::vector<MobilizedBody::Free> sph; std::vector<Pose> poses; std::vector<std::vector<Real> > par;
    for (int i = 0; i < nS; ++i) {
        Real radius = nx(); std::vector<Real> p(5); for (int k = 0; k < 5; ++k) p[k] = nx(); Vec3 off = nv(); poses.push_back(npose()); par.push_back(p);
        sph.push_back(MobilizedBody::Free(matter.updGround(), Transform(), body, Transform()));
        contacts.addBody(set, sph.back(), ContactGeometry::Sphere(radius), Transform(off));
    }
    MobilizedBody hsBody = matter.updGround();
    if (!onGround) hsBody = MobilizedBody::Free(matter.updGround(), Transform(), body, Transform());
    contacts.addBody(set, hsBody, ContactGeometry::HalfSpace(), hsFrame);
    MobilizedBody meshBody;
    if (useMesh) {   // a triangle-mesh sphere of radius 0.5 placed at the first sphere's centre: produces non-point contacts
        meshBody = MobilizedBody::Free(matter.updGround(), Transform(), body, Transform());
        contacts.addBody(set, meshBody, ContactGeometry::TriangleMesh(PolygonalMesh::createSphereMesh(0.5, 2)), Transform());
    }
    HuntCrossleyForce hc(forces, contacts, set);
    for (int i = 0; i < nS; ++i) hc.setBodyParameters(ContactSurfaceIndex(i), par[i][0], par[i][1], par[i][2], par[i][3], par[i][4]);
    hc.setBodyParameters(ContactSurfaceIndex(nS), hp[0], hp[1], hp[2], hp[3], hp[4]);
    if (useMesh) hc.setBodyParameters(ContactSurfaceIndex(nS + 1), 1.0, 0.0, 0.0, 0.0, 0.0);
    hc.setTransitionVelocity(vt);
    State s = system.realizeTopology();
    for (int i = 0; i < nS; ++i) setPose(s, sph[i], poses[i]);
    if (!onGround) setPose(s, hsBody, hsPose);
    if (useMesh) { Pose P = poses[0]; setPose(s, meshBody, P); }
    system.realize(s, Stage::Position);
    for (int i = 0; i < nS; ++i) setVel(s, sph[i], poses[i]);
    if (!onGround) setVel(s, hsBody, hsPose);
    system.realize(s, Stage::Dynamics);
    std::printf("OK "); prBodies(s, matter, false); bar();
    pi(contacts.getNumBodies(set));
    for (int i = 0; i < contacts.getNumBodies(set); ++i) pi((int)contacts.getBody(set, ContactSurfaceIndex(i)).getMobilizedBodyIndex());
    bar();
    const Array_<Contact>& cs = contacts.getContacts(s, set);
    pi((int)cs.size());
    for (int i = 0; i < (int)cs.size(); ++i) {
        pi((int)cs[i].getSurface1()); pi((int)cs[i].getSurface2());
        if (PointContact::isInstance(cs[i])) {
            const PointContact& c = static_cast<const PointContact&>(cs[i]);
            std::printf("1 "); pr(c.getDepth()); pr(c.getNormal()); pr(c.getLocation()); pr(c.getEffectiveRadiusOfCurvature());
        } else { std::printf("0 "); for (int k = 0; k < 8; ++k) pr(0.0); }
    }
    bar(); prForces(s, system, matter); bar(); pr(system.calcPotentialEnergy(s)); std::printf("\n");
}

static void runSS() {
    const bool onGround = nx() != 0; Pose hsPose = npose(); Transform frame = nframe();
    Real p[9]; for (int i = 0; i < 9; ++i) p[i] = nx(); const Real radius = nx(); const Vec3 loc = nv(); Pose sp = npose();
    MultibodySystem system; SimbodyMatterSubsystem matter(system); GeneralForceSubsystem forces(system);
    Body::Rigid body(MassProperties(1.0, Vec3(0), Inertia(1)));
    MobilizedBody::Free sphere(matter.updGround(), Transform(), body, Transform());
    MobilizedBody hsBody = matter.updGround();
    if (!onGround) hsBody = MobilizedBody::Free(matter.updGround(), Transform(), body, Transform());
    SmoothSphereHalfSpaceForce f(forces);
    f.setParameters(p[0], p[1], p[2], p[3], p[4], p[5], p[6], p[7], p[8]);
    f.setContactSphereBody(sphere); f.setContactSphereLocationInBody(loc); f.setContactSphereRadius(radius);
    f.setContactHalfSpaceBody(hsBody); f.setContactHalfSpaceFrame(frame);
    State s = system.realizeTopology();
    setPose(s, sphere, sp); if (!onGround) setPose(s, hsBody, hsPose);
    system.realize(s, Stage::Position);
    setVel(s, sphere, sp); if (!onGround) setVel(s, hsBody, hsPose);
    system.realize(s, Stage::Dynamics);
    std::printf("OK "); prBodies(s, matter, true); bar(); pi((int)sphere.getMobilizedBodyIndex()); pi((int)hsBody.getMobilizedBodyIndex());
    pr(frame); bar(); prForces(s, system, matter); bar(); pr(system.calcPotentialEnergy(s)); std::printf("\n");
}

static void runES() {
    Transform plane = nframe(); Real p[8]; for (int i = 0; i < 8; ++i) p[i] = nx();
    const Real mus = nx(), muk = nx(), K = nx(); const Vec3 p0 = nv(); const Vec3 station = nv(); Pose bp = npose();
    MultibodySystem system; SimbodyMatterSubsystem matter(system); GeneralForceSubsystem forces(system);
    Body::Rigid body(MassProperties(1.0, Vec3(0), Inertia(1)));
    MobilizedBody::Free b(matter.updGround(), Transform(), body, Transform());
    ExponentialSpringParameters params;
    params.setShapeParameters(p[0], p[1], p[2]); params.setNormalViscosity(p[3]); params.setMaxNormalForce(p[4]);
    params.setFrictionElasticity(p[5]); params.setFrictionViscosity(p[6]); params.setSettleVelocity(p[7]);
    params.setInitialMuStatic(mus); params.setInitialMuKinetic(muk);
    ExponentialSpringForce spr(forces, plane, b, station, params);
    State s = system.realizeTopology();
    system.realizeModel(s);
    setPose(s, b, bp);
    spr.setMuStatic(s, mus); spr.setMuKinetic(s, muk);
    Value<Real>::updDowncast(forces.updDiscreteVariable(s, spr.getSlidingStateIndex())) = K;
    Value<Vec3>::updDowncast(forces.updDiscreteVariable(s, spr.getAnchorPointStateIndex())) = p0;
    system.realize(s, Stage::Position);
    setVel(s, b, bp);
    system.realize(s, Stage::Dynamics);
    {   Real d0, d1, d2; const ExponentialSpringParameters& q = spr.getParameters(); q.getShapeParameters(d0, d1, d2);
        std::printf("OK "); pr(SignificantReal); pr(spr.getMuStatic(s)); pr(spr.getMuKinetic(s)); pr(K);
        pr(d0); pr(d1); pr(d2); pr(q.getNormalViscosity()); pr(q.getMaxNormalForce()); pr(q.getFrictionElasticity()); pr(q.getFrictionViscosity()); bar(); }
    pr(spr.getStationPosition(s, false)); pr(spr.getStationVelocity(s, false)); bar();      // in the contact-plane frame
    pr(spr.getNormalForceElasticPart(s, false)); pr(spr.getNormalForceDampingPart(s, false)); pr(spr.getNormalForce(s, false)); bar();
    pr(spr.getMu(s)); pr(spr.getFrictionForceLimit(s)); bar();
    pr(spr.getFrictionForceElasticPart(s, false)); pr(spr.getFrictionForceDampingPart(s, false)); pr(spr.getFrictionForce(s, false)); bar();
    pr(spr.getForce(s, false)); pr(spr.getForce(s, true)); pr(spr.getAnchorPointPosition(s, false)); bar();
    pr(plane); pr(spr.getStationPosition(s, true)); pr(b.getBodyOriginLocation(s)); bar();
    prForces(s, system, matter); std::printf("\n");
}

// Hertz circular (spheres on a half space and on each other) and brick / half space through ContactTrackerSubsystem +
// CompliantContactSubsystem
// kind 0: spheres (HZ), 1: brick (BK), 2: triangle-mesh sphere on a half space (plate 0) or on a mesh brick (plate 1), elastic-foundation generator (ME)
static void runCC(int kindCC) {
    const bool brick = kindCC == 1, meshMode = kindCC == 2;
    const int nS = (brick || meshMode) ? 1 : (int)nx(); const Real vt = nx(); const bool onGround = nx() != 0;
    Pose hsPose = npose(); Real hm[5]; for (int i = 0; i < 5; ++i) hm[i] = nx(); Transform hsFrame = nframe();
    MultibodySystem system; SimbodyMatterSubsystem matter(system);
    ContactTrackerSubsystem tracker(system); CompliantContactSubsystem compliant(system, tracker); GeneralForceSubsystem forces(system);
    compliant.setTransitionVelocity(vt);
    Body::Rigid gbody(MassProperties(1.0, Vec3(0), Inertia(1)));
    MobilizedBody hsBody = matter.updGround();
    std::vector<MobilizedBody::Free> bs; std::vector<Pose> poses;
    std::vector<Body::Rigid> infos;
    const int plate = meshMode ? (int)nx() : 0; const Real plateThickness = meshMode ? nx() : 0;
    ContactSurface plateSurf = plate == 1
        ? ContactSurface(ContactGeometry::TriangleMesh(PolygonalMesh::createBrickMesh(Vec3(0.6, 0.5, 0.6), 3)), ContactMaterial(hm[0], hm[1], hm[2], hm[3], hm[4]), plateThickness)
        : ContactSurface(ContactGeometry::HalfSpace(), ContactMaterial(hm[0], hm[1], hm[2], hm[3], hm[4]));
    if (!onGround) {
        Body::Rigid hb(MassProperties(1.0, Vec3(0), Inertia(1)));
        hb.addContactSurface(hsFrame, plateSurf);
        hsBody = MobilizedBody::Free(matter.updGround(), Transform(), hb, Transform());
    } else
        matter.updGround().updBody().addContactSurface(hsFrame, plateSurf);
    for (int i = 0; i < nS; ++i) {
        Body::Rigid bb(MassProperties(1.0, Vec3(0), Inertia(1)));
        if (meshMode) {
            const Real rad = nx(); const int res = (int)nx(); Real m[5]; for (int k = 0; k < 5; ++k) m[k] = nx(); const Real th = nx(); Transform off = nframe();
            bb.addContactSurface(off, ContactSurface(ContactGeometry::TriangleMesh(PolygonalMesh::createSphereMesh(rad, res)), ContactMaterial(m[0], m[1], m[2], m[3], m[4]), th));
        } else if (brick) {
            Vec3 half = nv(); Real m[5]; for (int k = 0; k < 5; ++k) m[k] = nx(); Transform off = nframe();
            bb.addContactSurface(off, ContactSurface(ContactGeometry::Brick(half), ContactMaterial(m[0], m[1], m[2], m[3], m[4])));
        } else {
            Real radius = nx(); Real m[5]; for (int k = 0; k < 5; ++k) m[k] = nx(); Vec3 off = nv();
            bb.addContactSurface(Transform(off), ContactSurface(ContactGeometry::Sphere(radius), ContactMaterial(m[0], m[1], m[2], m[3], m[4])));
        }
        poses.push_back(npose());
        bs.push_back(MobilizedBody::Free(matter.updGround(), Transform(), bb, Transform()));
    }
    State s = system.realizeTopology();
    for (int i = 0; i < nS; ++i) setPose(s, bs[i], poses[i]);
    if (!onGround) setPose(s, hsBody, hsPose);
    system.realize(s, Stage::Position);
    for (int i = 0; i < nS; ++i) setVel(s, bs[i], poses[i]);
    if (!onGround) setVel(s, hsBody, hsPose);
    system.realize(s, Stage::Dynamics);
    std::printf("OK "); pr(SignificantReal); prBodies(s, matter, false); bar();
    const int nsurf = tracker.getNumSurfaces();
    pi(nsurf);
    for (ContactSurfaceIndex i(0); i < nsurf; ++i) {
        const ContactMaterial& m = tracker.getContactSurface(i).getMaterial();
        pi((int)tracker.getMobilizedBody(i).getMobilizedBodyIndex());
        pr(m.getStiffness()); pr(m.getStiffness23()); pr(m.getDissipation()); pr(m.getStaticFriction()); pr(m.getDynamicFriction()); pr(m.getViscousFriction());
    }
    bar();
    const ContactSnapshot& active = tracker.getActiveContacts(s);
    pi(active.getNumContacts());
    for (int i = 0; i < active.getNumContacts(); ++i) {
        const Contact& c = active.getContact(i);
        const ContactSurfaceIndex s1 = c.getSurface1(), s2 = c.getSurface2();
        const MobilizedBody& m1 = tracker.getMobilizedBody(s1); const MobilizedBody& m2 = tracker.getMobilizedBody(s2);
        const Transform X_GS1 = m1.findFrameTransformInGround(s, tracker.getContactSurfaceTransform(s1));
        const Transform X_GS2 = m2.findFrameTransformInGround(s, tracker.getContactSurfaceTransform(s2));
        const SpatialVec V_GS1 = m1.findFrameVelocityInGround(s, tracker.getContactSurfaceTransform(s1));
        const SpatialVec V_GS2 = m2.findFrameVelocityInGround(s, tracker.getContactSurfaceTransform(s2));
        const SpatialVec V12 = findRelativeVelocity(X_GS1, V_GS1, X_GS2, V_GS2);
        int kind = CircularPointContact::isInstance(c) ? 1 : BrickHalfSpaceContact::isInstance(c) ? 2 : 0;
        pi((int)c.getContactId()); pi((int)s1); pi((int)s2); pi(kind); pi((int)(c.getCondition() == Contact::Broken));
        pr(X_GS1); pr(c.getTransform()); pr(V12);
        if (kind == 1) { const CircularPointContact& cc = CircularPointContact::getAs(c);
            pr(cc.getDepth()); pr(cc.getNormal()); pr(cc.getOrigin()); pr(cc.getEffectiveRadius()); pr(0.0); pr(0.0); pr(0.0); pr(0.0); }
        else if (kind == 2) { const BrickHalfSpaceContact& bc = BrickHalfSpaceContact::getAs(c);
            const ContactGeometry::Brick& bk = ContactGeometry::Brick::getAs(tracker.getContactSurface(s2).getShape());
            const ContactGeometry::HalfSpace& hs = ContactGeometry::HalfSpace::getAs(tracker.getContactSurface(s1).getShape());
            pr(bc.getDepth()); pr(hs.getNormal()); pr(bk.getHalfLengths()); pr((double)bc.getLowestVertex()); pr(0.0); pr(0.0); pr(0.0); pr(0.0); }
        else for (int k = 0; k < 12; ++k) pr(0.0);
    }
    bar();
    const int nf = compliant.getNumContactForces(s);
    pi(nf);
    for (int i = 0; i < nf; ++i) {
        const ContactForce& f = compliant.getContactForce(s, i);
        pi((int)f.getContactId()); pr(f.getContactPoint()); pr(f.getForceOnSurface2()); pr(f.getPotentialEnergy()); pr(f.getPowerDissipation());
        ContactPatch patch; compliant.calcContactPatchDetailsById(s, f.getContactId(), patch);
        pi(patch.getNumDetails());
        for (int d = 0; d < patch.getNumDetails(); ++d) { const ContactDetail& cd = patch.getContactDetail(d);
            pr(cd.getContactPoint()); pr(cd.getContactNormal()); pr(cd.getSlipVelocity()); pr(cd.getForceOnSurface2());
            pr(cd.getDeformation()); pr(cd.getDeformationRate()); pr(cd.getPotentialEnergy()); pr(cd.getPowerDissipation()); }
    }
    bar(); prForces(s, system, matter); bar(); pr(system.calcPotentialEnergy(s)); std::printf("\n");
}

int main() {
    std::string line;
    while (std::getline(std::cin, line)) {
        std::istringstream is(line); std::string k; is >> k; A.clear(); ai = 0;
        std::string t; while (is >> t) A.push_back(std::strtod(t.c_str(), 0));
        try {
            if (k == "HC") runHC(); else if (k == "SS") runSS(); else if (k == "ES") runES();
            else if (k == "HZ") runCC(0); else if (k == "BK") runCC(1); else if (k == "ME") runCC(2);
            else std::printf("?unknown\n");
        } catch (const std::exception& e) { std::string m = e.what(); for (auto& ch : m) if (ch == '\n') ch = ' '; std::printf("!exception %s\n", m.c_str()); }
        std::fflush(stdout);
    }
    return 0;
}
