// C38 probe: random histories of parameter changes / state changes / enable-disable / realizations on the real
// force elements that keep parameters in the State, observed through the System's force arrays after
// realize(Dynamics) (so the GeneralForceSubsystem's and the elements' own caches are in the path), and compared
// with a FRESH state holding the same values.
//
// stdin:  <kind> <system prefix> <default element parameters> <ops...>
//   kinds MLS MLD MCF MST (system B: q(10) u(10), then body which <params>), GR (system A: 51 numbers, then d(3) g z ex1 ex2 ex3)
//   ops:  1 p...   set all parameters (MLS k q0 | MLD c | MCF f | MST k d lo hi | GR dx dy dz g z e1 e2 e3)
//         2 i v    q[i] = v         3 i v   u[i] = v        4 b   enable (b=1) / disable (b=0)       5   report
//         GR only: 6 gx gy gz  setGravityVector | 7 i b  setBodyIsExcluded(body i) | 8 g  setMagnitude | 9 z  setZeroHeight
//                  | 10 dx dy dz  setDownDirection
// stdout: one line per case; per report a record
//   R | mobility forces | body forces | PE | same three from a fresh state | parameters as the getters report them | position data ;
//   position data: system B: q_j u_j qdot_j (element's coordinate);  system A: X_GB (12) of every body
#include "C13_systems.h"

template<class SYS> static void report(SYS& S, const State& s, const State& fresh) {
    const int nb = S.matter.getNumBodies(), nu = s.getNU();
    for (int pass=0; pass<2; ++pass) {
        const State& x = pass==0 ? s : fresh;
        S.sys.realize(x, Stage::Dynamics);
        const Vector& mf = S.sys.getMobilityForces(x, Stage::Dynamics);
        const Vector_<SpatialVec>& bf = S.sys.getRigidBodyForces(x, Stage::Dynamics);
        for (int i=0;i<nu;++i) pr(mf[i]); bar();
        for (int i=0;i<nb;++i) pr(bf[i]); bar();
        pr(S.sys.calcPotentialEnergy(x)); bar();
    }
}

static void runB(const std::string& k) {
    SysB S; int b=(int)nx(); int w=(int)nx();
    Force::MobilityLinearSpring mls; Force::MobilityLinearDamper mld; Force::MobilityConstantForce mcf; Force::MobilityLinearStop mst;
    Force F;
    if (k=="MLS") { Real kk=nx(), q0=nx(); mls=Force::MobilityLinearSpring(S.forces,S.b[b],MobilizerQIndex(w),kk,q0); F=mls; }
    else if (k=="MLD") { Real c=nx(); mld=Force::MobilityLinearDamper(S.forces,S.b[b],MobilizerUIndex(w),c); F=mld; }
    else if (k=="MCF") { Real f=nx(); mcf=Force::MobilityConstantForce(S.forces,S.b[b],MobilizerUIndex(w),f); F=mcf; }
    else { Real kk=nx(), d=nx(), lo=nx(), hi=nx(); mst=Force::MobilityLinearStop(S.forces,S.b[b],MobilizerQIndex(w),kk,d,lo,hi); F=mst; }
    State s = S.init();
    const State def = s;   // topology+model realized, default parameters
    std::printf("OK | %d %d %d | ", S.matter.getNumBodies(), s.getNU(), int(S.b[b].getFirstUIndex(s))+w);
    while (ai < A.size()) {
        int op=(int)nx();
        if (op==1) {
            if (k=="MLS") { Real a=nx(), c=nx(); mls.setStiffness(s,a); mls.setQZero(s,c); }
            else if (k=="MLD") mld.setDamping(s,nx());
            else if (k=="MCF") mcf.setForce(s,nx());
            else { Real a=nx(), d=nx(), lo=nx(), hi=nx(); mst.setMaterialProperties(s,a,d); mst.setBounds(s,lo,hi); }
        } else if (op==2) { int i=(int)nx(); s.updQ()[i]=nx(); }
        else if (op==3) { int i=(int)nx(); s.updU()[i]=nx(); }
        else if (op==4) { if (nx()!=0) F.enable(s); else F.disable(s); }
        else if (op==5) {
            State f = def; f.updQ() = s.getQ(); f.updU() = s.getU();
            if (k=="MLS") { mls.setStiffness(f,mls.getStiffness(s)); mls.setQZero(f,mls.getQZero(s)); }
            else if (k=="MLD") mld.setDamping(f,mld.getDamping(s));
            else if (k=="MCF") mcf.setForce(f,mcf.getForce(s));
            else { mst.setMaterialProperties(f,mst.getStiffness(s),mst.getDissipation(s)); mst.setBounds(f,mst.getLowerBound(s),mst.getUpperBound(s)); }
            if (F.isDisabled(s)) F.disable(f);
            std::printf("R | "); report(S, s, f);
            if (k=="MLS") { pr(mls.getStiffness(s)); pr(mls.getQZero(s)); }
            else if (k=="MLD") pr(mld.getDamping(s));
            else if (k=="MCF") pr(mcf.getForce(s));
            else { pr(mst.getStiffness(s)); pr(mst.getDissipation(s)); pr(mst.getLowerBound(s)); pr(mst.getUpperBound(s)); }
            pr(F.isDisabled(s)?0.0:1.0); bar();
            const int jq=int(S.b[b].getFirstQIndex(s))+w, ju=int(S.b[b].getFirstUIndex(s))+w;
            pr(s.getQ()[jq]); pr(s.getU()[ju]); pr(s.getQDot()[jq]); std::printf("; ");
        } else throw std::runtime_error("bad op");
    }
    std::printf("\n");
}

static void runGR() {
    SysA S; Vec3 d=nv3(); Real g=nx(), z=nx(); bool ex[4]; ex[0]=true; for (int i=1;i<=3;++i) ex[i]=nx()!=0;
    Force::Gravity F(S.forces,S.matter,UnitVec3(d),g,z);
    for (int i=1;i<=3;++i) if (ex[i]) F.setDefaultBodyIsExcluded(S.b[i].getMobilizedBodyIndex(), true);
    State s = S.init(); const State def = s;
    std::printf("OK | %d %d 0 | ", S.matter.getNumBodies(), s.getNU());
    while (ai < A.size()) {
        int op=(int)nx();
        if (op==1) { Vec3 dd=nv3(); Real gg=nx(), zz=nx(); F.setDownDirection(s,UnitVec3(dd)); F.setMagnitude(s,gg); F.setZeroHeight(s,zz);
                     for (int i=1;i<=3;++i) F.setBodyIsExcluded(s,S.b[i].getMobilizedBodyIndex(),nx()!=0); }
        else if (op==2) { int i=(int)nx(); s.updQ()[i]=nx(); }
        else if (op==3) { int i=(int)nx(); s.updU()[i]=nx(); }
        else if (op==4) { if (nx()!=0) F.enable(s); else F.disable(s); }
        else if (op==6) { Vec3 v=nv3(); F.setGravityVector(s,v); }
        else if (op==7) { int i=(int)nx(); bool e=nx()!=0; F.setBodyIsExcluded(s,S.b[i].getMobilizedBodyIndex(),e); }
        else if (op==8) F.setMagnitude(s,nx());
        else if (op==9) F.setZeroHeight(s,nx());
        else if (op==10) { Vec3 v=nv3(); F.setDownDirection(s,UnitVec3(v)); }
        else if (op==5) {
            State f = def; f.updQ() = s.getQ(); f.updU() = s.getU();
            F.setDownDirection(f,F.getDownDirection(s)); F.setMagnitude(f,F.getMagnitude(s)); F.setZeroHeight(f,F.getZeroHeight(s));
            for (int i=1;i<=3;++i) F.setBodyIsExcluded(f,S.b[i].getMobilizedBodyIndex(),F.getBodyIsExcluded(s,S.b[i].getMobilizedBodyIndex()));
            if (F.isDisabled(s)) F.disable(f);
            std::printf("R | "); report(S, s, f);
            pr(Vec3(F.getDownDirection(s))); pr(F.getMagnitude(s)); pr(F.getZeroHeight(s));
            for (int i=1;i<=3;++i) pr(F.getBodyIsExcluded(s,S.b[i].getMobilizedBodyIndex())?1.0:0.0);
            pr(F.isDisabled(s)?0.0:1.0); bar();
            for (int i=0;i<4;++i) pr(S.b[i].getBodyTransform(s)); std::printf("; ");
        } else throw std::runtime_error("bad op");
    }
    std::printf("\n");
}

int main() {
    std::string line;
    while (std::getline(std::cin, line)) {
        std::istringstream is(line); std::string k; is >> k; if (k.empty()) continue;
        A.clear(); ai=0; std::string t; while (is >> t) A.push_back(std::strtod(t.c_str(), 0));
        try { if (k=="GR") runGR(); else runB(k); }
        catch (const std::exception& e) { std::string w=e.what(); for (auto& c : w) if (c=='\n') c=' '; std::printf("!exception %s\n", w.substr(0,300).c_str()); }
        std::fflush(stdout);
    }
    return 0;
}
