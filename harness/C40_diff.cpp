// C40 correspondence probe for SimTK::Differentiator (SimTKmath/src/Differentiator.cpp).
// One case per line:
//   <fn><op> <method> <acc> <accModel> <cbModel> <withfy0> <n> <m>  coef[m][1+4n]  y0[n]      (accModel, cbModel: for the model driver only)
//     fn  in S,G,J : user function wrapped as ScalarFunction / GradientFunction / JacobianFunction
//     op  in S,G,J : calcDerivative / calcGradient / calcJacobian
//     method in F,C,UF,UC,UU : ForwardDifference, CentralDifference, Unspecified with constructor default Forward/Central/Unspecified
//     acc : estimated accuracy passed to the function constructor (-1 = library default)
//     withfy0 : 1 = fast interface (caller supplies f(y0)), 0 = slow interface (the Differentiator evaluates it)
//   test function j:  v = c; for i: v = v + ((e*y_i + b)*y_i + a)*y_i; v = v + (d*y_i)*y_{(i+1) mod n}
//     coefficients per output j: c, then for each i: a b e d
// Output: "<estimates, parameter-major>| <arguments of every perturbed call of f>" (%a) or "EXC <msg>";
//         the command "Q" prints SignificantReal.
#include "SimTKmath.h"
#include <cstdio>
#include <cstdlib>
#include <iostream>
#include <sstream>
#include <string>
#include <vector>
using namespace SimTK;
static std::vector<std::string> tk; static size_t ti;
static double nf() { return std::strtod(tk.at(ti++).c_str(), 0); }
static int ni() { return std::atoi(tk.at(ti++).c_str()); }
struct Poly { int n, m; std::vector<double> co;   // m x (1+4n)
    double eval(int j, const double* y) const {
        const double* c = &co[j*(1+4*n)]; double v = c[0];
        for (int i = 0; i < n; ++i) { const double a=c[1+4*i], b=c[2+4*i], e=c[3+4*i], d=c[4+4*i];
            v = v + ((e*y[i] + b)*y[i] + a)*y[i]; v = v + (d*y[i])*y[(i+1)%n]; }
        return v; } };
static std::vector<std::vector<double> > calls;
struct SF : Differentiator::ScalarFunction { const Poly& p; SF(const Poly& p, Real acc) : Differentiator::ScalarFunction(acc), p(p) {}
    int f(Real x, Real& fx) const override { calls.push_back(std::vector<double>(1, x)); fx = p.eval(0, &x); return 0; } };
struct GF : Differentiator::GradientFunction { const Poly& p; GF(const Poly& p, Real acc) : Differentiator::GradientFunction(p.n, acc), p(p) {}
    int f(const Vector& y, Real& fy) const override { std::vector<double> a(p.n); for (int i=0;i<p.n;++i) a[i]=y[i]; calls.push_back(a); fy = p.eval(0, &a[0]); return 0; } };
struct JF : Differentiator::JacobianFunction { const Poly& p; JF(const Poly& p, Real acc) : Differentiator::JacobianFunction(p.m, p.n, acc), p(p) {}
    int f(const Vector& y, Vector& fy) const override { std::vector<double> a(p.n); for (int i=0;i<p.n;++i) a[i]=y[i]; calls.push_back(a);
        fy.resize(p.m); for (int j=0;j<p.m;++j) fy[j] = p.eval(j, &a[0]); return 0; } };
int main() {
    std::string line;
    while (std::getline(std::cin, line)) {
        std::istringstream is(line); tk.clear(); ti = 0; std::string t; while (is >> t) tk.push_back(t);
        if (tk.empty()) continue;
        if (tk[0] == "Q") { std::printf("%a\n", (double)SignificantReal); continue; }
        try {
            const std::string io = tk[ti++], ms = tk[ti++]; const Real acc = nf(); nf(); nf(); const int with = ni();
            Poly p; p.n = ni(); p.m = ni(); p.co.resize(p.m*(1+4*p.n)); for (size_t k=0;k<p.co.size();++k) p.co[k] = nf();
            std::vector<double> y0(p.n); for (int i=0;i<p.n;++i) y0[i] = nf();
            Differentiator::Method meth = ms=="F" ? Differentiator::ForwardDifference : ms=="C" ? Differentiator::CentralDifference : Differentiator::UnspecifiedMethod;
            Differentiator::Method def = ms=="UC" ? Differentiator::CentralDifference : ms=="UF" ? Differentiator::ForwardDifference : Differentiator::UnspecifiedMethod;
            SF sf(p, acc); GF gf(p, acc); JF jf(p, acc);
            const Differentiator::Function& fn = io[0]=='S' ? (const Differentiator::Function&)sf : io[0]=='G' ? (const Differentiator::Function&)gf : (const Differentiator::Function&)jf;
            Differentiator dd(fn, def);
            Vector y0v(p.n); for (int i=0;i<p.n;++i) y0v[i] = y0[i];
            Vector fy0v(p.m); for (int j=0;j<p.m;++j) fy0v[j] = p.eval(j, &y0[0]);
            calls.clear();
            std::vector<double> est;   // parameter-major: for i, for j
            if (io[1] == 'S') { Real d = 12345.678; /* sentinel: stays if the library never stores the result */ if (with) dd.calcDerivative(y0[0], fy0v[0], d, meth); else d = dd.calcDerivative(y0[0], meth); est.push_back(d); }
            else if (io[1] == 'G') { Vector g; if (with) dd.calcGradient(y0v, fy0v[0], g, meth); else g = dd.calcGradient(y0v, meth);
                for (int i=0;i<g.size();++i) est.push_back(g[i]); }
            else { Matrix J; if (with) dd.calcJacobian(y0v, fy0v, J, meth); else J = dd.calcJacobian(y0v, meth);
                for (int i=0;i<J.ncol();++i) for (int j=0;j<J.nrow();++j) est.push_back(J(j,i)); }
            for (size_t k=0;k<est.size();++k) std::printf("%a ", est[k]);
            std::printf("| ");
            for (size_t c = with ? 0 : 1; c < calls.size(); ++c) for (size_t k=0;k<calls[c].size();++k) std::printf("%a ", calls[c][k]);
            std::printf("\n");
        } catch (const std::exception& e) { std::string m = e.what(); for (size_t k=0;k<m.size();++k) if (m[k]=='\n') m[k]=' '; std::printf("EXC %s\n", m.substr(0,160).c_str()); }
    }
    return 0;
}
