// C40 failing-input search on the implementation: the property's own predicate.
//   For separable test functions f_j(y) = c_j + sum_i g_ji(y_i) with g in {affine, quadratic, cubic, a*exp(s t), a*sin(w t+p)}
//   every entry of the forward / central estimate must be within
//        truncation bound ( h/2 sup|g''|  resp.  h^2/6 sup|g'''|  on the sampled interval, h = AccFac*max(|y_i|,0.1) )
//      + rounding bound   ( 8 (n+6) eps * sum|terms| / h )
//   of the true partial derivative; exact up to the rounding bound for affine (both methods) and quadratic (central).
//   All nine function-kind x operation combinations, fast and slow interfaces.
// usage: C40_search <seed> <n>      prints "FAIL <key> ..." lines and "DONE <evaluations>"
#include "SimTKmath.h"
#include <cstdio>
#include <cstdlib>
#include <cmath>
#include <string>
#include <vector>
using namespace SimTK;
static unsigned long long S;
static double u01() { S ^= S << 13; S ^= S >> 7; S ^= S << 17; return (double)(S >> 11) / 9007199254740992.0; }
static double uni(double a, double b) { return a + (b - a) * u01(); }
static int irand(int a, int b) { int r = a + (int)(u01() * (b - a + 1)); return r > b ? b : r; }
static long nEval = 0; static int nFail = 0;
#include <map>
static std::map<std::string,int> perKey;
static void fail(const char* key, const std::string& msg) { ++nFail; if (perKey[key]++ < 3) std::printf("FAIL %s %s\n", key, msg.c_str()); }
struct Term { int kind; double a, b, e, s, p; };   // 0 affine a t; 1 quadratic a t + b t^2; 2 cubic a t + b t^2 + e t^3; 3 a exp(s t); 4 a sin(s t + p)
static double g (const Term& T, double t) { switch (T.kind) { case 0: return T.a*t; case 1: return (T.b*t+T.a)*t; case 2: return ((T.e*t+T.b)*t+T.a)*t; case 3: return T.a*std::exp(T.s*t); default: return T.a*std::sin(T.s*t+T.p);} }
static double g1(const Term& T, double t) { switch (T.kind) { case 0: return T.a; case 1: return 2*T.b*t+T.a; case 2: return (3*T.e*t+2*T.b)*t+T.a; case 3: return T.a*T.s*std::exp(T.s*t); default: return T.a*T.s*std::cos(T.s*t+T.p);} }
static double mag(const Term& T, double t) { double x = std::fabs(t); switch (T.kind) { case 0: return std::fabs(T.a)*x; case 1: return (std::fabs(T.b)*x+std::fabs(T.a))*x; case 2: return ((std::fabs(T.e)*x+std::fabs(T.b))*x+std::fabs(T.a))*x; case 3: return std::fabs(T.a)*std::exp(std::fabs(T.s)*x); default: return std::fabs(T.a)*(1+std::fabs(T.s)*x);} }  /* sin: argument rounding eps*|s t| */
static double sup2(const Term& T, double t, double h) { double x = std::fabs(t)+h; switch (T.kind) { case 0: return 0; case 1: return 2*std::fabs(T.b); case 2: return 2*std::fabs(T.b)+6*std::fabs(T.e)*x; case 3: return std::fabs(T.a)*T.s*T.s*std::exp(std::fabs(T.s)*x); default: return std::fabs(T.a)*T.s*T.s;} }
static double sup3(const Term& T, double t, double h) { double x = std::fabs(t)+h; switch (T.kind) { case 0: case 1: return 0; case 2: return 6*std::fabs(T.e); case 3: return std::fabs(T.a*T.s*T.s*T.s)*std::exp(std::fabs(T.s)*x); default: return std::fabs(T.a*T.s*T.s*T.s);} }
struct Fn { int n, m; std::vector<double> c; std::vector<Term> t;    // t[j*n+i]
    double eval(int j, const double* y) const { double v = c[j]; for (int i=0;i<n;++i) v += g(t[j*n+i], y[i]); return v; }
    double emag(int j, const double* y, double h) const { double v = std::fabs(c[j]); for (int i=0;i<n;++i) v += mag(t[j*n+i], std::fabs(y[i])+h); return v; } };
struct SF : Differentiator::ScalarFunction { const Fn& p; SF(const Fn& p, Real acc) : Differentiator::ScalarFunction(acc), p(p) {}
    int f(Real x, Real& fx) const override { fx = p.eval(0, &x); return 0; } };
struct GF : Differentiator::GradientFunction { const Fn& p; GF(const Fn& p, Real acc) : Differentiator::GradientFunction(p.n, acc), p(p) {}
    int f(const Vector& y, Real& fy) const override { std::vector<double> a(p.n); for (int i=0;i<p.n;++i) a[i]=y[i]; fy = p.eval(0, &a[0]); return 0; } };
struct JF : Differentiator::JacobianFunction { const Fn& p; JF(const Fn& p, Real acc) : Differentiator::JacobianFunction(p.m, p.n, acc), p(p) {}
    int f(const Vector& y, Vector& fy) const override { std::vector<double> a(p.n); for (int i=0;i<p.n;++i) a[i]=y[i];
        fy.resize(p.m); for (int j=0;j<p.m;++j) fy[j] = p.eval(j, &a[0]); return 0; } };
// one case: interface io, function F, point y0, method, fast/slow interface, accuracy given to the function (-1 = default)
static void runCase(const std::string& io, const Fn& F, const std::vector<double>& y0, int kind, bool central, bool with, double accIn, const char* phase) {
    const double acc = accIn < 0 ? (double)SignificantReal : accIn;
    const double fac = central ? std::cbrt(acc) : std::sqrt(acc);
    const Differentiator::Method meth = central ? Differentiator::CentralDifference : Differentiator::ForwardDifference;
    SF sf(F, accIn); GF gf(F, accIn); JF jf(F, accIn);
    const Differentiator::Function& fn = io[0]=='S' ? (const Differentiator::Function&)sf : io[0]=='G' ? (const Differentiator::Function&)gf : (const Differentiator::Function&)jf;
    std::vector<double> est;
    try {
        Differentiator dd(fn);
        Vector y0v(F.n); for (int i=0;i<F.n;++i) y0v[i]=y0[i];
        Vector fy0v(F.m); for (int j=0;j<F.m;++j) fy0v[j]=F.eval(j,&y0[0]);
        if (io[1]=='S') { Real d = NaN; if (with) dd.calcDerivative(y0[0], fy0v[0], d, meth); else d = dd.calcDerivative(y0[0], meth); est.push_back(d); }
        else if (io[1]=='G') { Vector g; if (with) dd.calcGradient(y0v, fy0v[0], g, meth); else g = dd.calcGradient(y0v, meth); for (int i=0;i<g.size();++i) est.push_back(g[i]); }
        else { Matrix J; if (with) dd.calcJacobian(y0v, fy0v, J, meth); else J = dd.calcJacobian(y0v, meth); for (int i=0;i<J.ncol();++i) for (int j=0;j<J.nrow();++j) est.push_back(J(j,i)); }
    } catch (const std::exception& e) {
        ++nEval; char b[300]; std::snprintf(b, 300, "%s n=%d m=%d threw: %.150s", io.c_str(), F.n, F.m, e.what()); for (char* q=b; *q; ++q) if (*q=='\n') *q=' ';
        fail(io=="JG" && F.n>1 ? "calcGradient-on-JacobianFunction-throws" : "throws", b); return; }
    if ((int)est.size() != F.n*F.m) { fail("shape", io + " wrong number of estimates"); return; }
    int k = 0;
    for (int i=0;i<F.n;++i) for (int j=0;j<F.m;++j, ++k) {
        const Term& T = F.t[j*F.n+i]; ++nEval;
        const double h = fac*std::max(std::fabs(y0[i]), 0.1);
        const double trunc = central ? h*h/6*sup3(T,y0[i],h) : h/2*sup2(T,y0[i],h);
        const double round = 8*(F.n+6)*2.3e-16*F.emag(j,&y0[0],h)/h;
        const double truth = g1(T, y0[i]);
        const double bound = 1.0001*trunc + round + 1e-300;
        if (!(std::fabs(est[k]-truth) <= bound)) {
            char b[500]; std::snprintf(b, 500, "%s %s %s %s kind=%d n=%d m=%d acc=%.3g entry(param %d, fn %d) y0_i=%.17g a=%.17g b=%.17g e=%.17g estimate=%.17g true=%.17g |err|=%.3g bound=%.3g (trunc %.3g + round %.3g)",
                phase, io.c_str(), central?"central":"forward", with?"fast":"slow", kind, F.n, F.m, accIn, i, j, y0[i], T.a, T.b, T.e, est[k], truth, std::fabs(est[k]-truth), bound, trunc, round);
            bool lost = false;     // the repaired defect (fix 9362a2af): the fast interface left the caller's variable untouched
            if (io=="GS"||io=="JS") { try { Differentiator d2(fn); Real d = 12345.678; d2.calcDerivative(y0[0], F.eval(0,&y0[0]), d, meth); lost = (d == 12345.678); } catch (...) {} }
            fail(lost ? "calcDerivative-on-vector-function-result-lost" : kind==0 ? "affine-not-exact" : (kind==1 && central) ? "quadratic-not-exact-central" : "error-bound", b); }
    }
}
static Fn makeFn(int n, int m, int kind) {
    Fn F; F.n = n; F.m = m;
    for (int j=0;j<m;++j) { F.c.push_back(uni(-2,2)); for (int i=0;i<n;++i) { Term T; T.kind=kind; T.a=uni(-2,2); T.b=uni(-2,2); T.e=uni(-2,2); T.s=uni(0.2,1.5)*(u01()<0.5?-1:1); T.p=uni(-3,3); F.t.push_back(T); } }
    return F;
}
int main(int argc, char** argv) {
    S = 88172645463325252ULL ^ (unsigned long long)std::atoll(argv[1]) * 2654435761ULL; for (int i=0;i<8;++i) u01();
    const int N = std::atoi(argv[2]);
    const char* ios[9] = {"SS","SG","SJ","GS","GG","GJ","JS","JG","JJ"};
    // ---- stratified sweep (always): every interface x sign x magnitude decade 1e-8..1e9 (and 0, +-0.1) x method x
    //      {affine, quadratic, cubic}; every parameter of the point has the chosen sign and magnitude
    for (int q = 0; q < 9; ++q) for (int sg = -1; sg <= 1; sg += 2) for (int dec = -10; dec <= 9; ++dec)
    for (int cen = 0; cen < 2; ++cen) for (int kind = 0; kind < 3; ++kind) {
        const std::string io = ios[q];
        const int n = (io[0]=='S' || io[1]=='S') ? 1 : irand(1,4), m = io=="JJ" ? irand(1,3) : 1;
        Fn F = makeFn(n, m, kind); std::vector<double> y0(n);
        for (int i=0;i<n;++i) y0[i] = dec == -10 ? 0.0 : dec == -9 ? sg*0.1 : sg*std::pow(10.0, dec + u01());      // dec -8..9: |y0| in [1e-8, 1e10)
        for (int i=0;i<n;++i) if (std::fabs(y0[i]) > 1e9) y0[i] = sg*1e9;
        runCase(io, F, y0, kind, cen==1, u01()<0.5, u01()<0.3 ? -1.0 : std::pow(10.0, uni(-12,-3)), "sweep");
    }
    // ---- random part
    for (int it = 0; it < N; ++it) {
        const std::string io = ios[irand(0,8)];
        const int n = (io[0]=='S' || io[1]=='S') ? 1 : irand(1,20), m = io=="JJ" ? irand(1,10) : 1;
        const int kind = irand(0,4);
        Fn F = makeFn(n, m, kind);
        std::vector<double> y0(n);
        for (int i=0;i<n;++i) { double c = u01();
            y0[i] = c<0.08 ? 0.0 : c<0.16 ? (u01()<0.5?0.1:-0.1) : c<0.40 ? uni(-3,3) : (u01()<0.5?-1:1)*std::pow(10.0, uni(-8,9));
            if (kind==3 && std::fabs(y0[i])>3) y0[i] = uni(-3,3); }
        runCase(io, F, y0, kind, u01() < 0.5, u01() < 0.5, u01() < 0.2 ? -1.0 : std::pow(10.0, uni(-12,-3)), "random");
    }
    std::printf("DONE %ld\n", nEval);
    return 0;
}
