// C41 correspondence probe: Function_<Real>::{Constant,Linear,Polynomial,Sinusoid,Step} (Function.h) and the raw
// stepAny family outside its asserted domain (compiled with -DNDEBUG like the release libraries, so the clamp is live).
// One case per input line, one output line per case: "<value> <derivative>" (%a) or "EXC".
//   K v n k d1..dk x1..xn          Constant(v, n)
//   L n c0..cn k d1..dk x1..xn     Linear(c)            (n arguments, n+1 coefficients)
//   P m c0..c(m-1) k x             Polynomial(c)        (m coefficients, decreasing powers), derivative order k
//   S a w p k t                    Sinusoid(a,w,p)
//   T y0 y1 x0 x1 k x              Step(y0,y1,x0,x1)
//   A y0 yr x0 oox x               stepAny, dstepAny, d2stepAny, d3stepAny  (4 outputs)
#include "SimTKcommon.h"
#include <cstdio>
#include <cstdlib>
#include <iostream>
#include <sstream>
#include <string>
#include <vector>
using namespace SimTK;
static std::vector<std::string> tk; static size_t ti;
static double nf() { return std::strtod(tk.at(ti++).c_str(), 0); }
static int ni() { return std::atoi(tk.at(ti++).c_str()); }
int main() {
    std::string line;
    while (std::getline(std::cin, line)) {
        std::istringstream is(line); tk.clear(); ti = 0; std::string t; while (is >> t) tk.push_back(t);
        if (tk.empty()) continue;
        try {
            const std::string kind = tk[ti++];
            if (kind == "K") {
                Real v = nf(); int n = ni(); int k = ni(); Array_<int> dc; for (int i=0;i<k;++i) dc.push_back(ni());
                Vector x(n); for (int i=0;i<n;++i) x[i] = nf();
                Function::Constant f(v, n);
                std::printf("%a %a\n", f.calcValue(x), f.calcDerivative(dc, x));
            } else if (kind == "L") {
                int n = ni(); Vector c(n+1); for (int i=0;i<=n;++i) c[i] = nf();
                int k = ni(); Array_<int> dc; for (int i=0;i<k;++i) dc.push_back(ni());
                Vector x(n); for (int i=0;i<n;++i) x[i] = nf();
                Function::Linear f(c);
                std::printf("%a %a\n", f.calcValue(x), f.calcDerivative(dc, x));
            } else if (kind == "P") {
                int m = ni(); Vector c(m); for (int i=0;i<m;++i) c[i] = nf();
                int k = ni(); Array_<int> dc(k, 0); Vector x(1); x[0] = nf();
                Function::Polynomial f(c);
                std::printf("%a %a\n", f.calcValue(x), f.calcDerivative(dc, x));
            } else if (kind == "S") {
                Real a = nf(), w = nf(), p = nf(); int k = ni(); Array_<int> dc(k, 0); Vector x(1); x[0] = nf();
                Function::Sinusoid f(a, w, p);
                std::printf("%a %a\n", f.calcValue(x), f.calcDerivative(dc, x));
            } else if (kind == "T") {
                Real y0 = nf(), y1 = nf(), x0 = nf(), x1 = nf(); int k = ni(); Array_<int> dc(k, 0); Vector x(1); x[0] = nf();
                Function::Step f(y0, y1, x0, x1);
                Real v = f.calcValue(x);
                std::string d;
                try { char b[64]; std::snprintf(b, 64, "%a", f.calcDerivative(dc, x)); d = b; }
                catch (const std::exception&) { d = "EXC"; }
                std::printf("%a %s\n", v, d.c_str());
            } else if (kind == "A") {
                Real y0 = nf(), yr = nf(), x0 = nf(), oox = nf(), x = nf();
                std::printf("%a %a %a %a\n", stepAny(y0,yr,x0,oox,x), dstepAny(yr,x0,oox,x), d2stepAny(yr,x0,oox,x), d3stepAny(yr,x0,oox,x));
            } else std::printf("?unknown\n");
        } catch (const std::exception& e) { std::printf("EXC\n"); }
    }
    return 0;
}
