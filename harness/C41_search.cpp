// C41 failing-input search on the implementation: the property's own predicates, evaluated by finite differences.
//   every reported derivative of order k is the derivative of the reported order k-1 (5-point stencil),
//   step end values, zero first/second derivative at the ends, monotonicity, Step object = end values outside.
// usage: C41_search <seed> <n>      prints "FAIL <key> ..." lines and "DONE <evaluations>"
#include "SimTKcommon.h"
#include <cstdio>
#include <cstdlib>
#include <cmath>
#include <functional>
#include <string>
using namespace SimTK;
static unsigned long long S;
static double u01() { S ^= S << 13; S ^= S >> 7; S ^= S << 17; return (double)(S >> 11) / 9007199254740992.0; }
static double uni(double a, double b) { return a + (b - a) * u01(); }
static int irand(int a, int b) { return a + (int)(u01() * (b - a + 1)) % (b - a + 1); }
static long nEval = 0; static int nFail = 0;
static void fail(const char* key, const std::string& msg) { if (nFail++ < 20) std::printf("FAIL %s %s\n", key, msg.c_str()); }
// 5-point central difference of g at x with step h
static double fd5(const std::function<double(double)>& g, double x, double h, double& scale) {
    double a = g(x-2*h), b = g(x-h), c = g(x+h), d = g(x+2*h);
    scale = std::max(std::max(std::fabs(a), std::fabs(b)), std::max(std::fabs(c), std::fabs(d)));
    return (a - 8*b + 8*c - d) / (12*h);
}
static void checkDeriv(const char* key, const std::function<double(double)>& lower, double reported, double x, double h,
                       const std::string& what, double extra = 0) {
    double sc; double est = fd5(lower, x, h, sc); ++nEval;
    double tol = 1e-6 * (1 + sc / h * 1e-3 + std::fabs(reported) + extra);
    if (!(std::fabs(est - reported) <= tol)) {
        char b[400]; std::snprintf(b, 400, "%s x=%.17g reported=%.17g finite-difference=%.17g tol=%.3g", what.c_str(), x, reported, est, tol);
        fail(key, b);
    }
}
int main(int argc, char** argv) {
    S = 88172645463325252ULL ^ (unsigned long long)std::atoll(argv[1]) * 2654435761ULL; for (int i=0;i<8;++i) u01();
    const int n = std::atoi(argv[2]);
    for (int it = 0; it < n; ++it) {
        // ---- stepUp / stepDown family on (0,1)
        { double x = uni(0.02, 0.98), h = 2e-3;
          checkDeriv("dstepUp", [](double t){return stepUp(t);}, dstepUp(x), x, h, "dstepUp vs d/dx stepUp");
          checkDeriv("d2stepUp", [](double t){return dstepUp(t);}, d2stepUp(x), x, h, "d2stepUp vs d/dx dstepUp");
          checkDeriv("d3stepUp", [](double t){return d2stepUp(t);}, d3stepUp(x), x, h, "d3stepUp vs d/dx d2stepUp");
          checkDeriv("dstepDown", [](double t){return stepDown(t);}, dstepDown(x), x, h, "dstepDown vs d/dx stepDown");
          checkDeriv("d2stepDown", [](double t){return dstepDown(t);}, d2stepDown(x), x, h, "d2stepDown vs d/dx dstepDown");
          checkDeriv("d3stepDown", [](double t){return d2stepDown(t);}, d3stepDown(x), x, h, "d3stepDown vs d/dx d2stepDown");
          double a = uni(0,1), b = uni(0,1); if (a > b) std::swap(a,b); ++nEval;
          if (stepUp(a) > stepUp(b) + 1e-15 || stepDown(a) < stepDown(b) - 1e-15) { char m[200]; std::snprintf(m,200,"not monotone a=%.17g b=%.17g", a, b); fail("monotone", m); }
        }
        // ---- stepAny family inside the transition
        { double y0 = uni(-3,3), yr = uni(-3,3), x0 = uni(-2,2), xr = uni(0.3,3) * (u01()<0.5?-1:1), oox = 1/xr;
          double xa = uni(0.05,0.95), x = x0 + xa*xr, h = 2e-3*std::fabs(xr);
          double ex = std::fabs(yr)*(1+std::fabs(oox)+oox*oox+std::fabs(oox*oox*oox))*60;
          checkDeriv("dstepAny", [&](double t){return stepAny(y0,yr,x0,oox,t);}, dstepAny(yr,x0,oox,x), x, h, "dstepAny vs d/dx stepAny", ex);
          checkDeriv("d2stepAny", [&](double t){return dstepAny(yr,x0,oox,t);}, d2stepAny(yr,x0,oox,x), x, h, "d2stepAny vs d/dx dstepAny", ex);
          checkDeriv("d3stepAny", [&](double t){return d2stepAny(yr,x0,oox,t);}, d3stepAny(yr,x0,oox,x), x, h, "d3stepAny vs d/dx d2stepAny", ex);
          ++nEval;
          double e0 = stepAny(y0,yr,x0,oox,x0), e1 = stepAny(y0,yr,x0,oox,x0+xr);
          if (std::fabs(e0-y0) > 1e-12*(1+std::fabs(y0)) || std::fabs(e1-(y0+yr)) > 1e-9*(1+std::fabs(y0)+std::fabs(yr)))
              { char m[200]; std::snprintf(m,200,"stepAny end values y0=%.17g yr=%.17g got %.17g %.17g", y0, yr, e0, e1); fail("stepAny_ends", m); }
        }
        // ---- Function::Polynomial
        { int m = irand(1,7); Vector c(m); for (int i=0;i<m;++i) c[i] = uni(-2,2);
          Function::Polynomial f(c); double x = uni(-2,2), h = 2e-3;
          for (int k = 1; k <= m+1; ++k) {
              Array_<int> dk(k,0), dkm(k-1,0);
              auto lower = [&](double t){ Vector xv(1,t); return k==1 ? f.calcValue(xv) : f.calcDerivative(dkm, xv); };
              Vector xv(1,x); char w[64]; std::snprintf(w,64,"Polynomial(%d coefs) order %d", m, k);
              checkDeriv("Polynomial", lower, f.calcDerivative(dk, xv), x, h, w, 1e3);
          }
        }
        // ---- Function::Sinusoid
        { double a = uni(-2,2), w = uni(0.3,3), p = uni(-3,3), x = uni(-2,2), h = 2e-3/w;
          Function::Sinusoid f(a,w,p);
          for (int k = 1; k <= 9; ++k) {
              Array_<int> dk(k,0), dkm(k-1,0);
              auto lower = [&](double t){ Vector xv(1,t); return k==1 ? f.calcValue(xv) : f.calcDerivative(dkm, xv); };
              Vector xv(1,x); char ww[64]; std::snprintf(ww,64,"Sinusoid order %d", k);
              checkDeriv("Sinusoid", lower, f.calcDerivative(dk, xv), x, h, ww, std::fabs(a)*std::pow(w,k));
          }
        }
        // ---- Function::Linear / Constant: partials
        { int nA = irand(1,5); Vector c(nA+1); for (int i=0;i<=nA;++i) c[i] = uni(-2,2);
          Vector x(nA); for (int i=0;i<nA;++i) x[i] = uni(-2,2);
          Function::Linear f(c); Function::Constant g(c[0], nA);
          for (int i = 0; i < nA; ++i) {
              Array_<int> d1(1,i);
              auto lower = [&](double t){ Vector y(x); y[i] = t; return f.calcValue(y); };
              checkDeriv("Linear", lower, f.calcDerivative(d1, x), x[i], 1e-2, "Linear first partial");
              auto lowerc = [&](double t){ Vector y(x); y[i] = t; return g.calcValue(y); };
              checkDeriv("Constant", lowerc, g.calcDerivative(d1, x), x[i], 1e-2, "Constant first partial");
              for (int j = 0; j < nA; ++j) { Array_<int> d2; d2.push_back(i); d2.push_back(j); ++nEval;
                  if (f.calcDerivative(d2, x) != 0 || g.calcDerivative(d2, x) != 0) fail("Linear2", "second partial of Linear/Constant not zero"); }
          }
        }
        // ---- Function::Step
        { double y0 = uni(-3,3), y1 = uni(-3,3), x0 = uni(-2,2), xr = uni(0.3,3) * (u01()<0.5?-1:1), x1 = x0 + xr;
          Function::Step f(y0,y1,x0,x1); Array_<int> d1(1,0), d2(2,0), d3(3,0);
          double ex = std::fabs(y1-y0)*(1+1/std::fabs(xr)+1/(xr*xr)+1/std::fabs(xr*xr*xr))*60;
          double xa = u01() < 0.7 ? uni(0.05,0.95) : (u01()<0.5 ? uni(-1,-0.05) : uni(1.05,2));
          double x = x0 + xa*xr, h = 2e-3*std::fabs(xr);
          auto v0 = [&](double t){ Vector xv(1,t); return f.calcValue(xv); };
          auto v1 = [&](double t){ Vector xv(1,t); return f.calcDerivative(d1,xv); };
          auto v2 = [&](double t){ Vector xv(1,t); return f.calcDerivative(d2,xv); };
          Vector xv(1,x);
          checkDeriv("Step1", v0, f.calcDerivative(d1,xv), x, h, "Step order 1", ex);
          checkDeriv("Step2", v1, f.calcDerivative(d2,xv), x, h, "Step order 2", ex);
          checkDeriv("Step3", v2, f.calcDerivative(d3,xv), x, h, "Step order 3", ex);
          ++nEval;
          Vector e0(1,x0), e1(1,x1), o0(1,x0-0.5*xr), o1(1,x1+0.5*xr);
          if (f.calcValue(e0) != y0 || f.calcValue(e1) != y1 || f.calcValue(o0) != y0 || f.calcValue(o1) != y1)
              fail("Step_ends", "Step value at/outside the ends is not the end value");
          if (std::fabs(f.calcDerivative(d1,e0)) + std::fabs(f.calcDerivative(d1,e1)) + std::fabs(f.calcDerivative(d2,e0)) + std::fabs(f.calcDerivative(d2,e1)) > 0)
              fail("Step_C2", "first/second derivative of Step not zero at the ends");
          // one-sided approach to the joints: first and second derivative tend to 0
          Vector n0(1,x0+1e-6*xr), n1(1,x1-1e-6*xr); ++nEval;
          if (std::fabs(f.calcDerivative(d1,n0)) + std::fabs(f.calcDerivative(d1,n1)) > 1e-9*(1+ex) ||
              std::fabs(f.calcDerivative(d2,n0)) + std::fabs(f.calcDerivative(d2,n1)) > 1e-3*(1+ex))
              fail("Step_C2", "first/second derivative of Step does not tend to zero at the ends");
          double a = x0 + uni(-0.5,1.5)*xr, b = x0 + uni(-0.5,1.5)*xr; if ((a-b)*xr > 0) std::swap(a,b);   // a before b in travel direction
          Vector av(1,a), bv(1,b); ++nEval;
          if ((f.calcValue(bv) - f.calcValue(av)) * (y1-y0) < -1e-12*(1+ex)) fail("Step_monotone", "Step not monotone from y0 to y1");
        }
    }
    std::printf("DONE %ld\n", nEval);
    return 0;
}
