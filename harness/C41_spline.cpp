// C41 spline correspondence probe: fit a Spline_<Real> with the implementation's SplineFitter, print the coefficients it
// produced (Spline_::getControlPointValues) and evaluate calcValue / calcDerivative for orders 0..degree+1.
// Input line:  <degree> <mode> <param> <n> x1..xn y1..yn <ne> t1..tne
//    mode 0 fitForSmoothingParameter(param) (param 0 = interpolating), 1 fitFromGCV, 2 fitFromErrorVariance(param), 3 fitFromDOF(param)
// Output line: c1..cn | v(t1,order 0) .. v(t1,order degree+1) v(t2,order 0) ...      (%a), or "EXC <msg>"
// Even-numbered arguments go through the Function_ interface (Vector / Array_<int> derivComponents), odd ones through
// calcValue(Real) / calcDerivative(int, Real).
#include "SimTKmath.h"
#include <cstdio>
#include <cstdlib>
#include <iostream>
#include <sstream>
#include <string>
#include <vector>
using namespace SimTK;
int main() {
    std::string line;
    while (std::getline(std::cin, line)) {
        std::istringstream is(line); std::vector<std::string> tk; std::string t; while (is >> t) tk.push_back(t);
        if (tk.empty()) continue;
        size_t ti = 0;
        auto nf = [&]() { return std::strtod(tk.at(ti++).c_str(), 0); };
        auto ni = [&]() { return std::atoi(tk.at(ti++).c_str()); };
        try {
            const int degree = ni(), mode = ni(); const Real param = nf(); const int n = ni();
            Vector x(n), y(n); for (int i=0;i<n;++i) x[i] = nf(); for (int i=0;i<n;++i) y[i] = nf();
            SplineFitter<Real> fit = mode==0 ? SplineFitter<Real>::fitForSmoothingParameter(degree, x, y, param)
                                   : mode==1 ? SplineFitter<Real>::fitFromGCV(degree, x, y)
                                   : mode==2 ? SplineFitter<Real>::fitFromErrorVariance(degree, x, y, param)
                                             : SplineFitter<Real>::fitFromDOF(degree, x, y, param);
            Spline f = fit.getSpline();
            const Vector& c = f.getControlPointValues(); const Vector& xs = f.getControlPointLocations();
            if (c.size() != n || xs.size() != n || f.getSplineDegree() != degree) { std::printf("EXC shape\n"); continue; }
            for (int i=0;i<n;++i) std::printf("%a ", c[i]);
            std::printf("| ");
            const int ne = ni();
            for (int e = 0; e < ne; ++e) { const Real tt = nf();
                for (int order = 0; order <= degree+1; ++order) {
                    Real v;
                    if (e % 2) v = order==0 ? f.calcValue(tt) : f.calcDerivative(order, tt);
                    else { Vector xv(1, tt); Array_<int> dc(order, 0); v = order==0 ? f.calcValue(xv) : f.calcDerivative(dc, xv); }
                    std::printf("%a ", v); } }
            std::printf("\n");
        } catch (const std::exception& e) { std::string m = e.what(); for (size_t k=0;k<m.size();++k) if (m[k]=='\n') m[k]=' '; std::printf("EXC %s\n", m.substr(0,160).c_str()); }
    }
    return 0;
}
