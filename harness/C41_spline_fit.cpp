// C41 spline FITTING certificates on the implementation (SplineFitter / GCVSPLUtil::gcvspl; the fitting is not modelled,
// these are predicates every correct fit must satisfy), degrees 1,3,5,7, run on every check run:
//  (i)   interpolating fit (smoothing parameter 0): the spline reproduces every control point to rounding (relative to the data scale);
//  (ii)  polynomial reproduction: data lying on a polynomial of degree < m = (degree+1)/2 (the null space of the m-th derivative
//        penalty of the natural smoothing spline) is reproduced at the knots and between them for ANY smoothing parameter and
//        by every fitting mode (fixed parameter, GCV, error variance, degrees of freedom);
//  (iii) consistency: refitting with fitForSmoothingParameter(reported getSmoothingParameter()) gives the same spline and the same
//        reported mean squared error / degrees of freedom; fitFromDOF(d) reports about d degrees of freedom;
//        a larger smoothing parameter never decreases the residual sum of squares.
// usage: C41_spline_fit <seed> <n>      prints "FAIL <key> ..." lines (with the complete input) and "DONE <evaluations>"
#include "SimTKmath.h"
#include <cstdio>
#include <cstdlib>
#include <cmath>
#include <map>
#include <string>
#include <vector>
#include <csetjmp>
#include <csignal>
#include <unistd.h>
using namespace SimTK;
// every fitter call is guarded by a 2 s alarm: a fit that does not return is itself a failure ("fit_never_returns")
static sigjmp_buf JB; static void onAlarm(int) { siglongjmp(JB, 1); }
static int hangs = 0;
struct Hang {};
template <class F> static SplineFitter<Real> guarded(F f) {
    if (sigsetjmp(JB, 1)) { ++hangs; throw Hang(); }
    alarm(2); SplineFitter<Real> r = f(); alarm(0); return r; }
#define FIT(expr) guarded([&]() { return expr; })
static unsigned long long S;
static double u01() { S ^= S << 13; S ^= S >> 7; S ^= S << 17; return (double)(S >> 11) / 9007199254740992.0; }
static double uni(double a, double b) { return a + (b - a) * u01(); }
static int irand(int a, int b) { int r = a + (int)(u01() * (b - a + 1)); return r > b ? b : r; }
static long nEval = 0; static std::map<std::string,int> perKey; static int verbose = 0;
static std::string dump(int degree, const Vector& x, const Vector& y) { std::string s; char b[64];
    std::snprintf(b,64,"degree=%d n=%d x=[", degree, x.size()); s += b;
    for (int i=0;i<x.size();++i) { std::snprintf(b,64,"%.17g%s", x[i], i+1<x.size()?",":""); s += b; } s += "] y=[";
    for (int i=0;i<y.size();++i) { std::snprintf(b,64,"%.17g%s", y[i], i+1<y.size()?",":""); s += b; } s += "]"; return s; }
static void fail(const char* key, const std::string& msg) { if (perKey[key]++ < 2) std::printf("FAIL %s %s\n", key, msg.c_str()); }
static double maxabs(const Vector& v) { double m = 0; for (int i=0;i<v.size();++i) m = std::max(m, std::fabs(v[i])); return m; }
int main(int argc, char** argv) {
    S = 88172645463325252ULL ^ (unsigned long long)std::atoll(argv[1]) * 2654435761ULL; for (int i=0;i<8;++i) u01();
    const int N = std::atoi(argv[2]); if (argc > 3) verbose = 1;
    std::signal(SIGALRM, onAlarm);
    double worst[4][3] = {{0}}; double worstMode[4][4] = {{0}};
    // fixed witness (found by this search, seed 1): 24 points on a cubic, degree 7, fitFromErrorVariance.  The optimum is "as smooth
    // as possible"; gcvspl_'s bracketing loop L60 doubles the parameter until the clamped value reaches 1/eps, which it cannot when el > 1.
    { const int n = 24; const double xs[n] = {-0.031037967822022505,0.42042902555494799,0.69805556491354881,1.0284356790240818,1.5770960930138627,1.8788498180401692,2.4177161803298461,2.5448570020490875,2.7701297764100938,2.9501473620995391,3.2534280215401639,3.8081377125241285,3.9082668938619087,4.011375504567015,4.1929896712379815,4.4540635751379822,4.6289714278471603,4.8935712246350267,5.0267285261828887,5.5706334150621508,5.7240365834740965,6.0575893587938472,6.4055180102665155,6.9107883362850471};
      const double ys[n] = {-105.32126822594708,-74.801177118513152,-59.401031858714838,-44.093444953579279,-25.072509971678382,-17.556182345401858,-8.375437259723741,-6.8776887198106351,-4.7430075986729392,-3.4551639490553585,-1.9673978204293829,-0.70949672435419953,-0.58854066910117231,-0.47375459904749828,-0.26543032186650761,0.14364494616358769,0.56160819803372863,1.5371892937335718,2.2305878784889299,6.9975770213928996,9.0390579051130651,14.790799062579479,23.007787491304093,39.749784545496873};
      Vector x(n), y(n); for (int i=0;i<n;++i) { x[i]=xs[i]; y[i]=ys[i]; }
      ++nEval;
      try { FIT(SplineFitter<Real>::fitFromErrorVariance(7, x, y, 11.09256954072189)); }
      catch (const Hang&) { fail("fit_never_returns", "witness: SplineFitter<Real>::fitFromErrorVariance(7, x, y, 11.09256954072189) did not return within 2 s: " + dump(7,x,y)); }
      catch (const std::exception&) {} }
    for (int it = 0; it < N; ++it) {
        const int di = it % 4, degree = 2*di+1, m = di+1;
        const int n = irand(degree+1, it % 3 == 0 ? degree+4 : 30);
        const bool uniform = u01() < 0.4;
        Vector x(n), y(n); double t = uni(-2,2);
        for (int i=0;i<n;++i) { x[i] = t; t += uniform ? 0.25 : uni(0.1,0.6); }
        char b[300];
        if (verbose && std::getenv("C41_TRACE")) { std::fprintf(stderr, "it %d degree %d n %d\n", it, degree, n); }
        try {
        // ---- (i) interpolation of random data
        { const double amp = std::pow(10.0, uni(-1,1)), w = uni(0.3,2);
          for (int i=0;i<n;++i) y[i] = amp*(std::sin(w*x[i]) + 0.3*uni(-1,1));
          Spline f = FIT(SplineFitter<Real>::fitForSmoothingParameter(degree, x, y, 0)).getSpline();
          double e = 0; int wi = 0; for (int i=0;i<n;++i) { double d = std::fabs(f.calcValue(x[i]) - y[i]); if (d > e) { e = d; wi = i; } }
          ++nEval; worst[di][0] = std::max(worst[di][0], e/maxabs(y));
          if (!(e <= 1e-8*maxabs(y))) { std::snprintf(b,300,"interpolating fit misses control point %d by %.6g (data scale %.3g): ", wi, e, maxabs(y)); fail("fit_interpolation", b + dump(degree,x,y)); }
          // (iii) monotone residual in p, refit consistency, DOF mode
          double prevRss = -1;
          for (int s = 0; s < 3; ++s) { const double p = std::pow(10.0, -3.0 + 2*s);
              SplineFitter<Real> fp = FIT(SplineFitter<Real>::fitForSmoothingParameter(degree, x, y, p)); Spline g = fp.getSpline();
              double rss = 0; for (int i=0;i<n;++i) rss += square(g.calcValue(x[i]) - y[i]);
              ++nEval; if (rss < prevRss*(1-1e-9) - 1e-12*square(maxabs(y))) { std::snprintf(b,300,"residual sum of squares decreased from %.9g to %.9g when the smoothing parameter grew to %g: ", prevRss, rss, p); fail("fit_residual_monotone", b + dump(degree,x,y)); }
              prevRss = rss; }
          if (n > degree+2) {
              const bool useGcv = u01()<0.5; const double dofT = uni(0.2,0.8)*(n-m);
              SplineFitter<Real> fg = useGcv ? FIT(SplineFitter<Real>::fitFromGCV(degree, x, y)) : FIT(SplineFitter<Real>::fitFromDOF(degree, x, y, dofT));
              const double p = fg.getSmoothingParameter();
              if (!useGcv) { ++nEval; if (!(std::fabs(fg.getDegreesOfFreedom() - dofT) <= 1e-3*(n-m))) { std::snprintf(b,300,"fitFromDOF(%.9g) reports %.9g degrees of freedom: ", dofT, fg.getDegreesOfFreedom()); fail("fit_dof_target", b + dump(degree,x,y)); } }
              if (p >= 0 && p < 1e30 && p == p) {
                  SplineFitter<Real> fr = FIT(SplineFitter<Real>::fitForSmoothingParameter(degree, x, y, p));
                  const Vector& c1 = fg.getSpline().getControlPointValues(); const Vector& c2 = fr.getSpline().getControlPointValues();
                  double e2 = 0; for (int i=0;i<n;++i) e2 = std::max(e2, std::fabs(c1[i]-c2[i]));
                  ++nEval; worst[di][2] = std::max(worst[di][2], e2/maxabs(c1));
                  if (!(e2 <= 1e-9*maxabs(c1))) { std::snprintf(b,300,"refit with the reported smoothing parameter %.17g differs in a coefficient by %.6g: ", p, e2); fail("fit_refit_consistency", b + dump(degree,x,y)); }
                  if (!(std::fabs(fg.getDegreesOfFreedom()-fr.getDegreesOfFreedom()) <= 1e-6*(1+std::fabs(fr.getDegreesOfFreedom())) &&
                        std::fabs(fg.getMeanSquaredError()-fr.getMeanSquaredError()) <= 1e-6*(1e-300+std::fabs(fr.getMeanSquaredError())) + 1e-12*square(maxabs(y))))
                      { std::snprintf(b,300,"refit with p=%.17g reports dof %.9g / mse %.9g, original %.9g / %.9g: ", p, fr.getDegreesOfFreedom(), fr.getMeanSquaredError(), fg.getDegreesOfFreedom(), fg.getMeanSquaredError()); fail("fit_reported_statistics", b + dump(degree,x,y)); }
              } } }
        // ---- (ii) reproduction of polynomials of degree < m, all modes, any smoothing parameter
        { std::vector<double> co(m); for (int k=0;k<m;++k) co[k] = uni(-2,2);
          auto P = [&](double tt) { double v = 0; for (int k=m-1;k>=0;--k) v = v*(tt - x[n/2]) + co[k]; return v; };
          for (int i=0;i<n;++i) y[i] = P(x[i]);
          const double sc = std::max(maxabs(y), 1e-3);
          for (int mode = 0; mode < 4; ++mode) {
              const double p = std::pow(10.0, uni(-4,1));
              if (mode >= 1 && n <= degree+2) continue;
              Spline f;
              if (verbose && std::getenv("C41_TRACE")) std::fprintf(stderr, "  poly mode %d p %g var %.17g %s\n", mode, p, 1e-3*sc*sc, mode==2 ? dump(degree,x,y).c_str() : "");
              if (mode >= 1 && hangs >= 2) continue;      // after two fits that never returned, stop spending 2 s per case on the other modes
              try { f = mode==0 ? FIT(SplineFitter<Real>::fitForSmoothingParameter(degree, x, y, p)).getSpline()
                      : mode==1 ? FIT(SplineFitter<Real>::fitFromGCV(degree, x, y)).getSpline()
                      : mode==2 ? FIT(SplineFitter<Real>::fitFromErrorVariance(degree, x, y, 1e-3*sc*sc)).getSpline()
                                : FIT(SplineFitter<Real>::fitFromDOF(degree, x, y, 0.5*(n-m))).getSpline(); }
              catch (const Hang&) { std::snprintf(b,300,"mode %d (1 fitFromGCV, 2 fitFromErrorVariance(%.17g), 3 fitFromDOF(%.17g)) did not return within 2 s: ", mode, 1e-3*sc*sc, 0.5*(n-m)); fail("fit_never_returns", b + dump(degree,x,y)); continue; }
              catch (const std::exception&) { continue; }
              double e = 0, wt = 0;
              for (int i=0;i<n-1;++i) for (int s=0;s<3;++s) { const double tt = x[i] + 0.5*s*(x[i+1]-x[i]); const double d = std::fabs(f.calcValue(tt) - P(tt)); if (d > e) { e = d; wt = tt; } }
              ++nEval; if (mode==0) worst[di][1] = std::max(worst[di][1], e/sc); worstMode[di][mode] = std::max(worstMode[di][mode], e/sc);
              // fixed parameter (1e-4..10), GCV and DOF modes: rounding level (measured worst 2e-8, 2e-15, 1e-14).  The error-variance mode
              // drives the parameter to its upper clamp 1/(el*1e-15) on exact data, where the linear system is ill conditioned
              // (measured worst 1.3e-2 of the data scale): only a loose tolerance is justified there.
              if (!(e <= (mode==0 ? 1e-6 : mode==2 ? 5e-2 : 1e-8)*sc)) { std::snprintf(b,300,"mode %d (0 fixed p=%g, 1 GCV, 2 error variance, 3 DOF): data on a polynomial of degree %d is off by %.6g at x=%.17g (scale %.3g): ", mode, p, m-1, e, wt, sc); fail("fit_polynomial_reproduction", b + dump(degree,x,y)); }
          } }
        } catch (const Hang&) { fail("fit_never_returns", "a fit on random data did not return within 2 s: " + dump(degree,x,y));
        } catch (const std::exception& e) { std::string msg = e.what(); for (size_t k=0;k<msg.size();++k) if (msg[k]=='\n') msg[k]=' '; fail("fit_throws", msg.substr(0,200) + ": " + dump(degree,x,y)); }
    }
    if (verbose) for (int d=0;d<4;++d) std::printf("INFO degree %d polynomial reproduction worst by mode: %.3g %.3g %.3g %.3g\n", 2*d+1, worstMode[d][0], worstMode[d][1], worstMode[d][2], worstMode[d][3]);
    if (verbose) for (int d=0;d<4;++d) std::printf("INFO degree %d worst: interpolation %.3g, polynomial(fixed p) %.3g, refit %.3g\n", 2*d+1, worst[d][0], worst[d][1], worst[d][2]);
    std::printf("DONE %ld\n", nEval);
    return 0;
}
