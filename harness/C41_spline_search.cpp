// C41 spline failing-input search on the implementation (property predicates, no model involved):
//   (a) interpolating splines (smoothing parameter 0) pass through every control point;
//   (b) for every order k < degree+1 the order-(k+1) output is the derivative of the order-k output inside knot intervals
//       (5-point central difference, tolerance scaled to h and the size of the spline's derivatives);
//   (c) derivatives of order 0..degree-1 are continuous across interior knots; order > degree gives 0.
// Splines of degree 1,3,5,7 fitted by SplineFitter to random data on uniform and random knots, interpolating and smoothing.
// usage: C41_spline_search <seed> <n>      prints "FAIL <key> ..." lines and "DONE <evaluations>"
#include "SimTKmath.h"
#include <cstdio>
#include <cstdlib>
#include <cmath>
#include <map>
#include <string>
#include <vector>
using namespace SimTK;
static unsigned long long S;
static double u01() { S ^= S << 13; S ^= S >> 7; S ^= S << 17; return (double)(S >> 11) / 9007199254740992.0; }
static double uni(double a, double b) { return a + (b - a) * u01(); }
static int irand(int a, int b) { int r = a + (int)(u01() * (b - a + 1)); return r > b ? b : r; }
static long nEval = 0; static std::map<std::string,int> perKey;
static void fail(const char* key, const char* msg) { if (perKey[key]++ < 3) std::printf("FAIL %s %s\n", key, msg); }
static double D(const Spline& f, int k, double t) { return k == 0 ? f.calcValue(t) : f.calcDerivative(k, t); }
int main(int argc, char** argv) {
    S = 88172645463325252ULL ^ (unsigned long long)std::atoll(argv[1]) * 2654435761ULL; for (int i=0;i<8;++i) u01();
    const int N = std::atoi(argv[2]);
    for (int it = 0; it < N; ++it) {
        const int degree = 2*irand(0,3)+1; const int n = irand(degree+3, 40);
        const bool uniform = u01() < 0.4; const int mode = irand(0,2);       // 0 interpolating, 1 fixed smoothing, 2 GCV
        Vector x(n), y(n); double t = uni(-2,2); const double amp = std::pow(10.0, uni(-1,1)), w = uni(0.3,2);
        for (int i=0;i<n;++i) { x[i] = t; y[i] = amp*(std::sin(w*t) + 0.3*uni(-1,1)); t += uniform ? 0.25 : uni(0.1,0.6); }
        Spline f;
        try { f = mode==0 ? SplineFitter<Real>::fitForSmoothingParameter(degree, x, y, 0).getSpline()
                : mode==1 ? SplineFitter<Real>::fitForSmoothingParameter(degree, x, y, std::pow(10.0, uni(-4,0))).getSpline()
                          : SplineFitter<Real>::fitFromGCV(degree, x, y).getSpline(); }
        catch (const std::exception& e) { continue; }
        char b[400];
        // (a)
        if (mode == 0) for (int i=0;i<n;++i) { ++nEval;
            if (!(std::fabs(f.calcValue(x[i]) - y[i]) <= 1e-8*(amp+1))) { std::snprintf(b,400,"degree %d n=%d: value at control point %d is %.17g, data %.17g", degree, n, i, f.calcValue(x[i]), y[i]); fail("spline_interpolation", b); } }
        // global size of each derivative order (for rounding-level tolerances)
        std::vector<double> G(degree+3, 0.0);
        for (int i=0;i<n-1;++i) for (int s=1;s<4;++s) for (int k=0;k<=degree+1;++k) G[k] = std::max(G[k], std::fabs(D(f,k,x[i]+0.25*s*(x[i+1]-x[i]))));
        // (b) inside intervals
        for (int rep = 0; rep < 6; ++rep) { const int i = irand(0,n-2); const double sp = x[i+1]-x[i], h = 2e-3*sp, te = x[i] + uni(0.05,0.95)*sp;
            if (te-2.5*h <= x[i] || te+2.5*h >= x[i+1]) continue;
            for (int k = 0; k <= degree; ++k) { ++nEval;
                const double a=D(f,k,te-2*h), bb=D(f,k,te-h), c=D(f,k,te+h), d=D(f,k,te+2*h);
                const double fd = (a-8*bb+8*c-d)/(12*h), rep1 = D(f,k+1,te);
                const double tol = 1e-6*(std::fabs(fd)+std::fabs(rep1)) + 1e-7*G[k+1] + 1e-10*G[k]/h;
                if (!(std::fabs(fd-rep1) <= tol)) { std::snprintf(b,400,"degree %d n=%d %s mode %d: derivative order %d at x=%.17g (interval %d) is %.12g but differencing order %d gives %.12g (tol %.3g)", degree, n, uniform?"uniform":"random", mode, k+1, te, i, rep1, k, fd, tol); fail("spline_derivative", b); } } }
        // (c) continuity across interior knots, zero above the degree
        for (int rep = 0; rep < 4; ++rep) { const int i = irand(1,n-2); const double sp = std::min(x[i]-x[i-1], x[i+1]-x[i]), del = 1e-7*sp;
            for (int k = 0; k <= degree-1; ++k) { ++nEval;
                const double r = D(f,k,x[i]), l = D(f,k,x[i]-del);
                const double tol = 1e-5*(std::fabs(r) + sp*std::fabs(D(f,k+1,x[i])) + sp*std::fabs(D(f,k+1,x[i]-del))) + 1e-8*G[k];
                if (!(std::fabs(r-l) <= tol)) { std::snprintf(b,400,"degree %d n=%d: derivative order %d jumps at knot %d: left %.12g right %.12g (tol %.3g)", degree, n, k, i, l, r, tol); fail("spline_continuity", b); } }
            ++nEval; if (D(f,degree+1,x[i]+0.3*sp) != 0 || D(f,degree+2,x[i]) != 0) fail("spline_order_above_degree", "derivative of order > degree is not zero"); }
    }
    std::printf("DONE %ld\n", nEval);
    return 0;
}
