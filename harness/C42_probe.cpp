// C42 probe: runs the real SimTK::MultibodyGraphMaker on cases read from stdin (one per line) and prints,
// per case, the generated graph in the canonical text form the extracted Coq model prints too, followed by
// " # " and the verdict of the property's own predicates evaluated on the implementation's result.
//
// case line (all integers):  nt (dof loopOk)*nt   nbod (mass mustBeBase)*nbod   nj (type parent child mustBeLoop)*nj
//   joint types: 0 = weld, 1 = free, 2.. = the nt user types; body 0 = Ground, bodies 1..nbod
// result: "OK nb | nJ (ty par chi loop added)* | nM (joint level inb outb rev)* | nC (joint par chi type)* | nS (master)* | levels"
//      or "ERR <KIND> <index>"
// verdict: "P ok" or "P <tag> <tag> ..." (tags: see check())
#include <string>
#include <vector>
#include <map>
#include <set>
#include <sstream>
#include <iostream>
#include <cstdio>
#include <cstring>
#include <stdexcept>
#define private public
#include "simmath/MultibodyGraphMaker.h"
#undef private
using namespace SimTK;
typedef MultibodyGraphMaker G;

static std::string tname(int t) { return t==0 ? "weld" : t==1 ? "free" : "t"+std::to_string(t); }
static std::string bname(int b) { return "b"+std::to_string(b); }

struct Case { std::vector<int> tdof, tloop, mass, base, jty, jpar, jchi, jloop; };

static int bodyIndexIn(const std::string& w, const char* before) {
    // body names are b<k>; find "body b<k>" or "(b<k>)"
    size_t p = w.find(before); if (p == std::string::npos) return -1;
    p += std::strlen(before);
    return std::atoi(w.c_str()+p+1);
}

static std::string run(const Case& c, G& g, bool& ok) {
    ok = false;
    std::ostringstream o;
    int stage = 0, idx = 0;
    try {
        for (size_t t=0; t<c.tdof.size(); ++t) { idx = 2+(int)t; g.addJointType(tname(2+(int)t), c.tdof[t], c.tloop[t]!=0); }
        stage = 1;
        g.addBody(bname(0), 0, false);
        for (size_t b=0; b<c.mass.size(); ++b) { idx = 1+(int)b; g.addBody(bname(1+(int)b), (double)c.mass[b], c.base[b]!=0); }
        stage = 2;
        for (size_t j=0; j<c.jty.size(); ++j) { idx = (int)j;
            g.addJoint("j"+std::to_string(j), tname(c.jty[j]), bname(c.jpar[j]), bname(c.jchi[j]), c.jloop[j]!=0); }
        stage = 3;
        g.generateGraph();
    } catch (const std::exception& e) {
        std::string w = e.what();
        if (stage==0 && w.find("Illegal number of mobilities")!=std::string::npos) o << "ERR BADDOF " << idx;
        else if (stage==1 && w.find("negative mass")!=std::string::npos) o << "ERR NEGMASS " << idx;
        else if (stage==2 && w.find("unrecognized joint type")!=std::string::npos) o << "ERR BADTYPE " << idx;
        else if (stage==2 && w.find("unrecognized parent body")!=std::string::npos) o << "ERR BADPARENT " << idx;
        else if (stage==2 && w.find("unrecognized child body")!=std::string::npos) o << "ERR BADCHILD " << idx;
        else if (stage==3 && w.find("massless but free")!=std::string::npos) o << "ERR MASSLESSFREE " << bodyIndexIn(w, "body ");
        else if (stage==3 && w.find("massless but not internal")!=std::string::npos) o << "ERR MASSLESSDANGLING " << bodyIndexIn(w, "body ");
        else if (stage==3 && w.find("terminal massless body")!=std::string::npos) o << "ERR TERMINALMASSLESS " << bodyIndexIn(w, "body (");
        else o << "ERR OTHER stage=" << stage << " " << w;
        return o.str();
    }
    ok = true;
    const int nb = 1+(int)c.mass.size();
    o << "OK " << nb << " | " << g.getNumJoints();
    for (int j=0; j<g.getNumJoints(); ++j) { const G::Joint& jt = g.getJoint(j);
        o << " " << jt.jointTypeNum << " " << jt.parentBodyNum << " " << jt.childBodyNum << " " << (jt.mustBeLoopJoint?1:0) << " " << (jt.isAddedBaseJoint?1:0); }
    o << " | " << g.getNumMobilizers();
    for (int m=0; m<g.getNumMobilizers(); ++m) { const G::Mobilizer& mo = g.getMobilizer(m);
        o << " " << mo.joint << " " << mo.level << " " << mo.inboardBody << " " << mo.outboardBody << " " << (mo.isReversed?1:0); }
    o << " | " << g.getNumLoopConstraints();
    for (int k=0; k<g.getNumLoopConstraints(); ++k) { const G::LoopConstraint& lc = g.getLoopConstraint(k);
        o << " " << lc.joint << " " << lc.parentBody << " " << lc.childBody << " " << g.getJointTypeNum(lc.type); }
    o << " | " << (g.getNumBodies()-nb);
    for (int b=nb; b<g.getNumBodies(); ++b) o << " " << g.getBody(b).master;
    o << " |";
    for (int b=0; b<nb; ++b) o << " " << g.getBody(b).level;
    return o.str();
}

// The property's own predicates, evaluated on the implementation's data structures after a successful generateGraph().
static std::string check(const Case& c, const G& g) {
    std::set<std::string> bad;
    const int nb = 1+(int)c.mass.size(), nIn = (int)c.jty.size();
    const int nM = g.getNumMobilizers();
    std::vector<int> asOut(g.getNumBodies(), 0);
    for (int m=0; m<nM; ++m) { const G::Mobilizer& mo = g.getMobilizer(m);
        if (mo.outboardBody < 0 || mo.outboardBody >= g.getNumBodies() || mo.inboardBody < 0 || mo.inboardBody >= g.getNumBodies()
            || mo.joint < 0 || mo.joint >= g.getNumJoints()) { bad.insert("index-out-of-range"); continue; }
        asOut[mo.outboardBody]++;
        if (mo.inboardBody != 0) { bool found=false; for (int k=0; k<m; ++k) if (g.getMobilizer(k).outboardBody==mo.inboardBody) found=true;
            if (!found) bad.insert("inboard-not-earlier"); }
        if (mo.level != g.getBody(mo.inboardBody).level+1) bad.insert("level-mismatch");
        if (mo.level != g.getBody(mo.outboardBody).level) bad.insert("level-mismatch");
        if (mo.outboardBody == 0) bad.insert("ground-outboard");
        if (g.getBody(mo.outboardBody).mobilizer != m) bad.insert("body.mobilizer-mismatch");
        const G::Joint& jt = g.getJoint(mo.joint);
        const G::Body& ob = g.getBody(mo.outboardBody);
        const int outMaster = ob.isSlave() ? ob.master : mo.outboardBody;
        if (!mo.isReversed) { if (!(jt.parentBodyNum==mo.inboardBody && jt.childBodyNum==outMaster)) bad.insert("joint-bodies-mismatch"); }
        else                { if (!(jt.childBodyNum==mo.inboardBody && jt.parentBodyNum==outMaster)) bad.insert("joint-bodies-mismatch"); }
        if (jt.mustBeLoopJoint && !ob.isSlave()) bad.insert("mustBeLoop-in-tree");
        if (jt.mobilizer != m) bad.insert("joint.mobilizer-mismatch");
    }
    for (int b=1; b<g.getNumBodies(); ++b) if (asOut[b] != 1) bad.insert("body-not-mobilized-once");
    if (asOut[0] != 0) bad.insert("ground-outboard");
    for (int j=0; j<g.getNumJoints(); ++j) {
        int cnt=0, lc=0;
        for (int m=0; m<nM; ++m) if (g.getMobilizer(m).joint==j) cnt++;
        for (int k=0; k<g.getNumLoopConstraints(); ++k) if (g.getLoopConstraint(k).joint==j) {
            lc++; const G::LoopConstraint& L = g.getLoopConstraint(k);
            if (L.parentBody != g.getJoint(j).parentBodyNum || L.childBody != g.getJoint(j).childBodyNum) bad.insert("constraint-bodies-mismatch"); }
        if (cnt+lc != 1) bad.insert("joint-not-used-once");
        if (j >= nIn) { const G::Joint& jt = g.getJoint(j);
            if (!jt.isAddedBaseJoint || jt.parentBodyNum != 0 || jt.jointTypeNum != 1 || jt.mustBeLoopJoint) bad.insert("added-joint-not-a-base-joint"); }
    }
    // slaves
    for (int b=nb; b<g.getNumBodies(); ++b) { const G::Body& bd = g.getBody(b);
        if (!bd.isSlave() || bd.master < 0 || bd.master >= nb) { bad.insert("slave-master-invalid"); continue; }   // master may be Ground (joint whose child is Ground)
        if (bd.mobilizer < 0 || bd.mobilizer >= nM || g.getJoint(g.getMobilizer(bd.mobilizer).joint).childBodyNum != bd.master) bad.insert("slave-joint-child-is-not-master");
        const G::Body& ms = g.getBody(bd.master); bool in=false; for (int sl : ms.slaves) if (sl==b) in=true;
        if (!in) bad.insert("slave-not-listed-by-master"); }
    for (int b=0; b<nb; ++b) if (g.getBody(b).isSlave()) bad.insert("input-body-is-slave");
    // no terminal massless mobile body
    for (int b=1; b<nb; ++b) { const G::Body& bd = g.getBody(b); if (c.mass[b-1] != 0) continue;
        if (bd.mobilizer < 0 || bd.mobilizer >= nM) continue;
        const G::Mobilizer& mo = g.getMobilizer(bd.mobilizer);
        if (g.getJointType(g.getJoint(mo.joint).jointTypeNum).numMobilities == 0) continue;
        bool hasChild=false; for (int k=0; k<nM; ++k) if (g.getMobilizer(k).inboardBody==b && !g.getBody(g.getMobilizer(k).outboardBody).isSlave()) hasChild=true;
        if (!hasChild) bad.insert("terminal-massless-mobile"); }
    // must-be-base, classified (DESIGN 7.19)
    for (int b=1; b<nb; ++b) { if (!c.base[b-1]) continue; const G::Body& bd = g.getBody(b);
        if (bd.level == 1) continue;
        bool anyGround=false, anyTreeEligible=false;
        for (int j=0; j<g.getNumJoints(); ++j) { const G::Joint& jt = g.getJoint(j);
            bool gj = (jt.parentBodyNum==0 && jt.childBodyNum==b) || (jt.parentBodyNum==b && jt.childBodyNum==0);
            if (gj) { anyGround=true; if (!jt.mustBeLoopJoint) anyTreeEligible=true; } }
        if (anyGround && !anyTreeEligible) { bad.insert("mustBeBase-only-loop-joint-to-ground"); continue; }
        bool viaMassless = false;
        if (bd.mobilizer >= 0 && bd.mobilizer < nM) { const int inb = g.getMobilizer(bd.mobilizer).inboardBody;
            if (inb >= 1 && inb < nb && c.mass[inb-1] == 0) viaMassless = true; }
        if (viaMassless) bad.insert("mustBeBase-outboard-of-massless-chain");
        else bad.insert("mustBeBase-other"); }
    if (bad.empty()) return "P ok";
    std::string s = "P"; for (const std::string& t : bad) s += " " + t; return s;
}

int main(int argc, char** argv) {
    std::ios::sync_with_stdio(false);
    std::string line; std::string out; out.reserve(1<<20);
    while (std::getline(std::cin, line)) {
        if (line.empty()) continue;
        std::istringstream in(line); Case c; int nt, nbod, nj;
        in >> nt; c.tdof.resize(nt); c.tloop.resize(nt); for (int i=0;i<nt;++i) in >> c.tdof[i] >> c.tloop[i];
        in >> nbod; c.mass.resize(nbod); c.base.resize(nbod); for (int i=0;i<nbod;++i) in >> c.mass[i] >> c.base[i];
        in >> nj; c.jty.resize(nj); c.jpar.resize(nj); c.jchi.resize(nj); c.jloop.resize(nj);
        for (int i=0;i<nj;++i) in >> c.jty[i] >> c.jpar[i] >> c.jchi[i] >> c.jloop[i];
        if (!in) { out += "ERR PARSE 0 # P ok\n"; continue; }
        G g; bool ok;
        out += run(c, g, ok);
        out += " # "; out += ok ? check(c, g) : std::string("P ok"); out += "\n";
        if (out.size() > (1<<19)) { fputs(out.c_str(), stdout); out.clear(); }
    }
    fputs(out.c_str(), stdout);
    return 0;
}
