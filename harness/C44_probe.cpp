// C44 probe: PGSImpulseSolver::solve / PLUSImpulseSolver::solve on an impulse subproblem given on stdin.
// One case per line (numbers as %a or decimal), one output line per case:
//   <PGS|PLUS> maxIters tol m  A[m*m row-major]  D[m]  verrStart[m]  verrApplied[m]  piExpand[m]
//        nPart part...  nExp exp...
//        nU { k rows... }*                      unconditional constraints
//        nC { type Nk sign nF Fk... mu }*       unilateral contacts (type 0 Observing, 1 Known, 2 Participating)
//        nB { ix lb ub }*                       bounded
//        nS { nF Fk... knownN mu }*             state-limited friction
//        nL { nF Fk... nN Nk... mu }*           constraint-limited friction
//   <PGSB|PLUSB> maxIters tol m A[m*m] nD D[nD] rhs[m] nPart part...      solveBilateral (nD = 0: empty D vector; part in any order)
//        -> "OK returned | pi[m]"
// Output: "OK converged | pi[m] | verrStart_after[m] | contactCond[nC] | frictionCond[nC] | boundedCond[nB] | stateFricCond[nS] | consFricCond[nL]"
#include "Simbody.h"
#include "simbody/internal/ImpulseSolver.h"
#include "simbody/internal/PGSImpulseSolver.h"
#include "simbody/internal/PLUSImpulseSolver.h"
#include <cstdio>
#include <cstdlib>
#include <iostream>
#include <sstream>
#include <string>
#include <vector>
using namespace SimTK;
static std::vector<std::string> tk; static size_t ti;
static double nf() { return std::strtod(tk.at(ti++).c_str(), 0); }
static int ni() { return std::atoi(tk.at(ti++).c_str()); }

int main() {
    std::string line;
    while (std::getline(std::cin, line)) {
        std::istringstream is(line); tk.clear(); ti = 0; std::string t; while (is >> t) tk.push_back(t);
        if (tk.empty()) continue;
        try {
            const std::string kind = tk[ti++];
            const int maxIters = ni(); const Real tol = nf(); const int m = ni();
            Matrix A(m, m); for (int i=0;i<m;++i) for (int j=0;j<m;++j) A(i,j) = nf();
            if (kind == "PGSB" || kind == "PLUSB") {
                const int nD = ni(); Vector Db(nD); for (int i=0;i<nD;++i) Db[i] = nf();
                Vector rhsb(m), pib; for (int i=0;i<m;++i) rhsb[i] = nf();
                Array_<MultiplierIndex> partb; int npb = ni(); for (int i=0;i<npb;++i) partb.push_back(MultiplierIndex(ni()));
                bool ret;
                if (kind == "PGSB") { PGSImpulseSolver s(1e-3); s.setMaxIterations(maxIters); s.setConvergenceTol(tol); ret = s.solveBilateral(partb, A, Db, rhsb, pib); }
                else { PLUSImpulseSolver s(1e-3); ret = s.solveBilateral(partb, A, Db, rhsb, pib); }
                std::printf("OK %d |", ret ? 1 : 0);
                for (int i=0;i<m;++i) std::printf(" %a", pib[i]);
                std::printf("\n"); std::fflush(stdout);
                continue;
            }
            Vector D(m), verrStart(m), verrApplied(m), piExpand(m), pi;
            for (int i=0;i<m;++i) D[i] = nf();
            for (int i=0;i<m;++i) verrStart[i] = nf();
            for (int i=0;i<m;++i) verrApplied[i] = nf();
            for (int i=0;i<m;++i) piExpand[i] = nf();
            Array_<MultiplierIndex> participating, expanding;
            int np = ni(); for (int i=0;i<np;++i) participating.push_back(MultiplierIndex(ni()));
            int nx = ni(); for (int i=0;i<nx;++i) expanding.push_back(MultiplierIndex(ni()));
            Array_<ImpulseSolver::UncondRT> uncond; Array_<ImpulseSolver::UniContactRT> uni; Array_<ImpulseSolver::UniSpeedRT> uniSpeed;
            Array_<ImpulseSolver::BoundedRT> bounded; Array_<ImpulseSolver::ConstraintLtdFrictionRT> consLtd;
            Array_<ImpulseSolver::StateLtdFrictionRT> stateLtd;
            int nU = ni();
            for (int k=0;k<nU;++k) { ImpulseSolver::UncondRT rt; int c = ni(); for (int i=0;i<c;++i) rt.m_mults.push_back(MultiplierIndex(ni())); uncond.push_back(rt); }
            int nC = ni();
            for (int k=0;k<nC;++k) {
                ImpulseSolver::UniContactRT rt; int ty = ni();
                rt.m_type = ty==0 ? ImpulseSolver::Observing : ty==1 ? ImpulseSolver::Known : ImpulseSolver::Participating;
                rt.m_Nk = MultiplierIndex(ni()); rt.m_sign = nf();
                int c = ni(); for (int i=0;i<c;++i) rt.m_Fk.push_back(MultiplierIndex(ni()));
                rt.m_effMu = nf(); rt.m_effCOR = 0; uni.push_back(rt);
            }
            int nB = ni();
            for (int k=0;k<nB;++k) { int ix = ni(); Real lb = nf(), ub = nf(); bounded.push_back(ImpulseSolver::BoundedRT(MultiplierIndex(ix), lb, ub)); }
            int nS = ni();
            for (int k=0;k<nS;++k) { Array_<MultiplierIndex> Fk; int c = ni(); for (int i=0;i<c;++i) Fk.push_back(MultiplierIndex(ni()));
                Real kn = nf(), mu = nf(); stateLtd.push_back(ImpulseSolver::StateLtdFrictionRT(Fk, kn, mu)); }
            int nL = ni();
            for (int k=0;k<nL;++k) { Array_<MultiplierIndex> Fk, Nk; int c = ni(); for (int i=0;i<c;++i) Fk.push_back(MultiplierIndex(ni()));
                int d = ni(); for (int i=0;i<d;++i) Nk.push_back(MultiplierIndex(ni())); Real mu = nf();
                consLtd.push_back(ImpulseSolver::ConstraintLtdFrictionRT(Fk, Nk, mu)); }
            bool conv;
            if (kind == "PGS") { PGSImpulseSolver s(1e-3); s.setMaxIterations(maxIters); s.setConvergenceTol(tol);
                conv = s.solve(0, participating, A, D, expanding, piExpand, verrStart, verrApplied, pi, uncond, uni, uniSpeed, bounded, consLtd, stateLtd); }
            else { PLUSImpulseSolver s(1e-3); if (maxIters > 0) s.setMaxIterations(maxIters); if (tol > 0) s.setConvergenceTol(tol);
                conv = s.solve(0, participating, A, D, expanding, piExpand, verrStart, verrApplied, pi, uncond, uni, uniSpeed, bounded, consLtd, stateLtd); }
            std::printf("OK %d |", conv ? 1 : 0);
            for (int i=0;i<m;++i) std::printf(" %a", pi[i]);
            std::printf(" |"); for (int i=0;i<m;++i) std::printf(" %a", verrStart[i]);
            std::printf(" |"); for (int k=0;k<nC;++k) std::printf(" %d", (int)uni[k].m_contactCond);
            std::printf(" |"); for (int k=0;k<nC;++k) std::printf(" %d", (int)uni[k].m_frictionCond);
            std::printf(" |"); for (int k=0;k<nB;++k) std::printf(" %d", (int)bounded[k].m_boundedCond);
            std::printf(" |"); for (int k=0;k<nS;++k) std::printf(" %d", (int)stateLtd[k].m_frictionCond);
            std::printf(" |"); for (int k=0;k<nL;++k) std::printf(" %d", (int)consLtd[k].m_frictionCond);
            std::printf("\n");
        } catch (const std::exception& e) {
            std::string w = e.what(); for (size_t i = 0; i < w.size(); ++i) if (w[i] == '\n') w[i] = ' ';
            std::printf("EXC %s\n", w.substr(0, 200).c_str());
        }
        std::fflush(stdout);
    }
    return 0;
}
