// Shared by the multibody correspondence harnesses (C01, C02, C04, C14, C15, ...):
// a seeded generator of random simbody trees over the catalogue of built-in mobilizers, and
// helpers that dump the per-body data the Gallina tree model (coq/Lib/MB.v) takes as input:
//   parent index, shift vector l = p_GB - p_GP, hinge columns H_PB_G, spatial inertia about the body
//   origin expressed in Ground (computed here with plain Mat33 arithmetic from body-frame mass properties).
#ifndef VERIF_MB_COMMON_H
#define VERIF_MB_COMMON_H
#include "Simbody.h"
#include <cstdio>
#include <random>
#include <vector>
#include <string>
using namespace SimTK;

struct Rng {
    std::mt19937_64 g;
    explicit Rng(unsigned long long s) : g(s) {}
    Real U(Real a, Real b) { return std::uniform_real_distribution<Real>(a, b)(g); }
    int I(int a, int b) { return std::uniform_int_distribution<int>(a, b)(g); }
    Vec3 v3(Real s = 1) { return Vec3(U(-s, s), U(-s, s), U(-s, s)); }
    Rotation rot() { return Rotation(BodyRotationSequence, U(-3, 3), XAxis, U(-1.3, 1.3), YAxis, U(-3, 3), ZAxis); }
    Transform xf(Real s = 0.7) { return Transform(rot(), v3(s)); }
};

// mass properties from a random point cloud: always a valid (PSD, triangle-inequality) inertia
inline MassProperties randomMassProps(Rng& r) {
    int n = r.I(4, 7); Real m = 0; Vec3 com(0); Inertia I(0);
    for (int i = 0; i < n; ++i) { Real mi = r.U(0.1, 1.0); Vec3 p = r.v3(0.5); m += mi; com += mi * p; I += Inertia(p, mi); }
    com /= m;
    return MassProperties(m, com, I);
}

static const char* MOBTYPES[] = {"Pin", "Slider", "Universal", "Cylinder", "BendStretch", "Planar", "Gimbal", "Bushing",
    "Ball", "Free", "Translation", "Screw", "Ellipsoid", "LineOrientation", "FreeLine", "SphericalCoords", "Weld",
    "FunctionBased", "CantileverFreeBeam", "Custom"};
static const int NMOBTYPES = 17;        // the built-in types of the model catalogues (coq/C05)
static const int NMOBTYPES_ALL = 20;    // + FunctionBased, CantileverFreeBeam, Custom: only for harnesses whose model is type-agnostic
                                        // (per-body data taken from the implementation) or that evaluate predicates on the implementation alone

// ---- functions for the FunctionBased mobilizer of the generators (derivatives of every order)
struct VfConst : public Function {
    Real c; explicit VfConst(Real c = 0) : c(c) {}
    Real calcValue(const Vector&) const override { return c; }
    Real calcDerivative(const Array_<int>&, const Vector&) const override { return 0; }
    int getArgumentSize() const override { return 0; }
    int getMaxDerivativeOrder() const override { return 10; }
    Function* clone() const override { return new VfConst(*this); }
};
struct VfQuad : public Function {      // a x + b x^2
    Real a, b; VfQuad(Real a, Real b) : a(a), b(b) {}
    Real calcValue(const Vector& x) const override { return a * x[0] + b * x[0] * x[0]; }
    Real calcDerivative(const Array_<int>& d, const Vector& x) const override { return d.size() == 1 ? a + 2 * b * x[0] : (d.size() == 2 ? 2 * b : 0); }
    int getArgumentSize() const override { return 1; }
    int getMaxDerivativeOrder() const override { return 10; }
    Function* clone() const override { return new VfQuad(*this); }
};
struct VfProd : public Function {      // c x0 x1
    Real c; explicit VfProd(Real c) : c(c) {}
    Real calcValue(const Vector& x) const override { return c * x[0] * x[1]; }
    Real calcDerivative(const Array_<int>& d, const Vector& x) const override {
        if (d.size() == 1) return c * x[1 - d[0]];
        if (d.size() == 2) return d[0] != d[1] ? c : 0;
        return 0; }
    int getArgumentSize() const override { return 2; }
    int getMaxDerivativeOrder() const override { return 10; }
    Function* clone() const override { return new VfProd(*this); }
};
// ---- a small user-defined mobilizer: rotation q0 about Fz, translation q1 + c q0^2 along Fz (H depends on q, HDot on u)
class VfCustomImpl : public MobilizedBody::Custom::Implementation {
public:
    Real c;
    VfCustomImpl(SimbodyMatterSubsystem& m, Real c) : Implementation(m, 2, 2, 1), c(c) {}
    Implementation* clone() const override { return new VfCustomImpl(*this); }
    Transform calcMobilizerTransformFromQ(const State&, int, const Real* q) const override {
        return Transform(Rotation(q[0], ZAxis), Vec3(0, 0, q[1] + c * q[0] * q[0])); }
    SpatialVec multiplyByHMatrix(const State& s, int, const Real* u) const override {
        const Vector q = getQ(s); return SpatialVec(Vec3(0, 0, u[0]), Vec3(0, 0, 2 * c * q[0] * u[0] + u[1])); }
    void multiplyByHTranspose(const State& s, const SpatialVec& F, int, Real* f) const override {
        const Vector q = getQ(s); f[0] = F[0][2] + 2 * c * q[0] * F[1][2]; f[1] = F[1][2]; }
    SpatialVec multiplyByHDotMatrix(const State& s, int, const Real* u) const override {
        const Vector v = getU(s); return SpatialVec(Vec3(0), Vec3(0, 0, 2 * c * v[0] * u[0])); }
    void multiplyByHDotTranspose(const State& s, const SpatialVec& F, int, Real* f) const override {
        const Vector v = getU(s); f[0] = 2 * c * v[0] * F[1][2]; f[1] = 0; }
};

inline MobilizedBody addMobod(int type, MobilizedBody& parent, const Transform& xp, const Body& b, const Transform& xb, bool rev) {
    MobilizedBody::Direction d = rev ? MobilizedBody::Reverse : MobilizedBody::Forward;
    switch (type) {
    case 0: return MobilizedBody::Pin(parent, xp, b, xb, d);
    case 1: return MobilizedBody::Slider(parent, xp, b, xb, d);
    case 2: return MobilizedBody::Universal(parent, xp, b, xb, d);
    case 3: return MobilizedBody::Cylinder(parent, xp, b, xb, d);
    case 4: return MobilizedBody::BendStretch(parent, xp, b, xb, d);
    case 5: return MobilizedBody::Planar(parent, xp, b, xb, d);
    case 6: return MobilizedBody::Gimbal(parent, xp, b, xb, d);
    case 7: return MobilizedBody::Bushing(parent, xp, b, xb, d);
    case 8: return MobilizedBody::Ball(parent, xp, b, xb, d);
    case 9: return MobilizedBody::Free(parent, xp, b, xb, d);
    case 10: return MobilizedBody::Translation(parent, xp, b, xb, d);
    case 11: return MobilizedBody::Screw(parent, xp, b, xb, 0.3, d);
    case 12: return MobilizedBody::Ellipsoid(parent, xp, b, xb, Vec3(0.5, 0.7, 0.9), d);
    case 13: return MobilizedBody::LineOrientation(parent, xp, b, xb, d);
    case 14: return MobilizedBody::FreeLine(parent, xp, b, xb, d);
    case 15: return MobilizedBody::SphericalCoords(parent, xp, b, xb, d);
    case 17: {   // FunctionBased, 3 mobilities: rotations (x: quadratic in q0, y: 0, z: q1), translations (x: 0.4 q0 q1, y: quadratic in q2, z: 0)
        Array_<const Function*> f; Array_<Array_<int> > ci(6);
        f.push_back(new VfQuad(1, 0.2)); ci[0].push_back(0);
        f.push_back(new VfConst(0));
        f.push_back(new VfQuad(1, 0)); ci[2].push_back(1);
        f.push_back(new VfProd(0.4)); ci[3].push_back(0); ci[3].push_back(1);
        f.push_back(new VfQuad(0.5, 0.1)); ci[4].push_back(2);
        f.push_back(new VfConst(0));
        return MobilizedBody::FunctionBased(parent, xp, b, xb, 3, f, ci, d); }
    case 18: return MobilizedBody::CantileverFreeBeam(parent, xp, b, xb, 1.3, d);
    case 19: return MobilizedBody::Custom(parent, new VfCustomImpl(parent.updMatterSubsystem(), 0.35), xp, b, xb, d);
    default: return MobilizedBody::Weld(parent, xp, b, xb);
    }
}

// mobilizer with explicit options: Screw [pitch]; Ellipsoid [a b c]; SphericalCoords [az0 sAz ze0 sZe axisIsX sR] (negative = negated)
inline MobilizedBody addMobodPar(int type, MobilizedBody& parent, const Transform& xp, const Body& b, const Transform& xb, bool rev,
                                 const std::vector<Real>& par) {
    MobilizedBody::Direction d = rev ? MobilizedBody::Reverse : MobilizedBody::Forward;
    switch (type) {
    case 11: return MobilizedBody::Screw(parent, xp, b, xb, par[0], d);
    case 12: return MobilizedBody::Ellipsoid(parent, xp, b, xb, Vec3(par[0], par[1], par[2]), d);
    case 15: return MobilizedBody::SphericalCoords(parent, xp, b, xb, par[0], par[1] < 0, par[2], par[3] < 0,
                                                   par[4] > 0 ? CoordinateAxis(XAxis) : CoordinateAxis(ZAxis), par[5] < 0, d);
    default: return addMobod(type, parent, xp, b, xb, rev);
    }
}
// the options addMobod() uses
inline std::vector<Real> defaultPars(int type) {
    std::vector<Real> p;
    if (type == 11) p.push_back(0.3);
    else if (type == 12) { p.push_back(0.5); p.push_back(0.7); p.push_back(0.9); }
    else if (type == 15) { Real d[6] = {0.0, 1.0, 0.0, 1.0, -1.0, 1.0}; p.assign(d, d + 6); }
    return p;
}

struct RandSystem {
    MultibodySystem sys; SimbodyMatterSubsystem matter; GeneralForceSubsystem forces;
    std::vector<int> types; std::vector<bool> revs; bool euler;
    // per body (in creation order) the mobilizer options used; optRng != 0 makes build() draw non-default options for half of the
    // Screw / Ellipsoid / SphericalCoords mobilizers from that separate stream (the main stream is consumed exactly as without it)
    std::vector<std::vector<Real> > pars; Rng* optRng;
    int ntypes;   // NMOBTYPES (default) or NMOBTYPES_ALL
    State state;
    RandSystem() : matter(sys), forces(sys), euler(false), optRng(0), ntypes(NMOBTYPES) {}
    // nb bodies (besides Ground); shape: 0 chain, 1 star, 2 random branching
    // reloc (optional): rigid transform applied to every Ground-attached inboard frame (relocates the whole model)
    void build(Rng& r, int nb, int shape, int onlyType = -1, const Transform* reloc = 0, int forceEuler = -1) {
        euler = r.I(0, 1) == 1; if (forceEuler >= 0) euler = forceEuler == 1;
        std::vector<bool> leafOnly(nb + 1, false);     // by MobilizedBodyIndex: bodies that must stay childless
        for (int i = 0; i < nb; ++i) {
            int p = (shape == 0) ? i : (shape == 1 ? (i == 0 ? 0 : 1) : r.I(0, i));   // parent MobilizedBodyIndex (0 = Ground)
            if (shape == 1 && i == 0) p = 0;
            if (leafOnly[p]) p = 0;
            int ty = onlyType >= 0 ? onlyType : r.I(0, ntypes - 1); bool rev = r.I(0, 3) == 0;
            Body::Rigid body(randomMassProps(r));
            Transform xpf = r.xf(); Transform xbm = r.xf();
            // special frame cases: identity inboard/outboard frames and translation-only frames select simbody's
            // specialised node classes (e.g. a childless Translation on Ground with identity frames is RBNodeLoneParticle)
            // (The lone-particle node itself -- childless Translation on Ground with identity frames -- keeps different
            // internal temporaries and is generated only by the dedicated systems of harness/C02_probe.cpp.)
            int special = r.I(0, 9); if (onlyType >= 0) special = 9;   // always draw, so that paired builds consume the same random stream
            if (special <= 1 && !(ty == 10 && p == 0)) { xpf = Transform(); xbm = Transform(); }
            else if (special <= 3) { xpf = Transform(xpf.p()); xbm = Transform(xbm.p()); }
            MobilizedBody& parent = matter.updMobilizedBody(MobilizedBodyIndex(p));
            if (reloc && p == 0) xpf = (*reloc) * xpf;
            std::vector<Real> par = defaultPars(ty);
            if (optRng && !par.empty() && optRng->I(0, 1)) {
                Rng& o = *optRng;
                if (ty == 11) par[0] = o.U(0.1, 0.8) * (o.I(0, 1) ? 1 : -1);
                else if (ty == 12) for (int c = 0; c < 3; ++c) par[c] = o.U(0.3, 1.3);
                else if (ty == 15) { par[0] = o.U(-1, 1); par[1] = o.I(0, 1) ? 1 : -1; par[2] = o.U(-0.4, 0.4); par[3] = o.I(0, 1) ? 1 : -1;
                                     par[4] = o.I(0, 1) ? 1 : -1; par[5] = o.I(0, 1) ? 1 : -1; }
            }
            if (par == defaultPars(ty)) addMobod(ty, parent, xpf, body, xbm, rev); else addMobodPar(ty, parent, xpf, body, xbm, rev, par);
            types.push_back(ty); revs.push_back(rev); pars.push_back(par);
        }
        state = sys.realizeTopology();
        matter.setUseEulerAngles(state, euler);
        sys.realizeModel(state);
        // coordinates: modest angles (keeps Euler sequences away from their singularity), then normalise quaternions
        for (int i = 0; i < state.getNQ(); ++i) state.updQ()[i] = r.U(0.1, 0.6) * (r.I(0, 1) ? 1 : -1);
        sys.realize(state, Stage::Position);
        sys.project(state, 1e-12);
        for (int i = 0; i < state.getNU(); ++i) state.updU()[i] = r.U(-1, 1);
    }
};

inline void pv(const char* tag, const Vec3& v) { std::printf("%s %a %a %a", tag, v[0], v[1], v[2]); }
inline void psv(const SpatialVec& v) { std::printf(" %a %a %a %a %a %a", v[0][0], v[0][1], v[0][2], v[1][0], v[1][1], v[1][2]); }
inline void pvec(const char* tag, const Vector& v) { std::printf("%s", tag); for (int i = 0; i < v.size(); ++i) std::printf(" %a", v[i]); std::printf("\n"); }

// Dump the model inputs of one realized system (state realized to at least Position; Velocity if withVel).
inline void dumpTreeData(const RandSystem& rs, const State& s) {
    const SimbodyMatterSubsystem& m = rs.matter;
    int nb = m.getNumBodies();
    std::printf("SYS %d %d %d\n", nb, s.getNU(), s.getNQ());
    for (MobilizedBodyIndex b(1); b < nb; ++b) {
        const MobilizedBody& mb = m.getMobilizedBody(b);
        int p = mb.getParentMobilizedBody().getMobilizedBodyIndex();
        const Transform& X = mb.getBodyTransform(s);
        const Transform& XP = mb.getParentMobilizedBody().getBodyTransform(s);
        Vec3 l = X.p() - XP.p();
        const MassProperties& mp = mb.getBodyMassProperties(s);
        Mat33 R = X.R().asMat33();
        Mat33 IB = mp.getInertia().toMat33();          // about body origin, in B
        Mat33 IG = R * IB * ~R;
        Vec3 pG = R * mp.getMassCenter();
        int nu = mb.getNumU(s); int u0 = nu > 0 ? (int)mb.getFirstUIndex(s) : 0;
        std::printf("BODY %d %d %d %d %s %d", (int)b, p, nu, u0, MOBTYPES[rs.types[b - 1]], (int)rs.revs[b - 1]);
        std::printf(" %a %a %a", l[0], l[1], l[2]);
        std::printf(" %a %a %a %a", mp.getMass(), pG[0], pG[1], pG[2]);
        std::printf(" %a %a %a %a %a %a\n", IG(0, 0), IG(1, 1), IG(2, 2), IG(1, 0), IG(2, 0), IG(2, 1));
        for (int k = 0; k < nu; ++k) { std::printf("H %d %d", (int)b, k); psv(mb.getHCol(s, MobilizerUIndex(k))); std::printf("\n"); }
    }
}
#endif
