// Correspondence probe for the tree-algorithm properties (C01, C04, ...).
// usage: mb_probe <seed> <nsystems> [maxBodies]
// For each random system prints the model inputs (SYS/BODY/H/U/W/FB/COR/UD/TASK lines) followed by the
// implementation's results (OUT <tag> ...), then END.  The OCaml driver recomputes every OUT line
// from the inputs with the extracted Gallina model; the check compares them.
#include "mb_common.h"
static void emit(RandSystem& rs, Rng& r) {
        State& s = rs.state; const SimbodyMatterSubsystem& m = rs.matter;
        rs.sys.realize(s, Stage::Velocity);
        int nu = s.getNU(), NB = m.getNumBodies();
        dumpTreeData(rs, s);
        pvec("U", s.getU());
        Vector W(nu), UD(nu); for (int i = 0; i < nu; ++i) { W[i] = r.U(-1, 1); UD[i] = r.U(-1, 1); }
        pvec("W", W); pvec("UD", UD);
        Vector_<SpatialVec> FB(NB); for (int b = 0; b < NB; ++b) { FB[b] = SpatialVec(r.v3(), r.v3()); std::printf("FB %d", b); psv(FB[b]); std::printf("\n"); }
        for (MobilizedBodyIndex b(1); b < NB; ++b) { std::printf("COR %d", (int)b); psv(m.getMobilizerCoriolisAcceleration(s, b)); std::printf("\n"); }
        // station / frame tasks (repeated bodies allowed, Ground allowed)
        int nt = r.I(1, 5); Array_<MobilizedBodyIndex> tb; Array_<Vec3> ts; Vector_<Vec3> tf(nt); Vector_<SpatialVec> tF(nt);
        for (int i = 0; i < nt; ++i) { MobilizedBodyIndex b(r.I(0, NB - 1)); Vec3 S = r.v3(0.5); tb.push_back(b); ts.push_back(S);
            Vec3 pG = m.getMobilizedBody(b).getBodyRotation(s) * S; tf[i] = r.v3(); tF[i] = SpatialVec(r.v3(), r.v3());
            std::printf("TASK %d %d %a %a %a %a %a %a", i, (int)b, pG[0], pG[1], pG[2], tf[i][0], tf[i][1], tf[i][2]); psv(tF[i]); std::printf("\n"); }
        // ---------------- implementation results
        for (MobilizedBodyIndex b(0); b < NB; ++b) { std::printf("OUT VEL %d", (int)b); psv(m.getMobilizedBody(b).getBodyVelocity(s)); std::printf("\n"); }
        Vector_<SpatialVec> JW; m.multiplyBySystemJacobian(s, W, JW);
        for (int b = 0; b < NB; ++b) { std::printf("OUT JW %d", b); psv(JW[b]); std::printf("\n"); }
        Vector JTF; m.multiplyBySystemJacobianTranspose(s, FB, JTF); pvec("OUT JTF", JTF);
        Vector_<SpatialVec> bias; m.calcBiasForSystemJacobian(s, bias);
        for (int b = 0; b < NB; ++b) { std::printf("OUT BIAS %d", b); psv(bias[b]); std::printf("\n"); }
        Vector_<SpatialVec> A; m.calcBodyAccelerationFromUDot(s, UD, A);
        for (int b = 0; b < NB; ++b) { std::printf("OUT ACC %d", b); psv(A[b]); std::printf("\n"); }
        Vector_<Vec3> JSW; m.multiplyByStationJacobian(s, tb, ts, W, JSW);
        for (int i = 0; i < nt; ++i) std::printf("OUT STJ %d %a %a %a\n", i, JSW[i][0], JSW[i][1], JSW[i][2]);
        Vector JSTf; m.multiplyByStationJacobianTranspose(s, tb, ts, tf, JSTf); pvec("OUT STJT", JSTf);
        Vector_<SpatialVec> JFW; m.multiplyByFrameJacobian(s, tb, ts, W, JFW);
        for (int i = 0; i < nt; ++i) { std::printf("OUT FRJ %d", i); psv(JFW[i]); std::printf("\n"); }
        Vector JFTF; m.multiplyByFrameJacobianTranspose(s, tb, ts, tF, JFTF); pvec("OUT FRJT", JFTF);
        { Vector_<Vec3> JSDu; m.calcBiasForStationJacobian(s, tb, ts, JSDu); Vector_<SpatialVec> JFDu; m.calcBiasForFrameJacobian(s, tb, ts, JFDu);
          for (int i = 0; i < nt; ++i) { std::printf("OUT STB %d %a %a %a\n", i, JSDu[i][0], JSDu[i][1], JSDu[i][2]);
                                         std::printf("OUT FRB %d", i); psv(JFDu[i]); std::printf("\n"); } }
        Matrix Jm; m.calcSystemJacobian(s, Jm);     // 6nb x nu ; compare column sums against J*ones is weak: print J*W via the matrix
        Vector JmW = Jm * W; for (int b = 0; b < NB; ++b) { std::printf("OUT JMATW %d", b); for (int i = 0; i < 6; ++i) std::printf(" %a", JmW[6 * b + i]); std::printf("\n"); }
        // mass matrix routes
        Vector MW; m.multiplyByM(s, W, MW); pvec("OUT MW", MW);
        Matrix M; m.calcM(s, M); Vector MmW = M * W; pvec("OUT MMATW", MmW);
        for (int i = 0; i < nu; ++i) { std::printf("OUT MROW %d", i); for (int j = 0; j < nu; ++j) std::printf(" %a", M(i, j)); std::printf("\n"); }
        std::printf("OUT KE %a\n", m.calcKineticEnergy(s));
        rs.sys.realize(s, Stage::Dynamics);   // needed by the inverse operators
        Vector MIW; m.multiplyByMInv(s, MW, MIW); pvec("OUT MINV_MW", MIW);          // must reproduce W
        Matrix MI; m.calcMInv(s, MI); Vector MIMW = MI * MW; pvec("OUT MINVMAT_MW", MIMW);
        std::printf("END\n");
}

int main(int argc, char** argv) {
    unsigned long long seed = std::strtoull(argv[1], 0, 10); int nsys = std::atoi(argv[2]); int maxb = argc > 3 ? std::atoi(argv[3]) : 10;
    Rng r(seed);
    for (int k = 0; k < nsys; ++k) {
        {
            RandSystem rs; rs.ntypes = NMOBTYPES_ALL; int nb = r.I(1, maxb); int shape = r.I(0, 2);
            try { rs.build(r, nb, shape); } catch (const std::exception& e) { std::printf("SKIP %s\n", e.what()); continue; }
            emit(rs, r);
        }
        if (k % 5 == 4) {
            // lone particles (simbody's RBNodeLoneParticle: childless forward Translation on Ground, identity frames, mass centre at the
            // origin) next to an ordinary body; half of the time a Free or Ball body is created first, so that the particles' q and u
            // offsets differ (the quaternion reserves one more q than u)
            RandSystem rs;
            try {
                if (r.I(0, 1)) { int ty = r.I(0, 1) ? 9 : 8; addMobod(ty, rs.matter.updGround(), r.xf(), Body::Rigid(randomMassProps(r)), r.xf(), false);
                                 rs.types.push_back(ty); rs.revs.push_back(false); }
                int np = r.I(1, 3);
                for (int i = 0; i < np; ++i) {
                    MobilizedBody::Translation(rs.matter.updGround(), Transform(), Body::Rigid(MassProperties(r.U(0.2, 3), Vec3(0), Inertia(0))), Transform());
                    rs.types.push_back(10); rs.revs.push_back(false);
                }
                rs.build(r, 1, 0);
                emit(rs, r);
            } catch (const std::exception& e) { std::printf("SKIP %s\n", e.what()); }
        }
    }
    return 0;
}
