// Failing-input search for the tree-algorithm properties, on the implementation alone:
// the properties' own predicates (adjointness, J*u = reported velocities, A = J*udot + bias,
// M symmetric / consistent across routes / inverse, KE = u'Mu/2) on random systems.
// usage: mb_search <seed> <nsystems> [maxBodies]   prints "FAIL <prop> <predicate> err=... seed=.. system=.." lines and DONE
#include "mb_common.h"
static long evals = 0; static int fails = 0;
static void chk(const char* prop, const char* what, Real err, Real scale, unsigned long long seed, int k, const RandSystem& rs) {
    ++evals;
    if (!(err <= 1e-8 * (1 + scale))) { if (fails++ < 8) { std::printf("FAIL %s %s err=%.6g seed=%llu system=%d euler=%d mobilizers=", prop, what, err, seed, k, (int)rs.euler);
        for (size_t i = 0; i < rs.types.size(); ++i) std::printf("%s%s,", MOBTYPES[rs.types[i]], rs.revs[i] ? "(rev)" : ""); std::printf("\n"); } }
}
int main(int argc, char** argv) {
    unsigned long long seed = std::strtoull(argv[1], 0, 10); int nsys = std::atoi(argv[2]); int maxb = argc > 3 ? std::atoi(argv[3]) : 10;
    Rng r(seed);
    for (int k = 0; k < nsys; ++k) {
        RandSystem rs; rs.ntypes = NMOBTYPES_ALL; int nb = r.I(1, maxb); int shape = r.I(0, 2);
        try {
            if (k % 5 == 4) {   // simbody's special lone-particle node: childless Translation on Ground, identity frames, COM at origin
                int np = r.I(1, 3);
                // half of the time a Free or Ball body comes first: its quaternion reserves more q's than u's, so the particles'
                // q and u offsets differ (an implementation that indexes u-space data by the q offset is exact otherwise)
                if (r.I(0, 1)) { int ty = r.I(0, 1) ? 9 : 8; addMobod(ty, rs.matter.updGround(), r.xf(), Body::Rigid(randomMassProps(r)), r.xf(), false);
                                 rs.types.push_back(ty); rs.revs.push_back(false); }
                for (int i = 0; i < np; ++i) {
                    MobilizedBody::Translation(rs.matter.updGround(), Transform(), Body::Rigid(MassProperties(r.U(0.2, 3), Vec3(0), Inertia(0))), Transform());
                    rs.types.push_back(10); rs.revs.push_back(false);
                }
                rs.build(r, 1, 0);
            } else rs.build(r, nb, shape);
        } catch (const std::exception& e) { continue; }
        State& s = rs.state; const SimbodyMatterSubsystem& m = rs.matter;
        rs.sys.realize(s, Stage::Dynamics);
        int nu = s.getNU(), NB = m.getNumBodies();
        Vector W(nu), UD(nu); for (int i = 0; i < nu; ++i) { W[i] = r.U(-1, 1); UD[i] = r.U(-1, 1); }
        Vector_<SpatialVec> FB(NB); for (int b = 0; b < NB; ++b) FB[b] = SpatialVec(r.v3(), r.v3());
        // C04
        Vector_<SpatialVec> JU; m.multiplyBySystemJacobian(s, s.getU(), JU); Real e = 0, sc = 0;
        for (MobilizedBodyIndex b(0); b < NB; ++b) { SpatialVec d = JU[b] - m.getMobilizedBody(b).getBodyVelocity(s); e += d.norm(); sc += JU[b].norm(); }
        chk("C04", "J*u=reported-velocities", e, sc, seed, k, rs);
        Vector_<SpatialVec> JW; m.multiplyBySystemJacobian(s, W, JW); Vector JTF; m.multiplyBySystemJacobianTranspose(s, FB, JTF);
        Real lhs = 0; for (int b = 0; b < NB; ++b) lhs += ~FB[b] * JW[b]; Real rhs = nu ? ~JTF * W : 0;
        chk("C04", "<F,Jw>=<JtF,w>", std::abs(lhs - rhs), std::abs(lhs), seed, k, rs);
        Vector_<SpatialVec> bias, A, JUD; m.calcBiasForSystemJacobian(s, bias); m.calcBodyAccelerationFromUDot(s, UD, A); m.multiplyBySystemJacobian(s, UD, JUD);
        e = 0; sc = 0; for (int b = 0; b < NB; ++b) { e += (A[b] - JUD[b] - bias[b]).norm(); sc += A[b].norm(); }
        chk("C04", "A=J*udot+bias", e, sc, seed, k, rs);
        { // the reported accelerations are the time derivative of the reported velocities along qdot = N u, udot = UD
          // (fourth-order central difference; this is what makes the bias Jdot*u the derivative of J*u: a wrong HDot / Coriolis
          //  term of one mobilizer is consistent between calcBodyAccelerationFromUDot and calcBiasForSystemJacobian)
          const Real h = 1e-3; const Real cf[4] = { 1.0 / 12, -8.0 / 12, 8.0 / 12, -1.0 / 12 }; const Real st[4] = { -2, -1, 1, 2 };
          std::vector<SpatialVec> dV(NB, SpatialVec(Vec3(0), Vec3(0))); const Vector qd = s.getQDot();
          for (int j = 0; j < 4; ++j) { State sp = s; sp.updQ() += st[j] * h * qd; sp.updU() += st[j] * h * UD; rs.sys.realize(sp, Stage::Velocity);
              for (MobilizedBodyIndex b(0); b < NB; ++b) dV[b] += cf[j] * m.getMobilizedBody(b).getBodyVelocity(sp); }
          Real ea = 0, sa = 0; for (int b = 0; b < NB; ++b) { ea = std::max(ea, (dV[b] / h - A[b]).norm()); sa = std::max(sa, A[b].norm()); }
          ++evals; if (!(ea <= 1e-6 * (1 + sa))) { if (fails++ < 8) { std::printf("FAIL C04 A=d/dt(V) err=%.6g seed=%llu system=%d euler=%d mobilizers=", ea, seed, k, (int)rs.euler);
              for (size_t i = 0; i < rs.types.size(); ++i) std::printf("%s%s,", MOBTYPES[rs.types[i]], rs.revs[i] ? "(rev)" : ""); std::printf("\n"); } } }
        { // station Jacobian adjoint with repeated bodies
          int nt = 4; Array_<MobilizedBodyIndex> tb; Array_<Vec3> ts; Vector_<Vec3> tf(nt);
          for (int i = 0; i < nt; ++i) { tb.push_back(MobilizedBodyIndex(r.I(0, NB - 1))); ts.push_back(r.v3(0.5)); tf[i] = r.v3(); }
          Vector_<Vec3> JSW; m.multiplyByStationJacobian(s, tb, ts, W, JSW); Vector JSTf; m.multiplyByStationJacobianTranspose(s, tb, ts, tf, JSTf);
          Real a = 0; for (int i = 0; i < nt; ++i) a += ~tf[i] * JSW[i]; Real b2 = nu ? ~JSTf * W : 0;
          chk("C04", "station <f,JSw>=<JStf,w>", std::abs(a - b2), std::abs(a), seed, k, rs);
          // frame Jacobian: adjoint with repeated bodies, operator vs explicit matrix and its transpose
          Vector_<SpatialVec> tF(nt); for (int i = 0; i < nt; ++i) tF[i] = SpatialVec(r.v3(), r.v3());
          Vector_<SpatialVec> JFW; m.multiplyByFrameJacobian(s, tb, ts, W, JFW); Vector JFTF; m.multiplyByFrameJacobianTranspose(s, tb, ts, tF, JFTF);
          Real fa = 0; for (int i = 0; i < nt; ++i) fa += ~tF[i] * JFW[i]; Real fb = nu ? ~JFTF * W : 0;
          chk("C04", "frame <F,JFw>=<JFtF,w>", std::abs(fa - fb), std::abs(fa), seed, k, rs);
          Matrix JF; m.calcFrameJacobian(s, tb, ts, JF); Vector JFm = JF * W; e = 0;
          for (int i = 0; i < nt; ++i) for (int c = 0; c < 6; ++c) e += std::abs(JFm[6 * i + c] - (c < 3 ? JFW[i][0][c] : JFW[i][1][c - 3]));
          chk("C04", "explicit-frame-J*w=operator", e, JFm.norm(), seed, k, rs);
          if (nu) { Vector Fflat(6 * nt); for (int i = 0; i < nt; ++i) for (int c = 0; c < 6; ++c) Fflat[6 * i + c] = c < 3 ? tF[i][0][c] : tF[i][1][c - 3];
                    Vector JtF = ~JF * Fflat; chk("C04", "explicit-frame-Jt*F=transpose-operator", (JtF - JFTF).norm(), JtF.norm(), seed, k, rs);
                    Vector JStf_m; Matrix JS0; m.calcStationJacobian(s, tb, ts, JS0); Vector fflat(3 * nt); for (int i = 0; i < nt; ++i) for (int c = 0; c < 3; ++c) fflat[3 * i + c] = tf[i][c];
                    JStf_m = ~JS0 * fflat; chk("C04", "explicit-station-Jt*f=transpose-operator", (JStf_m - JSTf).norm(), JStf_m.norm(), seed, k, rs); }
          // station/frame velocities reported by the state equal J applied to the state's own u
          Vector_<Vec3> JSU; m.multiplyByStationJacobian(s, tb, ts, s.getU(), JSU); e = 0; sc = 0;
          for (int i = 0; i < nt; ++i) { Vec3 v = m.getMobilizedBody(tb[i]).findStationVelocityInGround(s, ts[i]); e += (v - JSU[i]).norm(); sc += v.norm(); }
          chk("C04", "JS*u=reported-station-velocities", e, sc, seed, k, rs);
          // bias terms of the task Jacobians: the station / frame accelerations the realized state reports are J*udot + Jdot*u
          { rs.sys.realize(s, Stage::Acceleration); const Vector& ud = s.getUDot();
            Vector_<Vec3> JSud, JSDu; m.multiplyByStationJacobian(s, tb, ts, ud, JSud); m.calcBiasForStationJacobian(s, tb, ts, JSDu);
            Vector_<SpatialVec> JFud, JFDu; m.multiplyByFrameJacobian(s, tb, ts, ud, JFud); m.calcBiasForFrameJacobian(s, tb, ts, JFDu);
            Real es = 0, ef = 0, ss = 0;
            for (int i = 0; i < nt; ++i) { const MobilizedBody& mb = m.getMobilizedBody(tb[i]);
                Vec3 a = mb.findStationAccelerationInGround(s, ts[i]); SpatialVec A = mb.getBodyAcceleration(s);
                es += (a - JSud[i] - JSDu[i]).norm(); ss += a.norm();
                ef += (A[0] - JFud[i][0] - JFDu[i][0]).norm() + (a - JFud[i][1] - JFDu[i][1]).norm();
                // single-task signatures agree with the multi-task ones
                Vec3 b1 = m.calcBiasForStationJacobian(s, tb[i], ts[i]); SpatialVec b2 = m.calcBiasForFrameJacobian(s, tb[i], ts[i]);
                es += (b1 - JSDu[i]).norm(); ef += (b2 - JFDu[i]).norm(); }
            // packed (Vector) signatures agree with the Vec3 / SpatialVec ones
            { Vector vs, vf, vb; m.calcBiasForStationJacobian(s, tb, ts, vs); m.calcBiasForFrameJacobian(s, tb, ts, vf); m.calcBiasForSystemJacobian(s, vb);
              Vector_<SpatialVec> bsys; m.calcBiasForSystemJacobian(s, bsys); Real ev = 0;
              for (int i = 0; i < nt; ++i) for (int c = 0; c < 3; ++c) ev += std::abs(vs[3 * i + c] - JSDu[i][c]) + std::abs(vf[6 * i + c] - JFDu[i][0][c]) + std::abs(vf[6 * i + 3 + c] - JFDu[i][1][c]);
              for (int b = 0; b < NB; ++b) for (int c = 0; c < 3; ++c) ev += std::abs(vb[6 * b + c] - bsys[b][0][c]) + std::abs(vb[6 * b + 3 + c] - bsys[b][1][c]);
              chk("C04", "packed-bias-signatures=vector-signatures", ev, ss, seed, k, rs); }
            chk("C04", "station-acc=JS*udot+JSdot*u", es, ss, seed, k, rs);
            chk("C04", "frame-acc=JF*udot+JFdot*u", ef, ss, seed, k, rs); }
          Matrix JS; m.calcStationJacobian(s, tb, ts, JS); Vector JSm = JS * W; e = 0; for (int i = 0; i < nt; ++i) for (int c = 0; c < 3; ++c) e += std::abs(JSm[3 * i + c] - JSW[i][c]);
          chk("C04", "explicit-station-J*w=operator", e, JSm.norm(), seed, k, rs);
        }
        // the u-space operators give the same answers for strided (non-contiguous) argument and result views as for plain vectors
        if (nu) { Matrix Ain(3, nu), Aout(3, nu); Ain = 0; Aout = 0; for (int i = 0; i < nu; ++i) Ain(1, i) = W[i];
          VectorView vin = ~Ain[1]; VectorView vout = ~Aout[2]; Vector ref, got; Real ev = 0, sv = 0;
          m.multiplyByM(s, W, ref);    m.multiplyByM(s, vin, got);    ev += (got - ref).norm(); m.multiplyByM(s, W, vout);    ev += (Vector(vout) - ref).norm(); m.multiplyByM(s, vin, vout); ev += (Vector(vout) - ref).norm(); sv += ref.norm();
          m.multiplyByMInv(s, W, ref); m.multiplyByMInv(s, vin, got); ev += (got - ref).norm(); m.multiplyByMInv(s, W, vout); ev += (Vector(vout) - ref).norm(); m.multiplyByMInv(s, vin, vout); ev += (Vector(vout) - ref).norm(); sv += ref.norm();
          Vector_<SpatialVec> jr, jg; m.multiplyBySystemJacobian(s, W, jr); m.multiplyBySystemJacobian(s, vin, jg); for (int b = 0; b < NB; ++b) { ev += (jr[b] - jg[b]).norm(); sv += jr[b].norm(); }
          Vector jt; m.multiplyBySystemJacobianTranspose(s, FB, jt); m.multiplyBySystemJacobianTranspose(s, FB, vout); ev += (Vector(vout) - jt).norm(); sv += jt.norm();
          chk("C01", "strided-views=plain-vectors", ev, sv, seed, k, rs); }
        // C01
        Matrix M, MI; m.calcM(s, M); m.calcMInv(s, MI);
        chk("C01", "M-symmetric", nu ? (M - ~M).norm() : 0, nu ? M.norm() : 0, seed, k, rs);
        Vector MW; m.multiplyByM(s, W, MW); chk("C01", "calcM*w=multiplyByM", nu ? (M * W - MW).norm() : 0, MW.norm(), seed, k, rs);
        Vector MIMW; m.multiplyByMInv(s, MW, MIMW); chk("C01", "MInv(M w)=w", nu ? (MIMW - W).norm() : 0, W.norm(), seed, k, rs);
        if (nu) { Matrix P = MI * M; for (int i = 0; i < nu; ++i) P(i, i) -= 1; chk("C01", "calcMInv*calcM=I", P.norm(), 1, seed, k, rs); }
        Real ke = m.calcKineticEnergy(s); Real uMu = nu ? ~s.getU() * (M * s.getU()) : 0;
        chk("C01", "KE=u'Mu/2", std::abs(ke - 0.5 * uMu), ke, seed, k, rs);
        chk("C01", "u'Mu>0", (nu && W.norm() > 0 && !(~W * MW > 0)) ? 1 : 0, 0, seed, k, rs);
    }
    std::printf("DONE %ld fails=%d\n", evals, fails);
    return 0;
}
