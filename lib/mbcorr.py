"""Correspondence between the extracted tree-algorithm model (coq/Lib/MBRun.v) and simbody on random
multibody trees: harness/mb_probe.cpp prints inputs + implementation results, ocaml/mb_drv.ml recomputes
the results with the model from the inputs only; compared tag by tag."""
import os, collections
from vlib import *

EXTRACT = '''From Coq Require Import Extraction ExtrOcamlBasic.
Require Import Num Vec Tree MB Spatial MBRun C04_Bias.
Extraction Language OCaml.
Extraction "mbrun.ml" mkTree out_vel out_jw out_jtf out_bias out_acc out_mw out_mcol out_ke2 frame_of station_force frame_force out_jt_custom frame_acc mkBx mkNode.
'''

def build(ctx):
    d = ctx.bdir('mb'); os.makedirs(d, exist_ok=True)
    ok, built, log = ctx.coq_make(['Lib/MBRun.vo', 'C04/C04_Bias.vo'])
    if not ok:
        ctx.broken.append(('model:Lib/MBRun.v', first_error(log))); return None
    if not ctx.extract(EXTRACT, d):
        ctx.broken.append(('correspondence:mb', 'extraction failed')); return None
    drv = 'open Mbrun\n' + open(os.path.join(VERIF, 'ocaml', 'fops.inc')).read() + '\n' + open(os.path.join(VERIF, 'ocaml', 'mb_drv.ml')).read()
    open(os.path.join(d, 'drv.ml'), 'w').write(drv)
    if not ctx.ocaml(d, ['mbrun.mli', 'mbrun.ml', 'drv.ml'], 'drv'):
        ctx.broken.append(('correspondence:mb', 'ocaml driver build failed')); return None
    if not ctx.cxx(os.path.join(VERIF, 'harness', 'mb_probe.cpp'), os.path.join(d, 'mb_probe')):
        ctx.broken.append(('correspondence:mb', 'C++ probe does not compile against current source')); return None
    return d

def parse(out):
    """-> list of systems; each = dict(inputs=[lines], outs={(tag,idx): [floats]}, desc=...)"""
    systems = []; cur = None
    for line in out.split('\n'):
        t = line.split()
        if not t: continue
        if t[0] == 'SYS': cur = {'inputs': [line], 'outs': collections.OrderedDict(), 'types': [], 'nb': int(t[1]), 'nu': int(t[2])}
        elif t[0] == 'END':
            if cur is not None: systems.append(cur); cur = None
        elif t[0] == 'SKIP': systems.append(None)
        elif cur is None: continue
        elif t[0] == 'OUT':
            tag = t[1]
            if tag in ('VEL', 'JW', 'BIAS', 'ACC', 'STJ', 'FRJ', 'STB', 'FRB', 'JMATW', 'MROW'):
                cur['outs'][(tag, int(t[2]))] = parse_floats(' '.join(t[3:]))
            else:
                cur['outs'][(tag, 0)] = parse_floats(' '.join(t[2:]))
        else:
            cur['inputs'].append(line)
            if t[0] == 'BODY': cur['types'].append((t[5], int(t[6])))
    return systems

def run(ctx, d, nsys, maxb, tags, rtol=1e-9, atol=1e-11, seed_offset=0):
    """returns (nsystems, disagreements[list], stats)"""
    seed = ctx.seed + seed_offset
    rc1, o1, e1 = sh([os.path.join(d, 'mb_probe'), str(seed), str(nsys), str(maxb)], timeout=1800)
    if rc1 != 0:
        ctx.broken.append(('correspondence:mb', 'probe failed rc=%d %s' % (rc1, e1[-400:]))); return 0, [], {}
    rc2, o2, e2 = sh([os.path.join(d, 'drv')], input=o1, timeout=1800)
    if rc2 != 0:
        ctx.broken.append(('correspondence:mb', 'model driver failed rc=%d %s' % (rc2, e2[-400:]))); return 0, [], {}
    S1 = [s for s in parse(o1) if s is not None]; S2 = [s for s in parse(o2) if s is not None]
    if len(S1) != len(S2) or not S1:
        ctx.broken.append(('correspondence:mb', 'system count mismatch %d vs %d' % (len(S1), len(S2)))); return 0, [], {}
    dis = []; ncmp = collections.Counter(); typehist = collections.Counter(); distinct = set(); nontriv = 0
    for k, (a, b) in enumerate(zip(S1, S2)):
        for ty in a['types']: typehist['%s%s' % (ty[0], '(rev)' if ty[1] else '')] += 1
        sig = tuple(a['types'])
        if a['nb'] >= 3 and sig not in distinct: nontriv += 1
        distinct.add(sig)
        for key, va in a['outs'].items():
            if key[0] not in tags: continue
            vb = b['outs'].get(key)
            ncmp[key[0]] += 1
            sc = max([1.0] + [abs(x) for x in va if x == x])
            if vb is None or len(vb) != len(va) or not all(close(x, y, rtol, atol, sc) for x, y in zip(va, vb)):
                dis.append({'system': k, 'seed': seed, 'tag': key[0], 'index': key[1], 'impl': va, 'model': vb, 'inputs': a['inputs']})
    stats = {'systems': len(S1), 'compared_per_tag': dict(ncmp), 'mobilizer_histogram': dict(typehist),
             'distinct_type_vectors': len(distinct), 'rtol': rtol, 'atol': atol, 'max_bodies': maxb}
    sample = {'bodies': [l for l in S1[0]['inputs'] if l.startswith('BODY')][:2], 'impl_KE': S1[0]['outs'].get(('KE', 0)), 'model_KE': S2[0]['outs'].get(('KE', 0))}
    ctx.add_cases(len(S1), nontriv, [sample])
    return len(S1), dis, stats
