#!/usr/bin/env python3
"""Generate a statement-only Properties file from the lemmas of a *_Proofs.v file:
every `Lemma name binders : stmt. Proof.` becomes
`Theorem Cnn_name binders : stmt. Proof. exact (name binder-names). Qed. Print Assumptions Cnn_name.`
Used once when a proofs file is written; the generated Properties file is committed and is the
fixed statement list (it is NOT regenerated at check time)."""
import re, sys
def binder_names(b):
    names=[]
    for m in re.finditer(r'\(([^():]+):[^()]*\)|\{([^{}:]+):[^{}]*\}|([A-Za-z_][\w\']*)', b):
        g = m.group(1) or m.group(2) or m.group(3)
        names += g.split()
    return names
def main(pid, proofs, header, skip=()):
    src=open(proofs).read()
    out=[header,'']
    for m in re.finditer(r'^(Lemma|Example|Theorem) ([\w\']+)(.*?)\nProof\.', src, re.S|re.M):
        kind,name,rest=m.groups()
        if name in skip: continue
        # split binders from statement at first top-level ' : '
        depth=0; pos=None
        for i,ch in enumerate(rest):
            if ch in '({': depth+=1
            elif ch in ')}': depth-=1
            elif ch==':' and depth==0 and rest[i+1:i+2]!='=':
                pos=i; break
        binders=rest[:pos]; names=binder_names(binders)
        out.append('Theorem %s_%s%s\nProof. exact (%s). Qed.\nPrint Assumptions %s_%s.\n'%(pid,name,rest,' '.join(['@'+name]+names) if not names else name+' '+' '.join(names),pid,name))
    return '\n'.join(out)
if __name__=='__main__':
    pid, proofs, hdrfile = sys.argv[1:4]
    skip = sys.argv[4:]
    print(main(pid, proofs, open(hdrfile).read().rstrip(), skip))
