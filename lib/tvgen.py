"""Translator validation (DESIGN 1.1): run every translated kernel, extracted to OCaml with a float
NumOps, against the compiled C++ function it was translated from, on the same random inputs.
Generates the C++ harness, the extraction file and the OCaml driver from coq/Gen/<group>.json."""
import os, json
from vlib import *

CXXTY = {'S': 'Real', 'V2': 'Vec2', 'V3': 'Vec3', 'V4': 'Vec4', 'M33': 'Mat33', 'M43': 'Mat<4,3>', 'M34': 'Mat<3,4>',
         'SYM': 'SymMat33', 'SV': 'SpatialVec', 'B': 'bool'}
NSC = {'S': 1, 'V2': 2, 'V3': 3, 'V4': 4, 'M33': 9, 'M43': 12, 'M34': 12, 'SYM': 6, 'SV': 6, 'B': 1}

CXX_PRELUDE = r'''
#include "Simbody.h"
#include <cstdio>
#include <cstdlib>
#include <string>
#include <sstream>
#include <iostream>
#include <vector>
using namespace SimTK;
static std::vector<double> A; static size_t ai;
static double nx() { return A.at(ai++); }
template<class T> T rd();
template<> Real rd<Real>() { return nx(); }
template<> bool rd<bool>() { return nx() != 0; }
template<> Vec2 rd<Vec2>() { Vec2 v; for (int i=0;i<2;++i) v[i]=nx(); return v; }
template<> Vec3 rd<Vec3>() { Vec3 v; for (int i=0;i<3;++i) v[i]=nx(); return v; }
template<> Vec4 rd<Vec4>() { Vec4 v; for (int i=0;i<4;++i) v[i]=nx(); return v; }
template<> Mat33 rd<Mat33>() { Mat33 m; for (int i=0;i<3;++i) for (int j=0;j<3;++j) m(i,j)=nx(); return m; }
template<> Mat<4,3> rd<Mat<4,3> >() { Mat<4,3> m; for (int i=0;i<4;++i) for (int j=0;j<3;++j) m(i,j)=nx(); return m; }
template<> Mat<3,4> rd<Mat<3,4> >() { Mat<3,4> m; for (int i=0;i<3;++i) for (int j=0;j<4;++j) m(i,j)=nx(); return m; }
// SymMat33 in model order: xx yy zz xy xz yz
template<> SymMat33 rd<SymMat33>() { Real xx=nx(),yy=nx(),zz=nx(),xy=nx(),xz=nx(),yz=nx(); return SymMat33(xx, xy,yy, xz,yz,zz); }
template<> SpatialVec rd<SpatialVec>() { Vec3 a=rd<Vec3>(); Vec3 b=rd<Vec3>(); return SpatialVec(a,b); }
static void pr(Real x) { std::printf("%a ", x); }
static void pr(bool b) { std::printf("%a ", b?1.0:0.0); }
static void pr(int b) { std::printf("%a ", (double)b); }
template<int N> static void pr(const Vec<N>& v) { for (int i=0;i<N;++i) pr(v[i]); }
static void pr(const UnitVec3& v) { for (int i=0;i<3;++i) pr(v[i]); }
template<int M,int N> static void pr(const Mat<M,N>& m) { for (int i=0;i<M;++i) for (int j=0;j<N;++j) pr(m(i,j)); }
static void pr(const Rotation& m) { for (int i=0;i<3;++i) for (int j=0;j<3;++j) pr(m[i][j]); }
static void pr(const SymMat33& s) { pr(s(0,0)); pr(s(1,1)); pr(s(2,2)); pr(s(1,0)); pr(s(2,0)); pr(s(2,1)); }
static void pr(const SpatialVec& v) { pr(v[0]); pr(v[1]); }
'''

def gen_cxx(meta, prelude_extra=''):
    out = [CXX_PRELUDE, prelude_extra, 'int main() { std::string line; while (std::getline(std::cin, line)) {',
           '  std::istringstream is(line); std::string k; is >> k; A.clear(); ai=0; std::string t; while (is >> t) A.push_back(std::strtod(t.c_str(), 0));',
           '  try {']
    for kn in meta['kernels']:
        if not kn.get('cxx'): continue
        decl = []; args = []
        for i, (pn, pt) in enumerate(kn['params']):
            decl.append('%s a%d = rd<%s >();' % (CXXTY[pt], i, CXXTY[pt])); args.append('a%d' % i)
        call = kn['cxx'].format(*args)
        out.append('  if (k == "%s") { %s pr(%s); std::printf("\\n"); continue; }' % (kn['coq'], ' '.join(decl), call))
    out += ['  std::printf("?unknown\\n");', '  } catch (const std::exception& e) { std::printf("!exception\\n"); }', '} return 0; }']
    return '\n'.join(out)

def ml_rd(t):
    n = NSC[t]
    vs = ['x%d' % i for i in range(n)]
    lets = ' '.join('let %s = nx () in' % v for v in vs)
    def tup(xs):
        e = xs[0]
        for x in xs[1:]: e = '(%s, %s)' % (e, x)
        return e
    if t == 'S': body = 'x0'
    elif t == 'B': body = '(x0 <> 0.0)'
    elif t in ('V2', 'V3', 'V4'): body = tup(vs)
    elif t == 'M33': body = tup([tup(vs[0:3]), tup(vs[3:6]), tup(vs[6:9])])
    elif t == 'M43': body = tup([tup(vs[0:3]), tup(vs[3:6]), tup(vs[6:9]), tup(vs[9:12])])
    elif t == 'M34': body = tup([tup(vs[0:4]), tup(vs[4:8]), tup(vs[8:12])])
    elif t in ('SYM', 'SV'): body = '(%s, %s)' % (tup(vs[0:3]), tup(vs[3:6]))
    return '(%s %s)' % (lets, body)

def ml_pr(t, e):
    def pat(n, pre):
        vs = ['%s%d' % (pre, i) for i in range(n)]
        p = vs[0]
        for x in vs[1:]: p = '(%s, %s)' % (p, x)
        return p, vs
    if t == 'S': return 'pf (%s)' % e
    if t == 'B': return 'pf (if %s then 1.0 else 0.0)' % e
    if t in ('V2', 'V3', 'V4'):
        p, vs = pat(NSC[t], 'y'); return 'let %s = %s in %s' % (p, e, '; '.join('pf %s' % v for v in vs))
    if t in ('M33', 'M43', 'M34'):
        r, c = {'M33': (3, 3), 'M43': (4, 3), 'M34': (3, 4)}[t]
        rows = []; allv = []
        for i in range(r):
            p, vs = pat(c, 'y%d_' % i); rows.append(p); allv += vs
        rp = rows[0]
        for x in rows[1:]: rp = '(%s, %s)' % (rp, x)
        return 'let %s = %s in %s' % (rp, e, '; '.join('pf %s' % v for v in allv))
    if t in ('SYM', 'SV'):
        p1, v1 = pat(3, 'ya'); p2, v2 = pat(3, 'yb')
        return 'let (%s, %s) = %s in %s' % (p1, p2, e, '; '.join('pf %s' % v for v in v1 + v2))
    raise ValueError(t)

def gen_ml(meta, modname):
    out = ['open %s' % modname, open(os.path.join(VERIF, 'ocaml', 'fops.inc')).read(),
           'let () = try while true do', '  let line = input_line stdin in',
           '  match toks line with [] -> () | k :: rest ->',
           '  let q = ref (List.map float_of_string rest) in',
           '  let nx () = match !q with x :: r -> q := r; x | [] -> failwith "args" in',
           '  (match k with']
    for kn in meta['kernels']:
        if not kn.get('cxx'): continue
        lets = []; args = []
        for i, (pn, pt) in enumerate(kn['params']):
            lets.append('let a%d = %s in' % (i, ml_rd(pt))); args.append('a%d' % i)
        out.append('  | "%s" -> %s let r = %s fops %s in %s' % (kn['coq'], ' '.join(lets), lcfirst(kn['coq']), ' '.join(args), ml_pr(kn['ret'], 'r')))
    out += ['  | _ -> print_string "?unknown");', '  print_newline ()', 'done with End_of_file -> ()']
    return '\n'.join(out)

def lcfirst(s):
    return s[0].lower() + s[1:]

def gen_extract(meta, group, mlname):
    names = ' '.join(k['coq'] for k in meta['kernels'] if k.get('cxx'))
    return ('From Coq Require Import Extraction ExtrOcamlBasic.\nRequire Import Num Vec %s_gen.\n'
            'Extraction Language OCaml.\nExtraction "%s.ml" %s.\n' % (group, mlname, names))

def default_arg(rng, t, dom=None):
    def s():
        # away from zero so divisions by an argument stay well-conditioned; mixed signs and magnitudes
        x = rng.uniform(0.3, 2.0) * rng.choice((-1.0, 1.0))
        return x
    if t == 'B': return [float(rng.randint(0, 1))]
    return [s() for _ in range(NSC[t])]

def run_tv(ctx, group, meta, ncases_per_kernel, argfn=None, rtol=1e-9, atol=1e-11, prelude_extra=''):
    """Returns list of disagreements [(kernel, args, cxx_out, model_out)]"""
    d = ctx.bdir('tv_' + group); os.makedirs(d, exist_ok=True)
    mlname = group + '_x'
    open(os.path.join(d, 'harness.cpp'), 'w').write(gen_cxx(meta, prelude_extra))
    if not ctx.extract(gen_extract(meta, group, mlname), d):
        ctx.broken.append(('correspondence:' + group, 'extraction failed')); return []
    open(os.path.join(d, 'drv.ml'), 'w').write(gen_ml(meta, mlname.capitalize()))
    if not ctx.ocaml(d, [mlname + '.mli', mlname + '.ml', 'drv.ml'], 'drv'):
        ctx.broken.append(('correspondence:' + group, 'ocaml driver build failed')); return []
    if not ctx.cxx(os.path.join(d, 'harness.cpp'), os.path.join(d, 'harness')):
        ctx.broken.append(('correspondence:' + group, 'C++ harness does not compile against current source')); return []
    lines = []; cases = []
    for kn in meta['kernels']:
        if not kn.get('cxx'): continue
        for c in range(ncases_per_kernel):
            args = []
            for (pn, pt) in kn['params']:
                a = (argfn(ctx.rng, kn, pn, pt) if argfn else None) or default_arg(ctx.rng, pt)
                args += a
            cases.append((kn['coq'], args)); lines.append(kn['coq'] + ' ' + ' '.join(hexf(x) for x in args))
    inp = '\n'.join(lines) + '\n'
    open(os.path.join(d, 'cases.txt'), 'w').write(inp)
    rc1, o1, e1 = sh([os.path.join(d, 'harness')], input=inp, timeout=1800)
    rc2, o2, e2 = sh([os.path.join(d, 'drv')], input=inp, timeout=1800)
    l1 = [l for l in o1.split('\n') if l.strip()]; l2 = [l for l in o2.split('\n') if l.strip()]
    dis = []
    if rc1 != 0 or rc2 != 0 or len(l1) != len(cases) or len(l2) != len(cases):
        ctx.broken.append(('correspondence:' + group, 'runner failed rc=%s/%s lines=%d/%d of %d: %s' % (rc1, rc2, len(l1), len(l2), len(cases), (e1 + e2)[-400:])))
        return dis
    nontrivial = set()
    for (k, args), a, b in zip(cases, l1, l2):
        fa, fb = parse_floats(a), parse_floats(b)
        sc = max([1.0] + [abs(x) for x in fa if x == x and abs(x) != float('inf')])
        ok = len(fa) == len(fb) and len(fa) > 0 and all(close(x, y, rtol, atol, sc) for x, y in zip(fa, fb))
        if not ok: dis.append((k, args, fa, fb))
        if any(x != 0 for x in fa): nontrivial.add((k, tuple(args)))
    ctx.add_cases(len(cases), len(nontrivial), [{'kernel': cases[0][0], 'args': cases[0][1], 'cxx': parse_floats(l1[0]), 'model': parse_floats(l2[0])}])
    ctx.extra.setdefault('correspondence', {})[group] = {'kernels': len([k for k in meta['kernels'] if k.get('cxx')]),
        'cases': len(cases), 'disagreements': len(dis), 'rtol': rtol, 'atol': atol}
    ctx.trusted.add('correspondence harness (generated C++ harness, OCaml driver with float NumOps, tolerance %g rel)' % rtol)
    return dis
