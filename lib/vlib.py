"""Shared machinery for /verif/bin/check (DESIGN section 3).

A check = checks/Cnn.py with `run(ctx)`.  It uses the helpers below to
  1. rebuild the implementation from /repo's working tree (hooks on),
  2. regenerate translated models, build the Coq theorems of the property (obligations),
  3. run the correspondence between extracted model and implementation,
  4. on any break run the failing-input search,
and ctx.finish() writes evidence/<id>.json, prints VIOLATION / KNOWN-FINDING lines, sets exit code.
"""
import os, sys, json, time, subprocess, re, random, hashlib, shutil, struct

VERIF = '/verif'
REPO = os.environ.get('VERIF_REPO', '/repo')
BUILD = os.path.join(VERIF, 'build')
COQ = os.path.join(VERIF, 'coq')
LIBDIR = os.environ.get('VERIF_IMPL_BUILD', os.path.join(BUILD, 'repo'))

FORBIDDEN = r'\b(Admitted|admit|Axiom|Axioms|Parameter|Parameters|Conjecture|Admit Obligations)\b|Unset Guard|bypass_check|type-in-type|impredicative-set|Unset Universe Checking|Unset Positivity'

def sh(cmd, cwd=None, timeout=3600, input=None, env=None):
    e = dict(os.environ); e.update(env or {})
    r = subprocess.run(cmd, shell=isinstance(cmd, str), cwd=cwd, capture_output=True, text=True,
                       timeout=timeout, input=input, env=e)
    out = '\n'.join(l for l in (r.stdout or '').split('\n') if 'conda.cli.condarc' not in l)
    return r.returncode, out, r.stderr or ''

def include_flags():
    out = []
    for top in ('SimTKcommon', 'SimTKmath', 'Simbody'):
        for root, dirs, files in os.walk(os.path.join(REPO, top)):
            if os.path.basename(root) == 'include':
                out.append('-I' + root); dirs[:] = []
    return sorted(out)

def hexf(x):
    return float(x).hex()

def parse_floats(line):
    out = []
    for tok in line.split():
        try: out.append(float.fromhex(tok))
        except ValueError:
            try: out.append(float(tok))
            except ValueError: out.append(float('nan'))
    return out

def close(a, b, rtol=1e-9, atol=1e-12, scale=None):
    if a != a and b != b: return True
    if a != a or b != b: return False
    if a in (float('inf'), float('-inf')) or b in (float('inf'), float('-inf')): return a == b
    s = scale if scale is not None else max(abs(a), abs(b))
    return abs(a - b) <= rtol * s + atol

class Ctx:
    def __init__(self, pid, tier='quick', seed=None, replay=None):
        self.pid = pid; self.tier = tier; self.replay = replay
        self.seed = int(seed if seed is not None else os.environ.get('VERIF_SEED', '20260922'))
        self.rng = random.Random(self.seed * 1000003 + int(hashlib.sha1(pid.encode()).hexdigest()[:8], 16))
        self.t0 = time.time()
        self.obligations = []      # names of theorems in the Properties files
        self.discharged = []
        self.broken = []           # (what, why)  theorem files / translator kernels / correspondence that no longer check
        self.trusted = set()
        self.checker_cmds = []
        self.cov = {'evaluations': 0, 'distinct_nontrivial': 0, 'rule': '', 'samples': []}
        self.extra = {}
        self.assumptions = []
        self.violations = []       # (key, replay_path, found_input)
        self.known_hits = []
        self.notes = []
        self.known, self.fixed = load_known(pid)
        os.makedirs(self.bdir(), exist_ok=True)
    # ---------------------------------------------------------------- paths
    def bdir(self, *p):
        return os.path.join(BUILD, self.pid, *p)
    def log(self, msg):
        print('[%s %6.1fs] %s' % (self.pid, time.time() - self.t0, msg), flush=True)
    # ---------------------------------------------------------------- implementation build
    def build_repo(self):
        if os.environ.get('VERIF_SKIP_IMPL_BUILD'):
            self.log('implementation library build skipped (VERIF_SKIP_IMPL_BUILD); headers from %s' % REPO); return
        rc, out, err = sh([os.path.join(VERIF, 'bin', 'build_repo')], timeout=3600)
        if rc != 0:
            self.log('implementation build FAILED:\n' + out[-3000:] + err[-3000:])
            self.fatal('the implementation under test does not build from /repo working tree')
        self.log('implementation rebuilt from %s' % REPO)
    def fatal(self, msg):
        print('ERROR property=%s %s' % (self.pid, msg), flush=True)
        sys.exit(2)
    def cxx(self, src, exe, flags=(), std='c++17', opt='-O1', sanitize=None, timeout=900):
        """Compile a harness against /repo's headers and the rebuilt libraries."""
        os.makedirs(os.path.dirname(exe), exist_ok=True)
        cmd = ['g++', '-std=' + std, opt, '-w', '-DSIMBODY_VERIF'] + include_flags() + \
              ['-I' + os.path.join(VERIF, 'harness'), '-I' + REPO] + list(flags)
        if sanitize: cmd += ['-g', '-fsanitize=' + sanitize, '-fno-omit-frame-pointer']
        cmd += [src, '-o', exe, '-L' + LIBDIR, '-Wl,-rpath,' + LIBDIR, '-lSimTKsimbody', '-lSimTKmath', '-lSimTKcommon', '-lpthread']
        # shared lock: never link while bin/build_repo (exclusive lock on the same file) is rewriting the libraries
        cmd = ['flock', '-s', LIBDIR + '.lock'] + cmd
        rc, out, err = sh(cmd, timeout=timeout)
        if rc != 0 and ('file too short' in err or 'file truncated' in err or 'cannot find -lSimTK' in err):
            time.sleep(20); rc, out, err = sh(cmd, timeout=timeout)
        if rc != 0:
            self.log('harness compile failed: %s\n%s' % (src, err[-4000:]))
            return False
        return True
    # ---------------------------------------------------------------- translator
    def translate(self, group):
        rc, out, err = sh([sys.executable, os.path.join(VERIF, 'translate', 'sk2coq.py'), group], timeout=600)
        meta = json.load(open(os.path.join(COQ, 'Gen', group + '.json')))
        self.trusted.add('translator translate/sk2coq.py + clang 14 JSON AST (group %s: %d kernels regenerated from %s)' %
                         (group, len(meta['kernels']), meta['source']))
        for name, why in meta['failed']:
            self.broken.append(('translator:%s:%s' % (group, name), why))
        if rc not in (0, 3): self.fatal('translator crashed: ' + err[-2000:])
        self.log('translated group %s: %d kernels, %d failed' % (group, len(meta['kernels']), len(meta['failed'])))
        return meta
    # ---------------------------------------------------------------- Coq
    def coq_make(self, targets, timeout=3000):
        """Build .vo targets (paths relative to coq/) with the project Makefile, serialised by a lock."""
        clean = ''
        if self.tier == 'thorough':
            # re-prove from scratch, but only this property's own files (shared Base/Lib/Gen .vo are left alone)
            own = [t for t in targets if re.match(r'(%s/|Props/Properties_%s)' % (self.pid, self.pid), t)]
            clean = ' '.join('rm -f %s.vo %s.glob %s.vok %s.vos;' % ((t[:-3],) * 4) for t in own)
        cmd = "flock %s/.coqlock sh -c 'ulimit -v 16000000; %s %s/bin/mkcoqproject; timeout %d make -k -j16 %s'" % (BUILD, clean, VERIF, timeout, ' '.join(targets))
        rc, out, err = sh(cmd, cwd=COQ, timeout=timeout + 60)
        built = [t for t in targets if os.path.exists(os.path.join(COQ, t)) and
                 os.path.getmtime(os.path.join(COQ, t)) >= os.path.getmtime(os.path.join(COQ, t[:-1]))]
        log = out + err
        open(self.bdir('coq_make.log'), 'w').write(log)
        return rc == 0, built, log
    def coq_props(self, props_files, deps=None, timeout=3000):
        """Obligations = Theorems in the given Properties files.  Builds their dependencies with make,
        then compiles each Properties file directly to capture Print Assumptions."""
        names_all = []
        for pf in props_files:
            src = open(os.path.join(COQ, pf)).read()
            names = re.findall(r'^Theorem\s+([\w\']+)', src, re.M)
            names_all += names; self.obligations += names
        # forbidden constructs anywhere in the development
        bad = forbidden_scan()
        if bad:
            self.broken.append(('forbidden-construct', bad[0]))
        # build what the statement files Require (make + coqdep), then compile the statement files
        # themselves directly so that this run's Print Assumptions output is captured
        deps = list(deps or [])
        allv = {}
        for root, ds, fs in os.walk(COQ):
            for f in fs:
                if f.endswith('.v'): allv[f[:-2]] = os.path.relpath(os.path.join(root, f), COQ)
        for pf in props_files:
            src = open(os.path.join(COQ, pf)).read()
            for m in re.finditer(r'^Require (?:Import|Export) ([^.]*)\.', src, re.M):
                for nm in m.group(1).split():
                    if nm in allv and allv[nm][:-2] + '.vo' not in deps: deps.append(allv[nm][:-2] + '.vo')
        ok, built, log = self.coq_make(deps, timeout=timeout)
        # the statement files are compiled as READERS of the shared .vo files (shared lock: never while another check's
        # thorough tier is in the middle of deleting and rebuilding its own files, which it does under the exclusive lock)
        def start(pf):
            return subprocess.Popen("flock -s %s/.coqlock sh -c 'ulimit -v 16000000; timeout %d coqc -R . SV %s'" % (BUILD, timeout, pf), shell=True, cwd=COQ,
                                    stdout=subprocess.PIPE, stderr=subprocess.STDOUT, text=True)
        procs = []
        for pf in props_files:
            if ok:
                procs.append((pf, start(pf)))
            else:
                self.broken.append(('coq:' + pf, first_error(log)))
        results = []
        for pf, pr in procs:
            out = pr.communicate()[0]; rc = pr.returncode
            if rc != 0 and ('inconsistent assumptions' in out or 'Cannot find a physical path' in out or 'Unable to locate library' in out or 'No such file' in out):
                # a dependency was rebuilt by a concurrent run between our make and this compile: bring it up to date again, once
                ok2, _b, _l = self.coq_make(deps, timeout=timeout)
                if ok2:
                    pr2 = start(pf); out = pr2.communicate()[0]; rc = pr2.returncode
            results.append((pf, rc, out))
        for pf, rc_pf, out in results:
            names = re.findall(r'^Theorem\s+([\w\']+)', open(os.path.join(COQ, pf)).read(), re.M)
            if rc_pf == 0:
                self.discharged += names
                for ax in re.findall(r'^([A-Za-z_][\w\.\']*)\s*:', out, re.M):
                    if ax not in ('Axioms', 'Warning', 'File', 'Error', 'Notation', 'Fetching'): self.trusted.add('axiom ' + ax)
                if 'Closed under the global context' in out: self.trusted.add('some theorems closed under the global context (no axioms)')
            else:
                self.broken.append(('coq:' + pf, first_error(out)))
        self.checker_cmds.append('cd /verif/coq && make -k -j16 ' + ' '.join(pf[:-2] + '.vo' for pf in props_files) + ' (coqc 8.16.1, full .vo)')
        self.trusted.add('Coq 8.16.1 kernel (coqc, no native_compute)')
        self.log('coq: %d/%d obligations discharged' % (len(self.discharged), len(self.obligations)))
        if self.tier == 'thorough' and not self.broken:
            self.coqchk(props_files)
        return not any(b[0].startswith('coq:') or b[0] == 'forbidden-construct' for b in self.broken)
    def coqchk(self, props_files):
        mods = ' '.join('SV.' + pf[:-2].replace('/', '.') for pf in props_files)
        rc, out, err = sh("flock -s %s/.coqlock sh -c 'timeout 1500 coqchk -o -silent -R . SV %s'" % (BUILD, mods), cwd=COQ, timeout=3600)
        open(self.bdir('coqchk.log'), 'w').write(out + err)
        if rc != 0: self.broken.append(('coqchk', (out + err)[-500:]))
        else:
            self.checker_cmds.append('coqchk -o -silent -R . SV ' + mods)
            self.extra['coqchk'] = 'passed'
    # ---------------------------------------------------------------- extraction / OCaml
    def extract(self, extract_v_text, outdir, name='Extract'):
        """Run an extraction file (text) inside outdir so the .ml lands there."""
        os.makedirs(outdir, exist_ok=True)
        p = os.path.join(outdir, name + '.v'); open(p, 'w').write(extract_v_text)
        cmd = "flock -s %s/.coqlock sh -c 'timeout 900 coqc -R %s SV %s'" % (BUILD, COQ, p)
        rc, out, err = sh(cmd, cwd=outdir, timeout=3000)
        if rc != 0 and any(k in out + err for k in ('inconsistent assumptions', 'Cannot find a physical path', 'Unable to locate library', 'No such file')):
            # a module this extraction Requires was rebuilt by a concurrent run: rebuild what it needs and try once more
            allv = {}
            for root, ds, fs in os.walk(COQ):
                for f in fs:
                    if f.endswith('.v'): allv[f[:-2]] = os.path.relpath(os.path.join(root, f), COQ)
            need = []
            for m in re.finditer(r'^Require (?:Import|Export) ([^.]*)\.', extract_v_text, re.M):
                for nm in m.group(1).split():
                    if nm in allv: need.append(allv[nm][:-2] + '.vo')
            if need:
                self.coq_make(need)
                rc, out, err = sh(cmd, cwd=outdir, timeout=3000)
        if rc != 0:
            self.log('extraction failed:\n' + (out + err)[-3000:]); return False
        self.trusted.add('Coq extraction to OCaml with ExtrOcamlBasic only (no Extract Constant/Inductive of our own); OCaml 4.13.1')
        return True
    def ocaml(self, outdir, files, exe):
        rc, out, err = sh('ocamlfind ocamlopt -w -a -O2 %s -o %s 2>&1 || ocamlfind ocamlopt -w -a %s -o %s' %
                          (' '.join(files), exe, ' '.join(files), exe), cwd=outdir, timeout=900)
        if rc != 0:
            self.log('ocaml build failed:\n' + (out + err)[-3000:]); return False
        return True
    # ---------------------------------------------------------------- results
    def add_cases(self, n, distinct=None, samples=None):
        self.cov['evaluations'] += n
        if distinct is not None: self.cov['distinct_nontrivial'] += distinct
        if samples:
            for s in samples:
                if len(self.cov['samples']) < 8: self.cov['samples'].append(s)
    def write_replay(self, obj):
        d = os.path.join(VERIF, 'replay', self.pid); os.makedirs(d, exist_ok=True)
        txt = json.dumps(obj, indent=1, sort_keys=True, default=str)
        p = os.path.join(d, hashlib.sha1(txt.encode()).hexdigest()[:12] + '.json')
        open(p, 'w').write(txt)
        return p
    def report(self, key, desc, replay_obj, found_input=True):
        """A property failure.  Listed in known_findings.txt under this key -> KNOWN-FINDING, else VIOLATION."""
        if key in self.known:
            if key not in self.known_hits:
                self.known_hits.append(key)
                print('KNOWN-FINDING: property=%s %s [%s]' % (self.pid, self.known[key], key), flush=True)
            return False
        replay_obj = dict(replay_obj); replay_obj.update({'property': self.pid, 'key': key, 'what': desc, 'seed': self.seed,
                           'no_longer_checks': [{'what': w, 'why': y} for w, y in self.broken]})
        p = self.write_replay(replay_obj)
        self.violations.append((key, p, found_input))
        return True
    def finish(self):
        # any broken obligation/correspondence without a concrete failing input is still a violation
        if self.broken and not any(v[2] for v in self.violations):
            p = self.write_replay({'property': self.pid, 'no_failing_input_found': True,
                                   'no_longer_checks': [{'what': w, 'why': y} for w, y in self.broken], 'seed': self.seed})
            self.violations.append(('broken', p, False))
        wall = time.time() - self.t0
        cov = dict(self.cov)
        cov['obligations'] = len(self.obligations)
        cov['discharged'] = len(self.discharged)
        cov['checker_cmd'] = '; '.join(self.checker_cmds) or 'none'
        cov['trusted_base'] = sorted(self.trusted)
        cov['broken'] = [{'what': w, 'why': y} for w, y in self.broken]
        cov['known_findings_reproduced'] = list(self.known_hits)
        cov['theorems'] = self.obligations
        cov.update(self.extra)
        if not cov['samples']: cov['samples'] = self.obligations[:5] or ['(none)']
        ev = {'property_id': self.pid, 'tier': self.tier, 'seed': self.seed, 'level': 'proof', 'coverage': cov,
              'assumptions': self.assumptions, 'wall_s': round(wall, 2), 'violations': len(self.violations)}
        os.makedirs(os.path.join(VERIF, 'evidence'), exist_ok=True)
        json.dump(ev, open(os.path.join(VERIF, 'evidence', self.pid + '.json'), 'w'), indent=1, sort_keys=True)
        for key, p, found in self.violations:
            print('VIOLATION property=%s replay=%s%s' % (self.pid, p, '' if found else ' no-failing-input-found'), flush=True)
        self.log('done: obligations %d/%d, evaluations %d, violations %d, known findings %d, %.1fs' %
                 (len(self.discharged), len(self.obligations), self.cov['evaluations'], len(self.violations), len(self.known_hits), wall))
        sys.exit(1 if self.violations else 0)

def strip_coq_comments(text):
    """remove (possibly nested) (* ... *) comments, keeping newlines so that line numbers survive"""
    out = []; depth = 0; i = 0; n = len(text); instr = False
    while i < n:
        c = text[i]
        if depth == 0 and c == '"':
            instr = not instr; out.append(c); i += 1; continue
        if not instr and text.startswith('(*', i):
            depth += 1; i += 2; continue
        if not instr and depth > 0 and text.startswith('*)', i):
            depth -= 1; i += 2; continue
        if depth > 0:
            if c == '\n': out.append(c)
            i += 1; continue
        out.append(c); i += 1
    return ''.join(out)

def forbidden_scan():
    """Admitted/admit/Axiom/Parameter/Conjecture/guard switches anywhere in the development (comments ignored).
    Variable/Hypothesis outside a Section are not detected here; Print Assumptions would list them as axioms."""
    bad = []
    for root, ds, fs in os.walk(COQ):
        for f in fs:
            if not f.endswith('.v') or re.search(r'dbg|debug|tmp|scratch|_try', f, re.I): continue
            p = os.path.join(root, f)
            try: txt = strip_coq_comments(open(p, errors='replace').read())
            except OSError: continue
            for ln, line in enumerate(txt.split('\n'), 1):
                if re.search(FORBIDDEN, line):
                    bad.append('%s:%d: %s' % (os.path.relpath(p, COQ), ln, line.strip()[:160]))
    return bad

def first_error(log):
    m = re.search(r'(File "[^"]+", line \d+, characters [\d-]+:\s*\n(?:Warning.*\n(?:.*\n)*?)?Error:?(?:.*\n){0,12})', log)
    if m: return m.group(1)[:1500]
    m = re.search(r'(File "[^"]+", line \d+[^\n]*\n\s*Error(?:.*\n){0,10})', log)
    if m: return m.group(1)[:1500]
    idx = log.find('Error')
    return log[max(0, idx - 300): idx + 900] if idx >= 0 else log[-800:]

def load_known(pid):
    known = {}; fixed = []
    p = os.path.join(VERIF, 'known_findings.txt')
    if os.path.exists(p):
        for line in open(p):
            line = line.strip()
            m = re.match(r'known:\s+property=(\S+)\s+key=(\S+)\s+(.*)', line)
            if m and m.group(1) == pid: known[m.group(2)] = m.group(3)
            m = re.match(r'fixed:\s+property=(\S+)\s+(\S+)\s+(.*)', line)
            if m and m.group(1) == pid: fixed.append((m.group(2), m.group(3)))
    return known, fixed
