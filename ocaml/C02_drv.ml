(* Driver for the extracted C02 model (coq/C02/C02_Model.v).  Reads the systems printed by
   harness/C02_probe.cpp (inputs only; OUT lines are ignored) and prints the model's OUT lines, plus
   HYP lines: how well the per-node hypotheses of theorem fd_then_rnea_zero (D*DI = 1, DI symmetric)
   hold for the inverse the model computed in floating point.
   Prepended at build time:  open C02run  +  ocaml/fops.inc *)
let rec nat_of_int n = if n <= 0 then O else S (nat_of_int (n - 1))
let rec int_of_nat = function O -> 0 | S n -> 1 + int_of_nat n
let fl = float_of_string
let v3 a b c = ((a, b), c)
let sv a b c d e f = (v3 a b c, v3 d e f)
let pr_sv ((((a, b), c), ((d, e), f))) = Printf.printf " %h %h %h %h %h %h" a b c d e f
let pr_v3 ((a, b), c) = Printf.printf " %h %h %h" a b c
let pr_list l = List.iter (fun x -> Printf.printf " %h" x) l
let rec take n l = if n = 0 then [] else match l with [] -> [] | x :: r -> x :: take (n - 1) r
let rec drop n l = if n = 0 then l else match l with [] -> [] | _ :: r -> drop (n - 1) r
let slice l a n = take n (drop a l)

type body = { idx : int; par : int; nu : int; u0 : int; l : (float * float) * float;
              m : float; p : (float * float) * float; ine : ((float * float) * float) * ((float * float) * float);
              mutable h : (((float * float) * float) * ((float * float) * float)) list }

let () =
  let bodies = ref [] and ud = ref [] and mf = ref [] and fb = Hashtbl.create 16
  and cor = Hashtbl.create 16 and gyr = Hashtbl.create 16 and nu = ref 0 in
  let reset () = bodies := []; ud := []; mf := []; Hashtbl.reset fb; Hashtbl.reset cor; Hashtbl.reset gyr; nu := 0 in
  let finish () =
    let bl = List.rev !bodies in
    Printf.printf "SYS %d %d 0\n" (List.length bl + 1) !nu;
    let zero = sv 0. 0. 0. 0. 0. 0. in
    let get tbl i = try Hashtbl.find tbl i with Not_found -> zero in
    let mk b = { c_idx = nat_of_int b.idx; c_par = nat_of_int b.par;
                 c_nd = { n_l = b.l; n_H = List.rev b.h; n_M = ((b.m, b.p), b.ine) };
                 c_ud = slice !ud b.u0 b.nu;
                 c_dy = { d_a = get cor b.idx; d_g = get gyr b.idx; d_F = get fb b.idx; d_f = slice !mf b.u0 b.nu } } in
    let t = cmkTree fops (get fb 0) (List.map mk bl) in
    let byidx l = List.sort (fun (a, _) (b, _) -> compare a b) (List.map (fun (i, x) -> (int_of_nat i, x)) l) in
    let out_sv tag l = List.iter (fun (i, v) -> Printf.printf "OUT %s %d" tag i; pr_sv v; print_newline ()) (byidx l) in
    let out_cat tag l = Printf.printf "OUT %s" tag; List.iter (fun (_, v) -> pr_list v) (byidx l); print_newline () in
    out_cat "RESID" (out_resid fops t);
    out_sv "IDACC" (out_idacc fops t);
    let fdr = List.map (fun ((i, zr), au) -> (i, (zr, au))) (out_fd fops t) in
    out_cat "FDUD" (List.map (fun (i, (_, (_, u))) -> (i, u)) fdr);
    out_sv "FDACC" (List.map (fun (i, (_, (a, _))) -> (i, a)) fdr);
    out_cat "RUD" (List.map (fun (i, (_, (_, u))) -> (i, u)) fdr);
    out_sv "RACC" (List.map (fun (i, (_, (a, _))) -> (i, a)) fdr);
    out_cat "EQUIV" (out_equiv fops t);
    out_sv "REACT" (out_react_art fops t);
    out_sv "REACTFB" (out_react_fb fops t);
    let mi = out_minv fops t in
    out_cat "MINV" mi; out_cat "MINVMAT" mi;
    let ab = byidx (out_abi fops t) in
    List.iter (fun (i, a) -> if i > 0 then begin
        let ((mm, ff), jj) = a.a_P in
        let (md, ml) = mm and (jd, jl) = jj and ((r0, r1), r2) = ff in
        Printf.printf "OUT ABI %d" i; pr_v3 md; pr_v3 ml; pr_v3 r0; pr_v3 r1; pr_v3 r2; pr_v3 jd; pr_v3 jl; print_newline ();
        let ((mm, ff), jj) = a.a_Pp in
        let (md, ml) = mm and (jd, jl) = jj and ((r0, r1), r2) = ff in
        Printf.printf "OUT PPLUS %d" i; pr_v3 md; pr_v3 ml; pr_v3 r0; pr_v3 r1; pr_v3 r2; pr_v3 jd; pr_v3 jl; print_newline () end) ab;
    out_sv "Z" (List.map (fun (i, (zr, _)) -> (i, zr.z_z)) fdr);
    out_sv "ZP" (List.map (fun (i, (zr, _)) -> (i, zr.z_zp)) fdr);
    out_cat "EPS" (List.map (fun (i, (zr, _)) -> (i, zr.z_eps)) fdr);
    out_cat "IDFD" (out_rnea_of_fd fops t);
    (* internal articulated-body quantities, flattened per body: D, DI (row-major), G (column by column) *)
    List.iter (fun (i, a) -> if a.a_D <> [] then begin
        Printf.printf "OUT DMAT %d" i; List.iter pr_list a.a_D; print_newline ();
        Printf.printf "OUT DIMAT %d" i; List.iter pr_list a.a_DI; print_newline ();
        Printf.printf "OUT GMAT %d" i; List.iter pr_sv a.a_G; print_newline () end) ab;
    (* hypotheses of the main theorem evaluated on the floating-point run *)
    let e1 = ref 0.0 and e2 = ref 0.0 in
    List.iter (fun (_, a) ->
        let d = Array.of_list (List.map Array.of_list a.a_D) and di = Array.of_list (List.map Array.of_list a.a_DI) in
        let n = Array.length d in
        for r = 0 to n - 1 do for c = 0 to n - 1 do
          let s = ref 0.0 in for k = 0 to n - 1 do s := !s +. d.(r).(k) *. di.(k).(c) done;
          e1 := max !e1 (abs_float (!s -. (if r = c then 1.0 else 0.0)));
          let sc = max 1e-300 (max (abs_float di.(r).(c)) (abs_float di.(c).(r))) in
          e2 := max !e2 (abs_float (di.(r).(c) -. di.(c).(r)) /. sc *. (if abs_float di.(r).(c) > 1e-9 *. abs_float di.(r).(r) then 1.0 else 0.0))
        done done) ab;
    Printf.printf "HYP %h %h\n" !e1 !e2;
    (* the remaining hypothesis of the any-dof theorems: the elimination pivots of every D block are non-zero *)
    let pmin = ref infinity in
    List.iter (fun (_, ps) -> List.iter (fun p -> let a = abs_float p in if not (a >= !pmin) then pmin := a) ps) (out_pivots fops t);
    Printf.printf "PIV %h\n" !pmin;
    print_endline "END" in
  try while true do
    let line = input_line stdin in
    match toks line with
    | "SYS" :: _ :: n :: _ -> reset (); nu := int_of_string n
    | "BODY" :: i :: p :: n :: u0 :: _ :: _ :: r ->
        let f = Array.of_list (List.map fl r) in
        bodies := { idx = int_of_string i; par = int_of_string p; nu = int_of_string n; u0 = int_of_string u0;
                    l = v3 f.(0) f.(1) f.(2); m = f.(3); p = v3 f.(4) f.(5) f.(6);
                    ine = (v3 f.(7) f.(8) f.(9), v3 f.(10) f.(11) f.(12)); h = [] } :: !bodies
    | "H" :: _ :: _ :: r -> let f = Array.of_list (List.map fl r) in
        (match !bodies with b :: _ -> b.h <- sv f.(0) f.(1) f.(2) f.(3) f.(4) f.(5) :: b.h | [] -> ())
    | "UD" :: r -> ud := List.map fl r
    | "MF" :: r -> mf := List.map fl r
    | "FB" :: i :: r -> let f = Array.of_list (List.map fl r) in Hashtbl.replace fb (int_of_string i) (sv f.(0) f.(1) f.(2) f.(3) f.(4) f.(5))
    | "COR" :: i :: r -> let f = Array.of_list (List.map fl r) in Hashtbl.replace cor (int_of_string i) (sv f.(0) f.(1) f.(2) f.(3) f.(4) f.(5))
    | "GYR" :: i :: r -> let f = Array.of_list (List.map fl r) in Hashtbl.replace gyr (int_of_string i) (sv f.(0) f.(1) f.(2) f.(3) f.(4) f.(5))
    | "END" :: _ -> finish ()
    | "SKIP" :: _ -> print_endline "SKIP"
    | _ -> ()
  done with End_of_file -> ()
