(* Driver for the extracted kinematics pipeline (coq/C03/C03_Model.v over coq/C05/C05_Model.v).  Reads the systems
   printed by harness/C03_probe.cpp (inputs only; OUT lines are ignored) and prints the model's OUT lines.
   Prepended at build time:  open C03  +  ocaml/fops.inc *)
let rec nat_of_int n = if n <= 0 then O else S (nat_of_int (n - 1))
let rec int_of_nat = function O -> 0 | S n -> 1 + int_of_nat n
let fl = float_of_string
let mtypes = [| MPin; MSlider; MUniversal; MCylinder; MBendStretch; MPlanar; MGimbal; MBushing; MBall; MFree;
                MTranslation; MScrew; MEllipsoid; MLineOrientation; MFreeLine; MSphericalCoords; MWeld |]
let rec take n l = if n = 0 then [] else match l with [] -> [] | x :: r -> x :: take (n - 1) r
let rec drop n l = if n = 0 then l else match l with [] -> [] | _ :: r -> drop (n - 1) r
let slice l a n = take n (drop a l)
let v3 a b c = ((a, b), c)
let xf (f : float array) o = (((v3 f.(o) f.(o+1) f.(o+2), v3 f.(o+3) f.(o+4) f.(o+5)), v3 f.(o+6) f.(o+7) f.(o+8)), v3 f.(o+9) f.(o+10) f.(o+11))
let pr_v3 ((a, b), c) = Printf.printf " %h %h %h" a b c
let pr_sv (w, v) = pr_v3 w; pr_v3 v
let pr_x (((r0, r1), r2), p) = pr_v3 r0; pr_v3 r1; pr_v3 r2; pr_v3 p
type body = { idx : int; par : int; m : float mspec; rev : bool; q0 : int; nq : int; u0 : int; nu : int;
              xpf : ((((float*float)*float)*((float*float)*float))*((float*float)*float)) * ((float*float)*float);
              xbm : ((((float*float)*float)*((float*float)*float))*((float*float)*float)) * ((float*float)*float) }
let () =
  let bodies = ref [] and q = ref [] and u = ref [] and w = ref [] and f = ref [] and ud = ref [] and sts = ref []
  and nU = ref 0 and nQ = ref 0 and euler = ref false in
  let reset () = bodies := []; q := []; u := []; w := []; f := []; ud := []; sts := [] in
  let finish () =
    let bl = List.rev !bodies in
    Printf.printf "SYS %d %d %d %d\n" (List.length bl + 1) !nU !nQ (if !euler then 1 else 0);
    let bq b l = slice l b.q0 b.nq and bu b l = slice l b.u0 b.nu in
    let nodes = List.map (fun b -> mk_jnode fops (nat_of_int b.idx) (nat_of_int b.par) b.m b.rev b.xpf b.xbm (bq b !q) (bu b !u)) bl in
    let res = List.sort (fun (a, _) (b, _) -> compare a b) (List.map (fun (i, x) -> (int_of_nat i, x)) (run_kin fops nodes)) in
    List.iter (fun (i, (x, v)) -> Printf.printf "OUT X %d" i; pr_x x; print_newline (); Printf.printf "OUT V %d" i; pr_sv v; print_newline ()) res;
    List.iter (fun (i, b, p) -> let (x, v) = List.assoc b res in
                 Printf.printf "OUT ST %d" i; pr_v3 (station_loc fops x p); pr_v3 (station_vel fops x v p); print_newline ()) (List.rev !sts);
    (* block-diagonal operators: results placed at each body's q / u slots, unused slots zero *)
    let qlike g = let a = Array.make !nQ 0.0 in List.iter (fun b -> List.iteri (fun k x -> if k < b.nq then a.(b.q0 + k) <- x) (g b)) bl; a in
    let ulike g = let a = Array.make !nU 0.0 in List.iter (fun b -> List.iteri (fun k x -> if k < b.nu then a.(b.u0 + k) <- x) (g b)) bl; a in
    let out tag a = Printf.printf "OUT %s" tag; Array.iter (fun x -> Printf.printf " %h" x) a; print_newline () in
    out "QDOT" (qlike (fun b -> mob_N fops b.m (bq b !q) (bu b !u)));
    out "QDD" (qlike (fun b -> mob_qdd fops b.m (bq b !q) (bu b !u) (bu b !ud)));
    out "NW" (qlike (fun b -> mob_N fops b.m (bq b !q) (bu b !w)));
    out "NTF" (ulike (fun b -> mob_NT fops b.m (bq b !q) (bq b !f)));
    out "NINVF" (ulike (fun b -> mob_NInv fops b.m (bq b !q) (bq b !f)));
    out "NINVTW" (qlike (fun b -> mob_NInvT fops b.m (bq b !q) (bu b !w)));
    out "NDOTW" (qlike (fun b -> mob_NDot fops b.m (bq b !q) (bu b !u) (mob_N fops b.m (bq b !q) (bu b !u)) (bu b !w)));
    out "NDOTTF" (ulike (fun b -> mob_NDotT fops b.m (bq b !q) (bu b !u) (mob_N fops b.m (bq b !q) (bu b !u)) (bq b !f)));
    print_endline "END" in
  try while true do
    let line = input_line stdin in
    match toks line with
    | "SYS" :: _ :: nu :: nq :: e :: _ -> reset (); nU := int_of_string nu; nQ := int_of_string nq; euler := (e = "1")
    | "BODY" :: i :: p :: ty :: rev :: q0 :: nq :: u0 :: nu :: np :: r ->
        let np = int_of_string np in
        let fa = Array.of_list (List.map fl r) in
        let par = Array.to_list (Array.sub fa 0 np) in
        bodies := { idx = int_of_string i; par = int_of_string p;
                    m = { m_type = mtypes.(int_of_string ty); m_euler = !euler; m_par = par }; rev = (rev = "1");
                    q0 = int_of_string q0; nq = int_of_string nq; u0 = int_of_string u0; nu = int_of_string nu;
                    xpf = xf fa np; xbm = xf fa (np + 12) } :: !bodies
    | "Q" :: r -> q := List.map fl r
    | "U" :: r -> u := List.map fl r
    | "W" :: r -> w := List.map fl r
    | "F" :: r -> f := List.map fl r
    | "UD" :: r -> ud := List.map fl r
    | "ST" :: i :: b :: r -> let a = Array.of_list (List.map fl r) in sts := (int_of_string i, int_of_string b, v3 a.(0) a.(1) a.(2)) :: !sts
    | "END" :: _ -> finish ()
    | "SKIP" :: _ -> print_endline "SKIP"
    | _ -> ()
  done with End_of_file -> ()
