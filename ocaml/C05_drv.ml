(* Driver for the extracted mobilizer catalogue (coq/C05/C05_Model.v).  Reads the CASE lines printed by
   harness/C05_probe.cpp (OUT lines are ignored) and prints the model's OUT X / OUT V / OUT H lines.
   Prepended at build time:  open C05  +  ocaml/fops.inc *)
let fl = float_of_string
let mtypes = [| MPin; MSlider; MUniversal; MCylinder; MBendStretch; MPlanar; MGimbal; MBushing; MBall; MFree;
                MTranslation; MScrew; MEllipsoid; MLineOrientation; MFreeLine; MSphericalCoords; MWeld |]
let rec take n l = if n = 0 then [] else match l with [] -> [] | x :: r -> x :: take (n - 1) r
let rec drop n l = if n = 0 then l else match l with [] -> [] | _ :: r -> drop (n - 1) r
let pr_v3 ((a, b), c) = Printf.printf " %h %h %h" a b c
let pr_sv (w, v) = pr_v3 w; pr_v3 v
let pr_x (((r0, r1), r2), p) = pr_v3 r0; pr_v3 r1; pr_v3 r2; pr_v3 p
let () =
  try while true do
    let line = input_line stdin in
    match toks line with
    | "CASE" :: ty :: rev :: euler :: _frames :: nq :: nu :: np :: rest ->
        let nq = int_of_string nq and nu = int_of_string nu and np = int_of_string np in
        let f = List.map fl rest in
        let par = take np f in let q = take nq (drop np f) in let u = take nu (drop (np + nq) f) in
        let q2 = take nq (drop (np + nq + nu) f) in let u2 = take nu (drop (np + 2 * nq + nu) f) in
        let m = { m_type = mtypes.(int_of_string ty); m_euler = (euler = "1"); m_par = par } in
        let rev = (rev = "1") in
        print_endline line;
        Printf.printf "OUT X"; pr_x (rep_X fops m rev q); print_newline ();
        Printf.printf "OUT V"; pr_sv (rep_V fops m rev q u); print_newline ();
        List.iteri (fun k h -> Printf.printf "OUT H %d" k; pr_sv h; print_newline ()) (rep_H fops m rev q);
        let xd = mob_X fops m q in
        (match mob_fitQ fops m xd with Some l -> Printf.printf "OUT MFITQ"; List.iter (fun x -> Printf.printf " %h" x) l; print_newline () | None -> ());
        (match mob_fitU fops m q (hu fops (mob_H fops m q) u) with Some l -> Printf.printf "OUT MFITU"; List.iter (fun x -> Printf.printf " %h" x) l; print_newline () | None -> ());
        (* partial fits (public entry points incl. the reversal wrappers) from the second coordinate / speed set *)
        let prl tag l = Printf.printf "OUT %s" tag; List.iter (fun x -> Printf.printf " %h" x) l; print_newline () in
        let (xr, xp) = rep_X fops m rev q in let (vw, vv) = rep_V fops m rev q u in
        prl "PFR" (rep_fitR fops m rev xr q2);
        prl "PFT" (rep_fitT fops m rev xp q2);
        prl "PFW" (rep_fitW fops m rev q vw u2);
        prl "PFL" (rep_fitLV fops m rev q vv u2);
        print_endline "END"
    | _ -> ()
  done with End_of_file -> ()
