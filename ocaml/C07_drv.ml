(* C07 driver for the extracted constraint-kernel model (coq/C07/C07_Model.v), float NumOps.  Stateless:
   one query per stdin line, one result line (floats, %h) per query.
     B <fn> <kind> <tiny> <npar> par.. <nb> anc(24) body(24)*nb <nlam> lam..      fn = PERR|VERR|AERR|FORCE|FORCEG (kinds 0-7), PERR2|VERR2|AERR2|FORCE2|FORCEG2 (contact kinds 13-17)
        a body/ancestor record is X (R row-major 9, p 3), V (w 3, v 3), A (b 3, a 3), all in Ground
     M <fn> <kind> <na> a.. <nb> b.. <nc> c..                                      mobility constraints, see [mob] below *)
open C07model
#include "fops.inc"

let a : float array ref = ref [||]
let ai = ref 0
let nx () = let v = !a.(!ai) in incr ai; v
let ni () = int_of_float (nx ())
let rec nat_of_int n = if n <= 0 then O else S (nat_of_int (n-1))
let v3 () = let x = nx () in let y = nx () in let z = nx () in ((x, y), z)
let m33 () = let r0 = v3 () in let r1 = v3 () in let r2 = v3 () in ((r0, r1), r2)
let sv () = let w = v3 () in let v = v3 () in (w, v)
let rec rep n f = if n <= 0 then [] else let x = f () in x :: rep (n-1) f
let bk () = let r = m33 () in let p = v3 () in let v = sv () in let ac = sv () in { bX = (r, p); bV = v; bA = ac }
let pv3 ((x, y), z) = pf x; pf y; pf z
let psv (w, v) = pv3 w; pv3 v
let flist () = let n = ni () in rep n nx

let body fn =
  let kind = nat_of_int (ni ()) in let tiny = nx () in let par = flist () in
  let nb = ni () in let anc = bk () in let bs = rep nb bk in let lam = flist () in
  match fn with
  | "PERR" -> List.iter pf (ev_perr fops kind tiny par anc bs)
  | "VERR" -> List.iter pf (ev_verr fops kind tiny par anc bs)
  | "AERR" -> List.iter pf (ev_aerr fops kind tiny par anc bs)
  | "FORCE" -> List.iter psv (ev_force fops kind tiny par anc bs lam)
  | "FORCEG" -> List.iter psv (ev_forceG fops kind tiny par anc bs lam)
  | "PERR2" -> List.iter pf (ev2_perr fops kind tiny par anc bs)
  | "VERR2" -> List.iter pf (ev2_verr fops kind tiny par anc bs)
  | "AERR2" -> List.iter pf (ev2_aerr fops kind tiny par anc bs)
  | "FORCE2" -> List.iter psv (ev2_force fops kind tiny par anc bs lam)
  | "FORCEG2" -> List.iter psv (ev2_forceG fops kind tiny par anc bs lam)
  | _ -> print_string "?fn"

(* mobility constraints.  lists a,b,c per (kind,fn):
   8 ConstantCoordinate   PERR a=[q] b=[p]        VERR a=[qdot]            AERR a=[qdd]               FORCE a=[lam]
   9 ConstantSpeed        VERR a=[u] b=[s]        AERR a=[udot]            FORCE a=[lam]
   10 ConstantAcceleration AERR a=[udot] b=[acc]  FORCE a=[lam]
   11 CoordinateCoupler   PERR a=coef b=q         VERR a=coef b=qdot       AERR a=coef b=qdd          FORCE a=coef b=[lam] c=[n]
   12 SpeedCoupler        VERR a=coef b=u c=q     AERR a=coef b=udot c=qdot FORCE a=coef b=[lam] c=[k]                      *)
let mob fn =
  let kind = ni () in let la = flist () in let lb = flist () in let lc = flist () in
  let h l = List.hd l in
  match kind, fn with
  | 8, "PERR" -> pf (cc_perr fops (h la) (h lb))
  | 8, ("VERR" | "AERR" | "FORCE") -> pf (h la)
  | 9, "VERR" -> pf (cs_verr fops (h la) (h lb))
  | 9, ("AERR" | "FORCE") -> pf (h la)
  | 10, "AERR" -> pf (cacc_aerr fops (h la) (h lb))
  | 10, "FORCE" -> pf (h la)
  | 11, "PERR" -> pf (ccpl_perr fops la lb)
  | 11, "VERR" -> pf (ccpl_verr fops la lb)
  | 11, "AERR" -> pf (ccpl_aerr fops la lb)
  | 11, "FORCE" -> List.iter pf (ccpl_force fops la (nat_of_int (int_of_float (h lc))) (h lb))
  | 12, "VERR" -> pf (scpl_verr fops la lb lc)
  | 12, "AERR" -> pf (scpl_aerr fops la lb lc)
  | 12, "FORCE" -> List.iter pf (scpl_force fops la (nat_of_int (int_of_float (h lc))) (h lb))
  | _ -> print_string "?fn"

let () =
  try
    while true do
      let line = input_line stdin in
      match toks line with
      | [] -> ()
      | cls :: fn :: rest ->
        a := Array.of_list (List.map float_of_string rest); ai := 0;
        (try (match cls with "B" -> body fn | "M" -> mob fn | _ -> print_string "?class")
         with Invalid_argument _ | Failure _ -> print_string "!short-input");
        print_newline ()
      | _ -> print_endline "?line"
    done
  with End_of_file -> ()
