(* C08 driver for the extracted certificate checker (coq/C08/C08_Model.v), float NumOps.  Reads the cases printed by
   harness/C08_fdyn.cpp (CASE / MROW / GROW / RHS / B / UDOT / LAMFULL / U lines; everything else ignored) and prints per case
     MODEL <case> DYN <n residuals> | CON <m residuals> | POWER <p>                                  all %h
   and for every FLAG line (default flag, reported flags | request history) the model's flag:  MFLAG <case> <constraint> <0/1> *)
open C08model
#include "fops.inc"
let fl = float_of_string
let () =
  let mrows = ref [] and grows = ref [] and mask = ref [] and rhs = ref [] and b = ref [] and udot = ref [] and lam = ref [] and u = ref [] and id = ref "" and pre = ref "" in
  let rec nat_of_int n = if n <= 0 then O else S (nat_of_int (n - 1)) in
  let finish () =
    let m = List.rev !mrows and g = List.rev !grows and mk = List.rev !mask in
    let n = nat_of_int (List.length !udot) in
    Printf.printf "MODEL %s DYN " !id; List.iter pf (kkt_dyn_residual fops n m g mk !rhs !udot !lam);
    print_string "| CON "; List.iter pf (kkt_con_residual fops g mk !b !udot);
    print_string "| POWER "; pf (constraint_power fops n g mk !lam !u); print_newline () in
  try while true do
    let line = input_line stdin in
    match toks line with
    | "PRE" :: k :: _ -> pre := k; id := ""
    | "FLAG" :: i :: d :: _ :: _ :: "|" :: h ->      (* model: the flag after the request history is the last request *)
        Printf.printf "MFLAG %s %s %d\n" !pre i (if disabled_after (d = "1") (List.map (fun x -> x = "1") h) then 1 else 0)
    | "CASE" :: k :: _ -> id := k; mrows := []; grows := []; mask := []; rhs := []; b := []; udot := []; lam := []; u := []
    | "MROW" :: _ :: r -> mrows := List.map fl r :: !mrows
    | "GROW" :: _ :: mk :: r -> grows := List.map fl r :: !grows; mask := (mk = "1") :: !mask
    | "RHS" :: r -> rhs := List.map fl r
    | "B" :: r -> b := List.map fl r
    | "UDOT" :: r -> udot := List.map fl r
    | "LAMFULL" :: r -> lam := List.map fl r
    | "U" :: r -> u := List.map fl r
    | "END" :: _ -> if !id <> "" then finish (); id := ""
    | _ -> ()
  done with End_of_file -> ()
