(* Driver for the extracted C09 model (c09model.ml = extraction of coq/C09/C09_Model.v), float instance of NumOps.
   One command per line, numbers as OCaml float literals (%h, nan, inf):
     U acc ov lim sig local force dontThrow entry N n1..nN B k1 v1..kB vB
         projectU control logic; n_k = norm after iteration k (recorded), (k,v) = norm recomputed after a back-out at k
     Q acc ov lim sig local force dontThrow hasQuats pentry qentry qchg qn N n1..nN B k1 v1..kB vB
         projectQ control logic; qchg, qn = answer of normalizeQuaternions (0 / nan when it was not called)
       -> status ret its anyChange limitExceeded normExit|none reverted diverged throws where quatNormalized pnorm qnorm branch used
          (used = highest iteration index the model consulted, so the comparer can see that every recorded norm was consumed)
     W n p1..pn w1..wn e        closed-form one-row weighted least-squares step  -> d1..dn
     F n f1..fn p1..pn w1..wn e the same with prescribed slots (f=0) removed and zero-filled -> d1..dn
     G / H                      the steps with the weights projectQ / projectU use (see below)
   Oracle entries that were not recorded are nan (every comparison with them is false, as in the compiled code). *)
open C09model
(*FOPS*)

let fl s = float_of_string s
let bl s = (s = "1" || s = "true")
let rec int_of_nat = function O -> 0 | S n -> 1 + int_of_nat n
let st_name = function Succeeded -> "Succeeded" | FailedToAchieveAccuracy -> "FailedToAchieveAccuracy" | FailedToConverge -> "FailedToConverge"
let b2i b = if b then 1 else 0
let used = ref 0

let take_oracle (a : string array) (pos : int) =
  let n = int_of_string a.(pos) in
  let nr = Array.init n (fun i -> fl a.(pos + 1 + i)) in
  let pos = pos + 1 + n in
  let b = int_of_string a.(pos) in
  let bk = List.init b (fun i -> (int_of_string a.(pos + 1 + 2 * i), fl a.(pos + 2 + 2 * i))) in
  let nrm k = let i = int_of_nat k in (if i > !used then used := i); if i >= 1 && i <= n then nr.(i - 1) else nan in
  let back k = let i = int_of_nat k in (try List.assoc i bk with Not_found -> nan) in
  (nrm, back)

let print_res (r : float result) =
  let wh = match r.r_where with AtEntry -> "E" | AfterIter k -> Printf.sprintf "A%d" (int_of_nat k) | BackedOut k -> Printf.sprintf "B%d" (int_of_nat k) in
  Printf.printf "%s %d %d %d %d %s %d %d %d %s %d %h %h %d %d\n" (st_name r.r_status) (int_of_nat r.r_ret) (int_of_nat r.r_its)
    (b2i r.r_anyChange) (b2i r.r_limitExceeded) (match r.r_normExit with None -> "none" | Some x -> Printf.sprintf "%h" x)
    (b2i r.r_reverted) (b2i r.r_diverged) (b2i r.r_throws) wh (b2i r.r_quatNormalized) r.r_pnorm r.r_qnorm (int_of_nat r.r_branch) !used

let () =
  try while true do
    let line = input_line stdin in
    let a = Array.of_list (toks line) in
    if Array.length a > 0 then begin
      used := 0;
      match a.(0) with
      | "U" ->
        let o = { o_acc = fl a.(1); o_overshoot = fl a.(2); o_limit = fl a.(3); o_sig = fl a.(4);
                  o_local = bl a.(5); o_force = bl a.(6); o_dontThrow = bl a.(7) } in
        let (nrm, back) = take_oracle a 9 in
        print_res (projectU fops o (fl a.(8)) nrm back)
      | "Q" ->
        let o = { o_acc = fl a.(1); o_overshoot = fl a.(2); o_limit = fl a.(3); o_sig = fl a.(4);
                  o_local = bl a.(5); o_force = bl a.(6); o_dontThrow = bl a.(7) } in
        let (nrm, back) = take_oracle a 13 in
        print_res (projectQ fops o (bl a.(8)) (fl a.(9)) (fl a.(10)) nrm back (bl a.(11)) (fl a.(12)))
      | "W" ->
        let n = int_of_string a.(1) in
        let p = List.init n (fun i -> fl a.(2 + i)) and w = List.init n (fun i -> fl a.(2 + n + i)) in
        List.iter pf (wls_step fops p w (fl a.(2 + 2 * n))); print_newline ()
      | "F" ->
        let n = int_of_string a.(1) in
        let f = List.init n (fun i -> bl a.(2 + i)) and p = List.init n (fun i -> fl a.(2 + n + i))
        and w = List.init n (fun i -> fl a.(2 + 2 * n + i)) in
        List.iter pf (wls_step_free fops f p w (fl a.(2 + 3 * n))); print_newline ()
      | "G" ->   (* G n f1..fn p1..pn uw1..uwn e : projectQ's step for coordinates with qdot = u (weights uw^2) *)
        let n = int_of_string a.(1) in
        let f = List.init n (fun i -> bl a.(2 + i)) and p = List.init n (fun i -> fl a.(2 + n + i))
        and w = List.init n (fun i -> fl a.(2 + 2 * n + i)) in
        List.iter pf (q_step fops f p w (fl a.(2 + 3 * n))); print_newline ()
      | "H" ->   (* H n f1..fn p1..pn uw1..uwn u1..un e : projectU's step (relative scaling from u and uw) *)
        let n = int_of_string a.(1) in
        let f = List.init n (fun i -> bl a.(2 + i)) and p = List.init n (fun i -> fl a.(2 + n + i))
        and w = List.init n (fun i -> fl a.(2 + 2 * n + i)) and us = List.init n (fun i -> fl a.(2 + 3 * n + i)) in
        List.iter pf (u_step fops f p w us (fl a.(2 + 4 * n))); print_newline ()
      | _ -> print_endline "?"
    end
  done with End_of_file -> ()
