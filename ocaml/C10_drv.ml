(* C10 driver for the extracted model (C10_Model.v -> c10.ml), float instance of NumOps (fops.inc).
   stdin:  PM <kind> <p1> <w> <ph> <t>       expected (q, u, udot) of the prescribed mobilizer for the system kinds of harness/C10_motion.cpp
                                              -> E <q|-> <u|-> <udot|->          (hexadecimal doubles)
           PB <q0> <q1> <q2> <qd> <qdd>         position-level Motion on a Ball-like mobilizer -> B u(3) udot(3) qdot(3) qdotdot(3)
           LOCK <id> / op lines / END          the lock state machine: LK lev | LA lev x | UL | Q x | U x | ME b | PR t
                                              -> L <level> <lockvalue|-> <q> <u> <prescribed udot|->  after every op *)
open C10
#include "fops.inc"
let rec n2i = function O -> 0 | S n -> 1 + n2i n
let rec i2n i = if i <= 0 then O else S (i2n (i - 1))
let lev_of_int = function 2 -> Position | 1 -> Velocity | 0 -> Acceleration | _ -> NoLevel
let int_of_lev = function Position -> 2 | Velocity -> 1 | Acceleration -> 0 | NoLevel -> -1
let h x = Printf.sprintf "%h" x
let opt = function Some x -> h x | None -> "-"
let f s = float_of_string s
let mob0 mo on = { lk = NoLevel; lockedQ = 0.0; lockedU = 0.0; q = 0.0; u = 0.0; mot = mo; mot_on = on }
let () =
  let st = ref (mob0 None false) in let deflt = ref (mob0 None false) in let tlast = ref 0.0 in let inlock = ref false in
  try while true do
    let line = input_line stdin in
    match toks line with
    | "PM" :: kind :: p1 :: w :: ph :: t :: _ ->
       let kind = int_of_string kind and p1 = f p1 and w = f w and ph = f ph and t = f t in
       let m, ops, showq =
         match kind with
         | 0 -> mob0 (Some (Sinusoid (Position, p1, w, ph))) true, [Prescribe t], true
         | 1 -> mob0 (Some (Sinusoid (Velocity, p1, w, ph))) true, [Prescribe t], false
         | 2 -> mob0 (Some (Sinusoid (Acceleration, p1, w, ph))) true, [Prescribe t], false
         | 3 -> mob0 (Some (Steady p1)) true, [Prescribe t], false
         | 4 -> mob0 None false, [LockAt (Position, p1); SetQ 7.0; SetU 3.0; Prescribe t], true
         | 5 -> mob0 None false, [SetU p1; Lock Velocity; SetU 9.0; Prescribe t], false
         | 6 -> mob0 None false, [LockAt (Acceleration, p1); Prescribe t], false
         | 7 -> mob0 (Some (Sinusoid (Position, 0.3, w, ph))) true, [LockAt (Velocity, p1); Prescribe t], false
         | 8 -> mob0 (Some (Sinusoid (Velocity, p1, w, ph))) true, [Prescribe t], false
         | _ -> mob_default fops Position 0.0 None false, [SetQ 7.0; SetU 3.0; Prescribe t], true in
       let m' = run fops m ops in
       let (pq, pu), pud = presc fops m' t in
       Printf.printf "E %s %s %s\n" (if showq then (match pq with Some _ -> h m'.q | None -> "-") else "-")
         (match pu with Some _ -> h m'.u | None -> "-") (opt pud)
    | "PB" :: q0 :: q1 :: q2 :: qd :: qdd :: _ ->
       (* position-level Motion on a qdot = N(q) u mobilizer: u, udot, reported qdot, reported qdotdot (C10_PrescModel.presc_all) *)
       let qd = f qd and qdd = f qdd in
       let (((((u0, u1), u2), ((a0, a1), a2)), ((d0, d1), d2)), ((e0, e1), e2)) = presc_all fops true ((f q0, f q1), f q2) ((qd, qd), qd) ((qdd, qdd), qdd) in
       Printf.printf "B %s %s %s %s %s %s %s %s %s %s %s %s\n" (h u0) (h u1) (h u2) (h a0) (h a1) (h a2) (h d0) (h d1) (h d2) (h e0) (h e1) (h e2)
    | "MP" :: rest ->
       (* MP <nmob> (<nu> <free>)*nmob <ntau> tau* <nu> u*  ->  M slots | unpacked motion forces | motion power *)
       let a = Array.of_list rest in let pos = ref 0 in let nx () = let v = a.(!pos) in incr pos; v in
       let nmob = int_of_string (nx ()) in
       let mobs = List.init nmob (fun _ -> let n = int_of_string (nx ()) in let fr = nx () = "1" in (i2n n, fr)) in
       let ntau = int_of_string (nx ()) in let tau = List.init ntau (fun _ -> f (nx ())) in
       let nu = int_of_string (nx ()) in let uu = List.init nu (fun _ -> f (nx ())) in
       let slots = pres_slots O mobs in
       Printf.printf "M %s | %s | %s\n" (String.concat " " (List.map (fun x -> string_of_int (n2i x)) slots))
         (String.concat " " (List.map h (unpack fops (total_nu mobs) slots tau))) (h (motion_power fops slots tau uu))
    | "LOCK" :: id :: rest ->
       let dl = (match rest with d :: _ -> lev_of_int (int_of_string d) | [] -> NoLevel) and q0 = (match rest with _ :: q :: _ -> f q | _ -> 0.0) in
       deflt := mob_default fops dl q0 (Some (Sinusoid (Position, 0.5, 1.5, 0.25))) false;
       st := !deflt; tlast := 0.0; inlock := true; Printf.printf "LOCK %s\n" id;
       Printf.printf "L %d %s %s %s %s\n" (int_of_lev !st.lk) (opt (lock_value !st)) (h !st.q) (h !st.u) (opt (presc_udot fops !st !tlast))
    | "END" :: _ -> inlock := false; print_string "END\n"
    | "RS" :: _ when !inlock ->
       st := !deflt; tlast := 0.0;     (* a new default State: time 0 *)
       Printf.printf "L %d %s %s %s %s\n" (int_of_lev !st.lk) (opt (lock_value !st)) (h !st.q) (h !st.u) (opt (presc_udot fops !st !tlast))
    | o :: rest when !inlock ->
       let a = match rest with x :: _ -> x | [] -> "0" in let b = match rest with _ :: y :: _ -> y | _ -> "0" in
       let op = match o with
         | "LK" -> Lock (lev_of_int (int_of_string a)) | "LA" -> LockAt (lev_of_int (int_of_string a), f b) | "UL" -> Unlock
         | "Q" -> SetQ (f a) | "U" -> SetU (f a) | "ME" -> MotionEnable (a <> "0") | _ -> (tlast := f a; Prescribe (f a)) in
       st := step fops !st op;
       Printf.printf "L %d %s %s %s %s\n" (int_of_lev !st.lk) (opt (lock_value !st)) (h !st.q) (h !st.u) (opt (presc_udot fops !st !tlast))
    | _ -> ()
  done with End_of_file -> ()
