(* Driver for the extracted C11 model (c11model.ml = extraction of coq/C11/C11_Model.v), float NumOps.
   Input: one system per block:   B m cx cy cz vx vy vz Ixx Iyy Izz Ixy Ixz Iyz wx wy wz   (one line per body), then  E
   Output for each E: ke  mass  comx comy comz  P(6: angular about the Ground origin, linear)  Pc(6: about the system mass centre) *)
open C11model
(*FOPS*)
let fl s = float_of_string s
let bodies = ref []
let () =
  try while true do
    let line = input_line stdin in
    match toks line with
    | "B" :: r ->
      let a = Array.of_list (List.map fl r) in
      bodies := ((((a.(0), ((a.(1), a.(2)), a.(3))), ((a.(4), a.(5)), a.(6))), (((a.(7), a.(8)), a.(9)), ((a.(10), a.(11)), a.(12)))), ((a.(13), a.(14)), a.(15))) :: !bodies
    | "E" :: _ ->
      let bs = List.rev !bodies in bodies := [];
      pf (ke_sys fops bs); pf (mass_sys fops bs);
      let (((x, y), z)) = com_sys fops bs in pf x; pf y; pf z;
      let pv ((((a, b), c)), (((d, e), f))) = pf a; pf b; pf c; pf d; pf e; pf f in
      pv (mom_sys fops bs); pv (central_mom_sys fops bs); print_newline ()
    | _ -> ()
  done with End_of_file -> ()
