(* C13/C12/C38 driver for the extracted element model (coq/C13/C13_Model.v), float NumOps.
   stdin : one case per line  <kind> <numbers...>   (see checks/C13.py: model_line)
   stdout: body forces (nb*6) | mobility forces (nu) | PE | extras        all %h *)
open C13model
#include "fops.inc"

let a : float array ref = ref [||]
let ai = ref 0
let nx () = let v = !a.(!ai) in incr ai; v
let rec nat_of_int n = if n <= 0 then O else S (nat_of_int (n-1))
let nn () = nat_of_int (int_of_float (nx ()))
let v3 () = let x = nx () in let y = nx () in let z = nx () in ((x, y), z)
let m33 () = let r0 = v3 () in let r1 = v3 () in let r2 = v3 () in ((r0, r1), r2)
let xf () = let r = m33 () in let p = v3 () in (r, p)
let sv () = let w = v3 () in let v = v3 () in (w, v)
let rec rep n f = if n <= 0 then [] else let x = f () in x :: rep (n-1) f
let pv3 ((x, y), z) = pf x; pf y; pf z
let psv (w, v) = pv3 w; pv3 v
let bar () = print_string "| "
let pout ((bf, mf), pe) = List.iter psv bf; bar (); List.iter pf mf; bar (); pf pe

let one kind =
  match kind with
  | "TPS" | "TPD" | "TPC" | "CF" | "CT" | "GD" | "UG" | "GR" | "LB" ->
    let nb = int_of_float (nx ()) in let nu = int_of_float (nx ()) in
    let xv = rep nb (fun () -> let x = xf () in let v = sv () in (x, v)) in
    let xs = List.map fst xv and vs = List.map snd xv in
    let nun = nat_of_int nu in
    (match kind with
     | "TPS" -> let b1 = nn () in let b2 = nn () in let s1 = v3 () in let s2 = v3 () in let k = nx () in let x0 = nx () in
       pout (ev_spring fops xs nun b1 b2 s1 s2 k x0)
     | "TPD" -> let b1 = nn () in let b2 = nn () in let s1 = v3 () in let s2 = v3 () in let c = nx () in
       pout (ev_damper fops xs vs nun b1 b2 s1 s2 c)
     | "TPC" -> let b1 = nn () in let b2 = nn () in let s1 = v3 () in let s2 = v3 () in let f = nx () in
       pout (ev_tpconst fops xs nun b1 b2 s1 s2 f)
     | "CF" -> let b = nn () in let st = v3 () in let f = v3 () in pout (ev_constforce fops xs nun b st f)
     | "CT" -> let b = nn () in let t = v3 () in pout (ev_consttorque fops xs nun b t)
     | "GD" -> let c = nx () in let us = rep nu nx in pout (ev_globaldamper fops xs us c)
     | "UG" | "GR" ->
       let d = v3 () in let g = if kind = "GR" then nx () else 0.0 in let z = nx () in
       let bs = List.map (fun x -> let m = nx () in let com = v3 () in let ex = nx () <> 0.0 in (((m, com), x), ex)) (List.tl xs) in
       if kind = "UG" then pout (ev_uniformgravity fops nun d z bs) else pout (ev_gravity fops nun d g z bs)
     | _ -> (* LB *)
       let b1 = nn () in let b2 = nn () in let x1 = xf () in let x2 = xf () in let k = sv () in let c = sv () in
       pout (ev_bushing fops xs vs nun b1 b2 x1 x2 k c);
       let gx b = List.nth xs b and gv b = List.nth vs b in
       let i1 = int_of_float !a.(2 + 18*nb) and i2 = int_of_float !a.(3 + 18*nb) in
       let qr = bush_qr fops (gx i1) (gx i2) x1 x2 in
       bar (); psv (bush_q fops (gx i1) (gx i2) x1 x2 qr); psv (bush_qdot fops (gx i1) (gx i2) (gv i1) (gv i2) x1 x2 qr))
  | "MLS" | "MLD" | "MCF" | "MST" ->
    let nb = nn () in let nu = nn () in let j = nn () in
    (match kind with
     | "MLS" -> let k = nx () in let q0 = nx () in let q = nx () in pout (ev_mspring fops nb nu j k q0 q)
     | "MLD" -> let c = nx () in let u = nx () in pout (ev_mdamper fops nb nu j c u)
     | "MCF" -> let f = nx () in pout (ev_mconst fops nb nu j f)
     | _ -> let k = nx () in let d = nx () in let lo = nx () in let hi = nx () in let q = nx () in let qd = nx () in
       pout (ev_mstop fops nb nu j k d lo hi q qd))
  | _ -> print_string "?unknown"

let () =
  try
    while true do
      let line = input_line stdin in
      match toks line with
      | [] -> ()
      | kind :: rest ->
        a := Array.of_list (List.map float_of_string rest); ai := 0;
        (try one kind with Invalid_argument _ | Failure _ -> print_string "!short-input");
        print_newline ()
    done
  with End_of_file -> ()
