(* Driver for the extracted C14 model (coq/C14/C14_Model.v).  Reads the systems printed by
   harness/C14_probe.cpp (SYS/BODY lines; OUT lines are ignored) and prints the model's OUT lines.
   Prepended at build time:  open C14model  +  ocaml/fops.inc *)
let rec nat_of_int n = if n <= 0 then O else S (nat_of_int (n - 1))
let rec int_of_nat = function O -> 0 | S n -> 1 + int_of_nat n
let fl = float_of_string
let v3 a b c = ((a, b), c)
let p3 ((a, b), c) = Printf.printf " %h %h %h" a b c
let psv (a, b) = p3 a; p3 b

let () =
  let bodies = ref [] in
  let finish () =
    let all = List.rev !bodies in
    (match all with
     | [] -> ()
     | ground :: rest ->
       Printf.printf "SYS %d 0 0\n" (List.length all);
       let t = mkTree ground rest in
       let outs = List.sort (fun (a, _) (b, _) -> compare a b) (List.map (fun (i, r) -> (int_of_nat i, r)) (out_reactions fops t)) in
       List.iter (fun (i, ((((gy, fb), fm), po), pf)) ->
         let o tag v = Printf.printf "OUT %s %d" tag i; psv v; print_newline () in
         o "GYRO" gy; o "FM" fm; o "FMFB" fm; o "ATM" fm; o "ATO" fb; o "PATO" po; o "PATF" pf) outs);
    print_endline "END" in
  try while true do
    let line = input_line stdin in
    match toks line with
    | "SYS" :: _ -> bodies := []
    | "BODY" :: i :: p :: _ :: _ :: r ->
        let f = Array.of_list (List.map fl r) in
        let sv k = (v3 f.(k) f.(k+1) f.(k+2), v3 f.(k+3) f.(k+4) f.(k+5)) in
        bodies := { r_idx = nat_of_int (int_of_string i); r_par = nat_of_int (int_of_string p);
                    r_l = v3 f.(0) f.(1) f.(2);
                    r_Mk = ((f.(3), v3 f.(4) f.(5) f.(6)), (v3 f.(7) f.(8) f.(9), v3 f.(10) f.(11) f.(12)));
                    r_V = sv 13; r_A = sv 19; r_Fapp = sv 25; r_Fcons = sv 31;
                    r_pBM = v3 f.(37) f.(38) f.(39); r_pPF = v3 f.(40) f.(41) f.(42) } :: !bodies
    | "END" :: _ -> finish ()
    | "SKIP" :: _ -> print_endline "SKIP"
    | _ -> ()
  done with End_of_file -> ()
