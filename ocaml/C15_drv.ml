(* Driver for the extracted C15 model (coq/C15/C15_Model.v).  Reads the systems printed by
   harness/C15_probe.cpp (SYS/BODY lines; OUT lines are ignored) and prints the model's OUT lines.
   Prepended at build time:  open C15model  +  ocaml/fops.inc *)
let rec nat_of_int n = if n <= 0 then O else S (nat_of_int (n - 1))
let rec int_of_nat = function O -> 0 | S n -> 1 + int_of_nat n
let fl = float_of_string
let v3 a b c = ((a, b), c)
let p3 ((a, b), c) = Printf.printf " %h %h %h" a b c
let psym (d, l) = p3 d; p3 l
let psv (a, b) = p3 a; p3 b

(* argument "guarded": use the recursion with the repair of patches/C15_cbi_massless_chain.diff (zero-mass child composites skipped) *)
let guarded = Array.length Sys.argv > 1 && Sys.argv.(1) = "guarded"
let () =
  let bodies = ref [] and raw = ref [] and haveacc = ref false in
  let finish () =
    let cl = List.rev !bodies in
    let bs = List.map (fun c -> c.c_body) cl in
    Printf.printf "SYS %d 0 0\n" (List.length cl + 1);
    List.iter (fun (i, b) ->
        let ((m, c), g) = transformedMassPropsB fops b in
        Printf.printf "OUT BTMP %d %h" i m; p3 c; psym g; print_newline ();
        Printf.printf "OUT BMOM %d" i; psv (bodyCentralMomentumB fops b); print_newline ()) (List.rev !raw);
    Printf.printf "OUT MASS %h\n" (calcSystemMass fops bs);
    Printf.printf "OUT COM"; p3 (calcSystemMassCenterLocationInGround fops bs); print_newline ();
    Printf.printf "OUT COMV"; p3 (calcSystemMassCenterVelocityInGround fops bs); print_newline ();
    if !haveacc then (Printf.printf "OUT COMA"; p3 (calcSystemMassCenterAccelerationInGround fops bs); print_newline ());
    Printf.printf "OUT SYSMP %h" (calcSystemMass fops bs); p3 (calcSystemMassCenterLocationInGround fops bs);
      psym (sysMassPropsInertia fops bs); print_newline ();
    Printf.printf "OUT CINERTIA"; psym (calcSystemCentralInertiaInGround fops bs); print_newline ();
    Printf.printf "OUT MOM"; psv (calcSystemMomentumAboutGroundOrigin fops bs); print_newline ();
    Printf.printf "OUT CMOM"; psv (calcSystemCentralMomentum fops bs); print_newline ();
    Printf.printf "OUT KE %h\n" (calcKineticEnergy fops bs);
    let cb = List.sort (fun (a, _) (b, _) -> compare a b) (List.map (fun (i, r) -> (int_of_nat i, r)) ((if guarded then out_cbiG else out_cbi) fops cl)) in
    List.iter (fun tag -> List.iter (fun (i, ((m, p), g)) -> Printf.printf "OUT %s %d %h" tag i m; p3 p; psym g; print_newline ()) cb) ["CBI"; "CBIC"];
    print_endline "END" in
  try while true do
    let line = input_line stdin in
    match toks line with
    | "SYS" :: _ :: _ :: a :: _ -> bodies := []; raw := []; haveacc := (a = "1")
    | "BODY" :: i :: p :: _ :: _ :: r ->
        let f = Array.of_list (List.map fl r) in
        let b = { f_m = f.(3); f_r = v3 f.(4) f.(5) f.(6); f_c = v3 f.(7) f.(8) f.(9);
                  f_G = (v3 f.(10) f.(11) f.(12), v3 f.(13) f.(14) f.(15));
                  f_R = ((v3 f.(16) f.(17) f.(18), v3 f.(19) f.(20) f.(21)), v3 f.(22) f.(23) f.(24));
                  f_V = (v3 f.(25) f.(26) f.(27), v3 f.(28) f.(29) f.(30));
                  f_A = (v3 f.(31) f.(32) f.(33), v3 f.(34) f.(35) f.(36)) } in
        let ix = int_of_string i in
        raw := (ix, b) :: !raw;
        bodies := mkCbxB fops (nat_of_int ix) (nat_of_int (int_of_string p)) (v3 f.(0) f.(1) f.(2)) b :: !bodies
    | "END" :: _ -> finish ()
    | "SKIP" :: _ -> print_endline "SKIP"
    | _ -> ()
  done with End_of_file -> ()
