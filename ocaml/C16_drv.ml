(* C16 driver for the extracted model (C16_Model.v + C16_Systems.v + Gen/C16_table_gen.v -> c16.ml).
   argv.(1) = "layout": print, for every system of C16_Systems.models, its structure and the variable / result layout
                        of its table (one line of key=value pairs), and whether the table is well-formed and sound.
   argv.(1) = "run" [old]: read model-level histories from stdin and print the discrete status after every group of
                        operations in the same text form as harness/C16_hist.cpp ("S stage flags gravValid gravEvals counters"),
                        followed by a line "ST r1 r2 ..." listing the results whose cached value is stale.
                        With "old" the table uses MobilityLinearSpring's pre-fix entry (regression witness).
      M idx        select system idx            H id   new history (fresh State through Model)
      v V X        SetVar V X                   r G    Realize G          q R   Query R        c   Copy
      .            end of group: print status   END *)
open C16

let rec n2i = function O -> 0 | S n -> 1 + n2i n
let rec i2n i = if i <= 0 then O else S (i2n (i - 1))
let ilist l = String.concat "," (List.map (fun x -> string_of_int (n2i x)) l)
let rec upd l i x = match l with [] -> [] | h :: t -> if i = 0 then x :: t else h :: upd t (i - 1) x
let range n = List.init n (fun i -> i)

let the_code old = if old then code_old code_now else code_now

let vals0 c m t =
  let n = n2i (nvars t) in
  let v = ref (List.init n (fun _ -> O)) in
  List.iteri (fun e _ -> v := upd !v (n2i (v_en m (i2n e))) (S O)) m.ms_elems;
  List.iter (fun j -> v := upd !v (n2i (v_cons m (i2n j))) (S O)) (range (n2i m.ms_ncons));
  if m.ms_grav then v := upd !v (n2i (v_gmag c m)) (S O);
  !v

let layout () =
  let c = code_now in
  List.iteri (fun idx m ->
      let t = build_z c m in
      let ne = List.length m.ms_elems in
      Printf.printf "idx=%d nb=%d grav=%d nlock=%d ncons=%d elems=%s nvars=%d nres=%d v_lock=%s v_cons=%s v_en=%s v_par=%s v_gexcl=%s v_gmag=%d v_gdir=%d v_gzh=%d r_grav=%d r_total=%d r_accel=%d wf=%b sound=%b unsound=%s\n"
        idx (n2i m.ms_nb) (if m.ms_grav then 1 else 0) (n2i m.ms_nlock) (n2i m.ms_ncons) (ilist m.ms_elems) (n2i (nvars t)) (n2i (nres t))
        (ilist (List.map (fun i -> v_lock m (i2n i)) (range (n2i m.ms_nlock))))
        (ilist (List.map (fun j -> v_cons m (i2n j)) (range (n2i m.ms_ncons))))
        (ilist (List.map (fun e -> v_en m (i2n e)) (range ne)))
        (String.concat ";" (List.mapi (fun e cl -> ilist (List.map (fun j -> v_par c m (i2n e) (i2n j)) (range (List.length (cls c cl).e_par)))) m.ms_elems))
        (ilist (List.map (fun b -> v_gexcl c m (i2n b)) (range (n2i m.ms_nb))))
        (n2i (v_gmag c m)) (n2i (v_gdir c m)) (n2i (v_gzh c m)) (n2i (r_grav m)) (n2i (r_total m)) (n2i (r_accel m))
        (wf_table t) (sound t)
        (String.concat ";" (List.map (fun (r, v) -> Printf.sprintf "%d:%d" (n2i r) (n2i v)) (unsound_pairs t)))) models

let run old =
  let c = the_code old in
  let m = ref (List.hd models) in let t = ref (build_z c !m) in let s = ref (init !t []) in
  let out = Buffer.create 65536 in
  let status () =
    let st = !s in let mm = !m in
    let flag r = match slot st (i2n r) with Some _ -> "1" | None -> "0" in
    let gv, gn = if mm.ms_grav then ((match slot st (r_grav mm) with Some _ -> 1 | None -> 0), n2i (List.nth st.m_cnt (n2i (r_grav mm)))) else (0, 0) in
    Buffer.add_string out (Printf.sprintf "S %d %s%s%s%s%s %d %d" (n2i st.m_stg) (flag 0) (flag 1) (flag 2) (flag 3) (flag 4) gv gn);
    List.iteri (fun e cl -> if n2i cl >= 14 then Buffer.add_string out (Printf.sprintf " %d" (n2i (List.nth st.m_cnt (n2i (r_elem (i2n e))))))) mm.ms_elems;
    Buffer.add_string out "\n";
    Buffer.add_string out ("ST " ^ String.concat " " (List.map (fun r -> string_of_int (n2i r)) (stale_results !t st)) ^ "\n") in
  (try while true do
      let line = input_line stdin in
      match List.filter (fun x -> x <> "") (String.split_on_char ' ' line) with
      | "M" :: idx :: _ -> m := List.nth models (int_of_string idx); t := build_z c !m; Buffer.add_string out ("SYS " ^ idx ^ "\n")
      | "H" :: id :: _ -> s := init !t (vals0 c !m !t); Buffer.add_string out ("H " ^ id ^ "\n")
      | "v" :: v :: x :: _ -> s := step !t !s (SetVar (i2n (int_of_string v), i2n (int_of_string x)))
      | "r" :: g :: _ -> s := step !t !s (Realize (i2n (int_of_string g)))
      | "q" :: r :: _ -> s := step !t !s (Query (i2n (int_of_string r)))
      | "c" :: _ -> s := step !t !s Copy
      | "." :: _ -> status ()
      | "END" :: _ -> Buffer.add_string out "END\n"
      | _ -> ()
    done with End_of_file -> ());
  print_string (Buffer.contents out)

let () =
  match Array.to_list Sys.argv with
  | _ :: "layout" :: _ -> layout ()
  | _ :: "run" :: rest -> run (rest = ["old"])
  | _ -> prerr_endline "usage: drv layout | run [old]"; exit 2
