(* C17 driver for the extracted model (C17_Model.v + Gen/C17_access_gen.v -> c17.ml).
   stdin:  MIX <id> <n> (<par> <pos>)*n
           TABLE                                 -> the scanned tables' checks (wf per mode, thread_local, exec_local_only, ...)
           TARGETS <id> <P|N>                    -> T <mode> <elem> <target>   for every mode and element (role from the element's par flag)
           SEQ <id> <P|N> <T> <m0> .. <m3> | <events of round 0> | ... | <events of round 3>
                 events: <worker>.I  <worker>.E<index>  <worker>.F ; modes: A (All) C (CachedAndNonCached) N (NonCached)
                 -> ROUND <r> valid=<0/1> F=<ids> C=<ids>   (contents of the shared force arrays / shared cache after the round, sorted) *)
open C17
let rec n2i = function O -> 0 | S n -> 1 + n2i n
let rec i2n i = if i <= 0 then O else S (i2n (i - 1))
let mixes : (int, elem list) Hashtbl.t = Hashtbl.create 16
let mode_of = function "A" -> MAll | "C" -> MCNC | _ -> MNC
let task_of = function "P" -> code_parallel | _ -> code_nonparallel
let arr_name = function LocalF -> "LocalF" | LocalC -> "LocalC" | SharedF -> "SharedF" | SharedC -> "SharedC"
let ids l = String.concat "," (List.map string_of_int (List.sort compare (List.map n2i l)))
let parse_ev s =
  match String.split_on_char '.' s with
  | [w; k] -> let w = i2n (int_of_string w) in
     if k = "I" then (w, TInit) else if k = "F" then (w, TFin) else (w, TExec (i2n (int_of_string (String.sub k 1 (String.length k - 1)))))
  | _ -> failwith ("bad event " ^ s)
let () =
  try while true do
    let line = input_line stdin in
    match List.filter (fun x -> x <> "") (String.split_on_char ' ' line) with
    | "MIX" :: id :: n :: rest ->
       let a = Array.of_list rest in
       let els = List.init (int_of_string n) (fun i -> { el_id = i2n i; el_par = a.(2*i) = "1"; el_pos = a.(2*i+1) = "1" }) in
       Hashtbl.replace mixes (int_of_string id) els; Printf.printf "MIX %s\n" id
    | "TABLE" :: _ ->
       let b x = if x then 1 else 0 in
       List.iter (fun (nm, d) ->
           Printf.printf "TABLE %s wf=%d%d%d tls=%d exec_local_only=%d\n" nm (b (wf_task d MAll)) (b (wf_task d MCNC)) (b (wf_task d MNC)) (b d.t_tls) (b (exec_local_only d)))
         [("parallel", code_parallel); ("nonparallel", code_nonparallel); ("parallel_prefix", parallel_prefix)];
       Printf.printf "TABLE subsystem forced_single=%d set_threads_can_override=%d\n" (b code_nonparallel_forced_single) (b code_set_threads_can_override)
    | "TARGETS" :: id :: t :: _ ->
       let els = Hashtbl.find mixes (int_of_string id) in let d = task_of t in
       List.iter (fun (mn, m) ->
           List.iter (fun e -> Printf.printf "T %s %d %s\n" mn (n2i e.el_id)
                                 (match target d m (not e.el_par) e.el_pos with Some a -> arr_name a | None -> "None")) els)
         [("A", MAll); ("C", MCNC); ("N", MNC)]
    | "SEQ" :: id :: t :: tt :: rest ->
       let els = Hashtbl.find mixes (int_of_string id) in let d = task_of t in let tn = i2n (int_of_string tt) in
       let modes = List.filteri (fun i _ -> i < 4) rest in
       let rounds = List.tl (String.split_on_char '|' line) in
       let st = ref fstate0 in
       List.iteri (fun r (mn, evtxt) ->
           let m = mode_of mn in
           let evs = List.map parse_ev (List.filter (fun x -> x <> "") (String.split_on_char ' ' evtxt)) in
           (* the system zeroes its force arrays before every Dynamics realization; the subsystem zeroes its cache when it refills it *)
           st := { loc = !st.loc; shF = []; shC = (match m with MCNC -> [] | _ -> !st.shC) };
           let v = valid_round_b tn (ntasks els) evs in
           st := interp d m els evs !st;
           Printf.printf "ROUND %d valid=%d F=%s C=%s\n" r (if v then 1 else 0) (ids !st.shF) (ids !st.shC))
         (List.combine modes rounds)
    | _ -> ()
  done with End_of_file -> ()
