(* C18 driver for the extracted model (C18_Model.v -> c18.ml): reads the same operation sequences as
   harness/C18_state.cpp and prints the same text.  argv: fix_auto fix_copyver (0/1). *)
open C18
let rec n2i = function O -> 0 | S n -> 1 + n2i n
let rec i2n i = if i <= 0 then O else S (i2n (i - 1))
let b2i b = if b then 1 else 0
let keys l = "[" ^ String.concat "" (List.map (fun (a, b) -> Printf.sprintf "%d.%d " (n2i a) (n2i b)) l) ^ "]"
let rec take n l = if n <= 0 then [] else match l with [] -> [] | x :: t -> x :: take (n - 1) t
let dump buf (s : st) slot =
  let g = n2i s.sys_stage in
  Buffer.add_string buf (Printf.sprintf "S%d sys=%d sv=" slot g);
  List.iter (fun v -> Buffer.add_string buf (string_of_int (n2i v) ^ ",")) (take (g + 1) s.sys_ver);
  Buffer.add_string buf (Printf.sprintf " v=%d,%d,%d qd=%s ud=%s zd=%s n=%d,%d,%d\n" (n2i s.qv) (n2i s.uv) (n2i s.zv)
                           (keys s.qd) (keys s.ud) (keys s.zd) (n2i s.nq) (n2i s.nu) (n2i s.nz));
  List.iteri (fun i (b : subsys) ->
      Buffer.add_string buf (Printf.sprintf " B%d st=%d ver=" i (n2i b.s_stage));
      List.iteri (fun j v -> if j >= 1 && j <= 9 then Buffer.add_string buf (string_of_int (n2i v) ^ ",")) b.s_ver;
      Buffer.add_string buf "\n";
      List.iteri (fun j (d : dvar) ->
          Buffer.add_string buf (Printf.sprintf "  D%d a=%d i=%d au=%d vv=%d val=%d deps=%s\n" j (n2i d.d_alloc) (n2i d.d_inval)
                                   (match d.d_auto with None -> -1 | Some x -> n2i x) (n2i d.d_valver) (n2i d.d_val) (keys d.d_deps))) b.s_dvs;
      List.iteri (fun j (c : cent) ->
          Buffer.add_string buf (Printf.sprintf "  C%d a=%d d=%d b=%d as=%d p=%d%d%d vv=%d vw=%d ok=%d val=%d deps=%s\n" j (n2i c.c_alloc)
                                   (n2i c.c_dep) (n2i c.c_by) (match c.c_assoc with None -> -1 | Some x -> n2i x)
                                   (b2i c.c_q) (b2i c.c_u) (b2i c.c_z) (n2i c.c_valver) (n2i c.c_verWhen)
                                   (b2i (isUpToDate s (i2n i, i2n j))) (n2i c.c_val) (keys c.c_deps))) b.s_ces) s.subs

(* specification side (C18_Spec.v): stages and validity only *)
let gdump buf (g : gst) slot =
  Buffer.add_string buf (Printf.sprintf "S%d sys=%d\n" slot (n2i g.g_sys));
  List.iteri (fun i (b : gsub) ->
      Buffer.add_string buf (Printf.sprintf " B%d st=%d\n" i (n2i b.gs_stage));
      List.iteri (fun j _ -> Buffer.add_string buf (Printf.sprintf "  D%d\n" j)) b.gs_dvs;
      List.iteri (fun j _ -> Buffer.add_string buf (Printf.sprintf "  C%d ok=%d\n" j (b2i (gvalid g (i2n i, i2n j))))) b.gs_ces) g.g_subs
let rec set_nth l i x = match l with [] -> [] | h :: t -> if i = 0 then x :: t else h :: set_nth t (i - 1) x

let () =
  let cf = { fix_auto = Sys.argv.(1) = "1"; fix_copyver = Sys.argv.(2) = "1" } in
  let spec = Array.length Sys.argv > 3 && Sys.argv.(3) = "spec" in
  (* "inv": evaluate the invariants of the refinement proof (wf_check always, dyn_check while no deviation event touched the slot) *)
  let inv = Array.length Sys.argv > 3 && Sys.argv.(3) = "inv" in
  let taint = ref [] in let thm = ref [] in let nthm = ref 0 in let nops = ref 0 in let ninv = ref 0 in let nwf = ref 0 in let ndyn = ref 0 in let firstbad = ref "" in let curseq = ref "" in
  let gs = ref [] in
  let w = ref [] in
  let out = Buffer.create 65536 in
  (try while true do
      let line = input_line stdin in
      let toks = List.filter (fun x -> x <> "") (String.split_on_char ' ' line) in
      (match toks with
       | "SEQ" :: id :: nslot :: nsub :: _ ->
          w := List.init (int_of_string nslot) (fun _ -> st0 (i2n (int_of_string nsub)));
          gs := List.map abs !w; taint := List.map (fun _ -> false) !w; thm := List.map (fun _ -> true) !w; curseq := id;
          if not inv then Buffer.add_string out ("SEQ " ^ id ^ "\n")
       | "END" :: _ -> if not inv then begin (if spec then List.iteri (fun i g -> gdump out g i) !gs else List.iteri (fun i s -> dump out s i) !w); Buffer.add_string out "END\n" end
       | [] -> ()
       | t :: rest ->
          let a = ref (List.map int_of_string (match t with "On" -> (match rest with s :: _ :: r -> s :: r | _ -> []) | _ -> rest)) in
          let nx () = match !a with x :: r -> a := r; x | [] -> 0 in
          let nn () = i2n (nx ()) in
          let key () = let x = nn () in let y = nn () in (x, y) in
          let keylist () = let n = nx () in List.init n (fun _ -> key ()) in
          let neg = List.exists (fun x -> x < 0) !a in
          let wo =
            match t with
            | "On" ->
               let slot = nn () in
               let nm = (match rest with _ :: nm :: _ -> nm | _ -> "?") in
               On (slot,
                   (match nm with
                    | "AQ" -> let ss = nn () in AllocQ (ss, nn ())
                    | "AU" -> let ss = nn () in AllocU (ss, nn ())
                    | "AZ" -> let ss = nn () in AllocZ (ss, nn ())
                    | "ADV" -> let ss = nn () in let i = nn () in AllocDV (ss, i, nn ())
                    | "AADV" -> let ss = nn () in let i = nn () in let v = nn () in AllocAutoDV (ss, i, v, nn ())
                    | "ACE" -> let ss = nn () in let d = nn () in AllocCE (ss, d, nn ())
                    | "ACEP" -> let ss = nn () in let d = nn () in let b = nn () in let q = nx () <> 0 in let u = nx () <> 0 in let z = nx () <> 0 in
                                let dvs = keylist () in let ces = keylist () in AllocCEPre (ss, d, b, q, u, z, dvs, ces)
                    | "ADVS" -> let ss = nn () in AdvSub (ss, nn ())
                    | "ADVY" -> AdvSys (nn ())
                    | "INV" -> InvalidateAll (nn ())
                    | "INVC" -> InvalidateCache (nn ())
                    | "UPD" -> Upd (match nx () with 0 -> WQ | 1 -> WU | 2 -> WZ | 3 -> WY | 4 -> WT | 5 -> WUW | 6 -> WZW | 7 -> WQEW | _ -> WUEW)
                    | "UPDS" -> let w = (match nx () with 0 -> WQ | 1 -> WU | 2 -> WZ | 3 -> WY | 4 -> WT | 5 -> WUW | 6 -> WZW | 7 -> WQEW | _ -> WUEW) in UpdSub (w, nn ())
                    | "SDV" -> let k = key () in SetDV (k, nn ())
                    | "SCE" -> let k = key () in SetCE (k, nn ())
                    | "MK" -> Mark (key ())
                    | "UMK" -> Unmark (key ())
                    | "MKU" -> MarkDVUpd (key ())
                    | "SDU" -> let k = key () in SetDVUpd (k, nn ())
                    | "AUTO" -> AutoUpdate
                    | "GET" -> GetCE (key ())
                    | _ -> Query))
            | "CP" -> let d = nn () in CopyC (d, nn ())
            | "AS" -> let d = nn () in Assign (d, nn ())
            | _ -> let d = nn () in Move (d, nn ()) in
          ignore neg;
          let touched = (match wo with On (sl, _) -> [n2i sl] | CopyC (d, s) | Assign (d, s) | Move (d, s) -> [n2i d; n2i s]) in
          let (w', threw) = wstep cf !w wo in
          if inv then begin
            let n = List.length !w in let inr i = i >= 0 && i < n in
            incr nops;
            (match wo with
             | On (sl, o) -> let i = n2i sl in
                             if inr i then begin
                               if List.nth !thm i && covered (List.nth !w i) o && legal cf (List.nth !w i) o then incr nthm else thm := set_nth !thm i false end
             | CopyC (d, _) | Assign (d, _) -> let d = n2i d in if inr d then thm := set_nth !thm d false
             | Move (d, s) -> let d = n2i d and s = n2i s in
                              if inr d && inr s then (let a = List.nth !thm d and b = List.nth !thm s in thm := set_nth (set_nth !thm d b) s a));
            (match wo with
             | On (sl, o) -> let i = n2i sl in if inr i && not (legal cf (List.nth !w i) o) then taint := set_nth !taint i true
             | CopyC (d, s) -> let d = n2i d and s = n2i s in
                               if inr d && inr s then taint := set_nth !taint d (List.nth !taint s || not (copy_ok cf (List.nth !w s)))
             | Assign (d, s) -> let d = n2i d and s = n2i s in
                                if inr d && inr s && d <> s then taint := set_nth !taint d (List.nth !taint s || not (copy_ok cf (List.nth !w s)))
             | Move (d, s) -> let d = n2i d and s = n2i s in
                              if inr d && inr s then (let a = List.nth !taint d and b = List.nth !taint s in taint := set_nth (set_nth !taint d b) s a));
            List.iteri (fun i st -> if List.mem i touched then begin
                incr ninv;
                if not (wf_check st) then (incr nwf; if !firstbad = "" then firstbad := "wf " ^ !curseq);
                if not (List.nth !taint i) && not (dyn_check st) then (incr ndyn; if !firstbad = "" then firstbad := "dyn " ^ !curseq) end) w'
          end;
          if spec then begin
            let n = List.length !gs in
            let inr i = i >= 0 && i < n in
            let (gthrew, lg) =
              (match wo with
               | On (sl, o) -> let i = n2i sl in
                               if inr i then (let (g', t) = gstep (List.nth !gs i) o in
                                              let l = legal cf (List.nth !w i) o in gs := set_nth !gs i g'; (t, l)) else (true, true)
               | CopyC (d, s) -> let d = n2i d and s = n2i s in
                                 if inr d && inr s then (let l = copy_ok cf (List.nth !w s) in gs := set_nth !gs d (g_copy (List.nth !gs s)); (false, l)) else (true, true)
               | Assign (d, s) -> let d = n2i d and s = n2i s in
                                  if inr d && inr s then (if d = s then (false, true) else
                                                            (let l = copy_ok cf (List.nth !w s) in gs := set_nth !gs d (g_copy (List.nth !gs s)); (false, l))) else (true, true)
               | Move (d, s) -> let d = n2i d and s = n2i s in
                                if inr d && inr s then (let a = List.nth !gs d and b = List.nth !gs s in gs := set_nth (set_nth !gs d b) s a; (false, true)) else (true, true)) in
            Buffer.add_string out (Printf.sprintf "T %d\nL %d\n" (b2i gthrew) (b2i lg));
            List.iteri (fun i g -> if List.mem i touched then gdump out g i) !gs
          end;
          w := w';
          if not spec && not inv then begin
            Buffer.add_string out (Printf.sprintf "T %d\n" (b2i threw));
            List.iteri (fun i s -> if List.mem i touched then dump out s i) !w
          end);
      if Buffer.length out > 1000000 then (print_string (Buffer.contents out); Buffer.clear out)
    done with End_of_file -> ());
  print_string (Buffer.contents out);
  if inv then Printf.printf "INV states=%d wf_fail=%d dyn_fail=%d ops=%d thm=%d first=%s\n" !ninv !nwf !ndyn !nops !nthm !firstbad
