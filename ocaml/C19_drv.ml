(* Driver for the extracted C19/C21 model (C19m.ml = extraction of coq/C19/C19_Model.v and C19_CPodes.v).
   Reads one command per line, times as OCaml float literals (%h / inf); every double and +inf is mapped
   exactly and order-preservingly into the model's Q (inf -> 2^1100), NaN -> 0 (only uninitialised fields).
     A final|none allowInterp everyStep limit|none projInterp      cfg of the AbstractIntegratorRep model
     S comm tAdv tInterp interp tLow tHigh startCI advProj intProj   set the model state
     O t1 ev lo hi proj t1att                                       append an oracle answer (one takeOneStep)
     R report sched                                                 stepTo -> one result line, clears the oracle queue
     I low term                                                     reinitialize
     P                                                              print the current state
     T t0 tMax h                                                    select_t1 on the float instance
     D fin zero limited errLeAcc cand h min|none max|none           adjustStepSize model on the float instance (C21)
     K errCtl min|none max|none h ; conv big projOk fin zero errLeAcc cand limited ; ...   attempt loop (C21)
   CPodes model: C (cfg) / Z (state) / Q (oracle answer) / X report sched (stepTo) / J low (reinit) / Y (print) *)
open C19m
(*FOPS*)

let rec pos_of_int (n:int) : positive =
  if n = 1 then XH else if n land 1 = 0 then XO (pos_of_int (n lsr 1)) else XI (pos_of_int (n lsr 1))
let rec shiftl (p:positive) (k:int) : positive = if k <= 0 then p else shiftl (XO p) (k-1)
let rec pow2 (k:int) : positive = if k <= 0 then XH else XO (pow2 (k-1))
let q_of_float (x:float) : q =
  if x <> x then { qnum = Z0; qden = XH }
  else if x = infinity then { qnum = Zpos (pow2 1100); qden = XH }
  else if x = neg_infinity then { qnum = Zneg (pow2 1100); qden = XH }
  else if x = 0.0 then { qnum = Z0; qden = XH }
  else begin
    let (m, e) = frexp (abs_float x) in
    let mant = ref (Int64.to_int (Int64.of_float (ldexp m 53))) and ex = ref (e - 53) in
    while !mant land 1 = 0 do mant := !mant lsr 1; incr ex done;
    let p = pos_of_int !mant in
    let (num, den) = if !ex >= 0 then (shiftl p !ex, XH) else (p, pow2 (- !ex)) in
    { qnum = (if x > 0.0 then Zpos num else Zneg num); qden = den }
  end
let rec fpos (p:positive) : float = match p with XH -> 1.0 | XO r -> 2.0 *. fpos r | XI r -> 2.0 *. fpos r +. 1.0
let float_of_q (a:q) : float =
  let n = match a.qnum with Z0 -> 0.0 | Zpos p -> fpos p | Zneg p -> -. (fpos p) in n /. fpos a.qden

let toks line = List.filter (fun s -> s <> "") (String.split_on_char ' ' line)
let fl s = float_of_string s
let qf s = q_of_float (fl s)
let bl s = (s = "1" || s = "true")
let rec nat_of_int n = if n <= 0 then O else S (nat_of_int (n-1))
let comm_of = function 0 -> StepNoEvent | 1 -> StepWithEvent | 2 -> RetNoEvent | 3 -> RetWithEvent | _ -> FinalReturned
let int_of_comm = function StepNoEvent -> 0 | StepWithEvent -> 1 | RetNoEvent -> 2 | RetWithEvent -> 3 | FinalReturned -> 4
let st_name = function
  | ReachedReportTime -> "ReachedReportTime" | ReachedEventTrigger -> "ReachedEventTrigger"
  | ReachedScheduledEvent -> "ReachedScheduledEvent" | TimeHasAdvanced -> "TimeHasAdvanced"
  | ReachedStepLimit -> "ReachedStepLimit" | EndOfSimulation -> "EndOfSimulation"
  | StartOfContinuousInterval -> "StartOfContinuousInterval"
let b2i b = if b then 1 else 0
let pq a = Printf.printf " %h" (float_of_q a)

let cfg0 = ref { finalT = None; allowInterp = true; everyStep = false; stepLimit = None; projInterp = true }
let st0 = ref (init_state (q_of_float 0.0))
let orc : outcome list ref = ref []

let print_state (s:ist) =
  Printf.printf " %d" (int_of_comm s.comm_st); pq (tState s); pq s.tAdv; Printf.printf " %d" (b2i s.interp);
  pq s.tLow; pq s.tHigh; Printf.printf " %d %d %d" (b2i s.startCI) (b2i s.advProj) (b2i s.intProj)

(*CPODES*)

let () =
  try while true do
    let line = input_line stdin in
    (match toks line with
     | ["A"; fin; ai; es; lim; pi] ->
         cfg0 := { finalT = (if fin = "none" then None else Some (qf fin)); allowInterp = bl ai; everyStep = bl es;
                   stepLimit = (if lim = "none" then None else Some (nat_of_int (int_of_string lim))); projInterp = bl pi }
     | ["S"; cm; ta; ti; ip; lo; hi; ci; ap; ipj] ->
         st0 := { comm_st = comm_of (int_of_string cm); tAdv = qf ta; tInterp = qf ti; interp = bl ip; tLow = qf lo;
                  tHigh = qf hi; startCI = bl ci; advProj = bl ap; intProj = bl ipj }
     | ["O"; t1; ev; lo; hi; pj; ta] ->
         orc := !orc @ [{ t1 = qf t1; ev = (if bl ev then Some (qf lo, qf hi) else None); proj = bl pj; t1att = qf ta }]
     | ["R"; rep; sch] ->
         (match stepTo !cfg0 !st0 (qf rep) (qf sch) !orc with
          | Ok (((st, s'), rest), us) ->
              st0 := s';
              Printf.printf "OK %s" (st_name st); print_state s';
              Printf.printf " unused=%d uses=%d" (List.length rest) (List.length us);
              List.iter (fun u -> Printf.printf " |"; pq u.u_t0; pq u.u_tMax; pq u.u_tReport;
                                  Printf.printf " %d" (b2i (oracle_okb u))) us;
              print_newline ()
          | Refused -> print_endline "REFUSED"
          | StepFailed -> print_endline "STEPFAILED"
          | OutOfOracle -> print_endline "OUTOFORACLE");
         orc := []
     | ["I"; low; term] -> st0 := reinit !st0 (bl low) (bl term)
     | ["P"] -> Printf.printf "STATE"; print_state !st0; print_newline ()
     | ["T"; t0; tmax; h] ->
         let (t1, lim) = select_t1 fops (fl t0) (fl tmax) (fl h) in Printf.printf "T1 %h %d\n" t1 (b2i lim)
     | ["D"; fin; zero; lim; ela; cand; h; mn; mx] ->
         let o s = if s = "none" then None else Some (fl s) in
         let (nh, ok) = adjust fops (bl fin) (bl zero) (bl lim) (bl ela) (fl cand) (fl h) (o mn) (o mx) in
         Printf.printf "ADJ %h %d\n" nh (b2i ok)
     | "K" :: ec :: mn :: mx :: h :: rest ->
         let o s = if s = "none" then None else Some (fl s) in
         let rec parse l = match l with
           | ";" :: c :: b :: p :: f :: z :: e :: cd :: lm :: tl ->
               { a_conv = bl c; a_big = bl b; a_projOk = bl p; a_fin = bl f; a_zero = bl z; a_errLeAcc = bl e;
                 a_cand = fl cd; a_limited = bl lm } :: parse tl
           | _ -> [] in
         (match attempts fops (bl ec) (o mn) (o mx) (fl h) (parse rest) with
          | None -> print_endline "ATT none"
          | Some ((pj, hu), hn) -> Printf.printf "ATT %d %h %h\n" (b2i pj) hu hn)
     | [] -> ()
     | cmd -> if not (cpodes_cmd cmd) then Printf.printf "BADCMD %s\n" line)
  done with End_of_file -> ()
