(* Driver for the extracted C20 model (C20m.ml = extraction of coq/C20/C20_Model.v), float instance.
   Reads the same case lines as harness/C20_step.cpp and prints result lines in the same format:
     STEP kind n2 nz fam t0 h acc | nd | y0 | M | C      -> R conv errOrder nit errNorm | y1 | yerr
     TAKE kind n2 nz fam t0 h acc umin umax tMax | ...   -> T - tAdv hTaken hNext nErrFail nAttempt nConvFail | y1
     ADJ acc h0 umin umax k | err errOrder limited ...   -> A cur0 | ok h' ...
     HERM n t0 t1 t | y0 | f0 | y1 | f1                  -> H yt
   The right-hand side F(t,y) of the ODE (two families, see the harness) is supplied here, the model only
   receives it as a function; vectors are OCaml lists with the model's own componentwise VL instance. *)
open C20m
(*FOPS*)

let fl s = match s with "nan" -> nan | "inf" -> infinity | "-inf" -> neg_infinity | _ -> float_of_string s
let rec nat_of_int n = if n <= 0 then O else S (nat_of_int (n-1))
let rec int_of_nat = function O -> 0 | S n -> 1 + int_of_nat n
let rec pos_of_int (n:int) : positive =
  if n = 1 then XH else if n land 1 = 0 then XO (pos_of_int (n lsr 1)) else XI (pos_of_int (n lsr 1))
let z_of_int n = if n = 0 then Z0 else if n > 0 then Zpos (pos_of_int n) else Zneg (pos_of_int (-n))
let vo = vL fops
let pl l = List.iter (fun x -> Printf.printf " %h" x) l
let rec take n l = if n <= 0 then [] else match l with [] -> [] | x :: r -> x :: take (n-1) r
let rec drop n l = if n <= 0 then l else match l with [] -> [] | _ :: r -> drop (n-1) r
let b2i b = if b then 1 else 0

(* ODE definition *)
type ode = { n2 : int; nz : int; fam : int; nd : float array; m : float array; c : float array }
let wdot (d:ode) (t:float) (y:float array) : float array =
  let n = 2*d.n2 + d.nz and mm = d.n2 + d.nz in
  Array.init mm (fun i ->
    let acc = ref 0.0 in
    if d.fam = 0 then begin
      for j = 0 to n-1 do acc := !acc +. d.m.(i*n+j) *. y.(j) done;
      let tp = ref 1.0 in
      for k = 0 to 4 do acc := !acc +. d.c.(i*5+k) *. !tp; tp := !tp *. t done
    end else begin
      for j = 0 to n-1 do acc := !acc +. d.m.(i*n+j) *. sin y.(j) done;
      acc := !acc +. d.c.(i*5) *. cos (d.c.(i*5+1) *. t)
    end; !acc)
(* full ydot = (N u, udot, zdot) *)
let fy (d:ode) (t:float) (y:float list) : float list =
  let ya = Array.of_list y in
  let w = wdot d t ya in
  let qd = List.init d.n2 (fun i -> d.nd.(i) *. ya.(d.n2+i)) in
  qd @ Array.to_list w
let nmuln (d:ode) (_q:float list) (u:float list) : float list = List.mapi (fun i x -> d.nd.(i) *. x) u
let facc (d:ode) (t:float) (q:float list) (u:float list) (z:float list) : float list * float list =
  let w = Array.to_list (wdot d t (Array.of_list (q @ u @ z))) in (take d.n2 w, drop d.n2 w)
let norm2 (l:float list) : float = sqrt (List.fold_left (fun a x -> a +. x *. x) 0.0 l)
let tiny = Float.pow epsilon_float 1.25
let pow x y = Float.pow x y

let err_order = function 0 -> 2 | 1 -> 2 | 2 -> 3 | 3 -> 4 | 4 -> 4 | 5 -> 3 | 6 -> -1 | _ -> 2

(* one attempt of method [kind] from (t0,y0) to t1: (converged, errOrder, numIterations, y1, yerr) *)
let attempt (d:ode) (kind:int) (acc:float) (t0:float) (y0:float list) (t1:float) =
  let f = fy d in
  let f0 = f t0 y0 in
  let n2 = d.n2 in
  let q0 = take n2 y0 and u0 = take n2 (drop n2 y0) and z0 = drop (2*n2) y0 in
  let qd0 = take n2 f0 and ud0 = take n2 (drop n2 f0) and zd0 = drop (2*n2) f0 in
  match kind with
  | 0 -> let (y1, e) = euler_step fops vo f t0 t1 y0 f0 in (true, 2, 1, y1, e)
  | 1 -> let (y1, e) = rk2_step fops vo f t0 t1 y0 f0 in (true, 2, 1, y1, e)
  | 2 -> let (y1, e) = rk3_step fops vo f t0 t1 y0 f0 in (true, 3, 1, y1, e)
  | 3 -> let (y1, e) = rkf_step fops vo f t0 t1 y0 f0 in (true, 4, 1, y1, e)
  | 4 -> let (y1, e) = rkm_step fops vo f t0 t1 y0 f0 in (true, 4, 1, y1, e)
  | 5 ->
    let tol = min 1e-4 (0.1 *. acc) in
    let qdd0 = List.mapi (fun i x -> d.nd.(i) *. x) ud0 in
    let ((((q1,u1),z1), ((eq,eu),ez)), conv), nit =
      verlet_step fops vo (nmuln d) (facc d) norm2 t0 t1 q0 u0 z0 qd0 ud0 zd0 qdd0 tiny tol in
    (conv, 3, int_of_nat nit, q1 @ u1 @ z1, eq @ eu @ ez)
  | 6 ->
    let ((q1,u1),z1) = sxe_step fops vo (nmuln d) t0 t1 q0 u0 z0 ud0 zd0 in
    (true, -1, 1, q1 @ u1 @ z1, List.map (fun _ -> 0.0) y0)
  | _ ->
    let (((q1,u1),z1), ((eq,eu),ez)) = sxe2_step fops vo (nmuln d) (facc d) t0 t1 q0 u0 z0 ud0 zd0 in
    (true, 2, 1, q1 @ u1 @ z1, eq @ eu @ ez)

let use_inf = ref false
let errnorm (d:ode) (y0:float list) (yerr:float list) : float =
  let n2 = d.n2 in
  let u0 = take n2 (drop n2 y0) and z0 = drop (2*n2) y0 in
  let su = List.map (fun v -> rel_scale fops v 1.0) u0 and sz = List.map (fun v -> rel_scale fops v 1.0) z0 in
  let wq = List.init n2 (fun _ -> 1.0) in
  err_norm_sel fops !use_inf wq su sz (take n2 yerr) (take n2 (drop n2 yerr)) (drop (2*n2) yerr)

let rec split_bars toks cur acc = match toks with
  | [] -> List.rev (List.rev cur :: acc)
  | "|" :: r -> split_bars r [] (List.rev cur :: acc)
  | x :: r -> split_bars r (x :: cur) acc

let read_ode n2 nz fam (secs:string list list) : ode * float list =
  match secs with
  | nd :: y0 :: m :: c :: _ ->
    ({ n2; nz; fam; nd = Array.of_list (List.map fl nd); m = Array.of_list (List.map fl m); c = Array.of_list (List.map fl c) },
     List.map fl y0)
  | _ -> failwith "bad ode"

let opt x = if x >= 0.0 then Some x else None

let () =
  try while true do
    let line = input_line stdin in
    let tk = toks line in
    let tk = match tk with
      | "STEPI" :: r -> use_inf := true; "STEP" :: r
      | "TAKEI" :: r -> use_inf := true; "TAKE" :: r
      | _ -> use_inf := false; tk in
    (match tk with
     | "NORM" :: ui :: n2 :: nz :: "|" :: rest ->
       use_inf := (ui <> "0");
       (match split_bars rest [] [] with
        | nd :: y0 :: ye :: _ ->
          let d = { n2 = int_of_string n2; nz = int_of_string nz; fam = 0; nd = Array.of_list (List.map fl nd); m = [||]; c = [||] } in
          Printf.printf "N %h\n" (errnorm d (List.map fl y0) (List.map fl ye))
        | _ -> print_endline "BAD")
     | "STEP" :: kind :: n2 :: nz :: fam :: t0 :: h :: acc :: "|" :: rest ->
       let kind = int_of_string kind and t0 = fl t0 and h = fl h and acc = fl acc in
       let (d, y0) = read_ode (int_of_string n2) (int_of_string nz) (int_of_string fam) (split_bars rest [] []) in
       let (conv, ord, nit, y1, e) = attempt d kind acc t0 y0 (t0 +. h) in
       let en = if conv then (if kind = 6 then 0.0 else errnorm d y0 e) else nan in
       Printf.printf "R %d %d %d %h |" (b2i conv) ord nit en; pl y1; print_string " |"; pl e; print_newline ()
     | "TAKE" :: kind :: n2 :: nz :: fam :: t0 :: h :: acc :: umin :: umax :: tmax :: "|" :: rest ->
       let kind = int_of_string kind and t0 = fl t0 and h = fl h and acc = fl acc in
       let umin = opt (fl umin) and umax = opt (fl umax) and tmax = fl tmax in
       let (d, y0) = read_ode (int_of_string n2) (int_of_string nz) (int_of_string fam) (split_bars rest [] []) in
       (* methodInitialize: the initial step clamped by the user limits *)
       let cur = match umin with Some m -> if h < m then m else h | None -> h in
       let cur = match umax with Some m -> if m < cur then m else cur | None -> cur in
       let nconvfail = ref 0 and natt = ref 0 in
       let att t1 =
         let (conv, ord, _nit, y1, e) = attempt d kind acc t0 y0 t1 in
         incr natt; if not conv then incr nconvfail;
         (((conv, (if conv then errnorm d y0 e else 0.0)), z_of_int ord), y1) in
       (match take_step fops pow (nat_of_int 60) att infinity t0 tmax acc cur umin umax O with
        | Some (((y1, t1), hnext), nfail) ->
          Printf.printf "T - %h %h %h %d %d %d |" t1 (t1 -. t0) hnext (int_of_nat nfail) !natt !nconvfail; pl y1; print_newline ()
        | None -> print_endline "T none")
     | "ADJ" :: acc :: h0 :: umin :: umax :: k :: rest ->
       let acc = fl acc and h0 = fl h0 and umin = opt (fl umin) and umax = opt (fl umax) in
       let cur = match umin with Some m -> if h0 < m then m else h0 | None -> h0 in
       let cur = match umax with Some m -> if m < cur then m else cur | None -> cur in
       Printf.printf "A %h |" cur;
       let cur = ref cur in
       List.iter (fun sec -> match sec with
         | [err; ord; lim] ->
           let (ok, h') = adjust fops pow (fl err) (z_of_int (int_of_string ord)) (lim <> "0") acc !cur umin umax in
           cur := h'; Printf.printf " %d %h" (b2i ok) h'
         | _ -> ()) (List.tl (split_bars rest [] []));
       print_newline ()
     | "HERM" :: n :: t0 :: t1 :: t :: "|" :: rest ->
       (match split_bars rest [] [] with
        | y0 :: f0 :: y1 :: f1 :: _ ->
          let l = List.map fl in
          print_string "H"; pl (hermite fops vo (fl t0) (l y0) (l f0) (fl t1) (l y1) (l f1) (fl t)); print_newline ()
        | _ -> print_endline "BAD")
     | _ -> print_endline "BAD")
  done with End_of_file -> ()
