(* Driver for the extracted C22 model (C22m.ml = extraction of coq/C22/C22_Model.v + C19_Model.select_t1).
   One command per line; doubles as OCaml float literals (%h / inf); answers one line per query command.
     ROW b a r f                      -> ROW cls mask seen report            (finite tables)
     SGN x                            -> SGN s
     ROOT tLow fLow tHigh fHigh bias mw -> ROOT est                           (estimateRootTime, float instance)
     SYS acc ts ; INFO n (mask window id)*                                    (set integrator data)
     FEC tLow tHigh bias mw nv v.. E (eLow eHigh)*  -> R n (idx est tr)* earliest narrowest
     W n (kind a b s)*                                                         (witness functions per trigger index)
     LOC t0 tMax h tReport sig fuel   -> NOEVENT t1 | EVENT t1 tLow tHigh niter n (id est tr)* I (lo hi mid)* | ASSERT | FUEL
     HS idx cls action interval n times.. ; IDS n id..                         (time-stepper handlers, in registration order)
     TSINIT t0                                                                  (TimeStepper::initialize)
     ANS status t tadv n ids..                                                  (append an integrator answer)
     TSRUN reportAll time             -> RET status t tadv over used contract ; then one line per handler call: H id cause time qa qb ; then ENDLOG *)
open C22m
(*FOPS*)

let rec pos_of_int (n:int) : positive =
  if n = 1 then XH else if n land 1 = 0 then XO (pos_of_int (n lsr 1)) else XI (pos_of_int (n lsr 1))
let rec shiftl (p:positive) (k:int) : positive = if k <= 0 then p else shiftl (XO p) (k-1)
let rec pow2 (k:int) : positive = if k <= 0 then XH else XO (pow2 (k-1))
let q_of_float (x:float) : q =
  if x <> x then { qnum = Z0; qden = XH }
  else if x = 0.0 then { qnum = Z0; qden = XH }
  else begin
    let (m, e) = frexp (abs_float x) in
    let mant = ref (Int64.to_int (Int64.of_float (ldexp m 53))) and ex = ref (e - 53) in
    while !mant land 1 = 0 do mant := !mant lsr 1; incr ex done;
    let p = pos_of_int !mant in
    let (num, den) = if !ex >= 0 then (shiftl p !ex, XH) else (p, pow2 (- !ex)) in
    { qnum = (if x > 0.0 then Zpos num else Zneg num); qden = den }
  end
let rec fpos (p:positive) : float = match p with XH -> 1.0 | XO r -> 2.0 *. fpos r | XI r -> 2.0 *. fpos r +. 1.0
let float_of_q (a:q) : float =
  let n = match a.qnum with Z0 -> 0.0 | Zpos p -> fpos p | Zneg p -> -. (fpos p) in n /. fpos a.qden
let ti_of_float (x:float) : tinf = if x = infinity then None else Some (q_of_float x)
let float_of_ti (t:tinf) : float = match t with None -> infinity | Some a -> float_of_q a

let fl s = float_of_string s
let bl s = (s = "1" || s = "true")
let rec nat_of_int n = if n <= 0 then O else S (nat_of_int (n-1))
let rec int_of_nat = function O -> 0 | S n -> 1 + int_of_nat n
let z_of_int (i:int) : z = if i = 0 then Z0 else if i > 0 then Zpos (pos_of_int i) else Zneg (pos_of_int (-i))
let int_of_z (x:z) : int = int_of_float (float_of_z x)
let n_of_int (i:int) : n = if i = 0 then N0 else Npos (pos_of_int i)
let int_of_n (x:n) : int = match x with N0 -> 0 | Npos p -> int_of_float (fpos p)
let b2i b = if b then 1 else 0

let st_name = function
  | ReachedReportTime -> "ReachedReportTime" | ReachedEventTrigger -> "ReachedEventTrigger"
  | ReachedScheduledEvent -> "ReachedScheduledEvent" | TimeHasAdvanced -> "TimeHasAdvanced"
  | ReachedStepLimit -> "ReachedStepLimit" | EndOfSimulation -> "EndOfSimulation"
  | StartOfContinuousInterval -> "StartOfContinuousInterval"
let st_of = function
  | "ReachedReportTime" -> ReachedReportTime | "ReachedEventTrigger" -> ReachedEventTrigger
  | "ReachedScheduledEvent" -> ReachedScheduledEvent | "TimeHasAdvanced" -> TimeHasAdvanced
  | "ReachedStepLimit" -> ReachedStepLimit | "EndOfSimulation" -> EndOfSimulation
  | _ -> StartOfContinuousInterval
let cause_name = function CTriggered -> "T" | CScheduled -> "S" | CTimeAdvanced -> "A" | CTermination -> "X" | CReport -> "R"

(* integrator data *)
let accw = ref 0.0
let info : float trig_info list ref = ref []
(* witness functions, in trigger-index order: kind 0: t - a ; 1: ((t - a)*(t - b))*s ; 2: sin(a*t + b) - s *)
let wit : (int * float * float * float) list ref = ref []
let weval (k, a, b, s) t = if k = 0 then t -. a else if k = 1 then ((t -. a) *. (t -. b)) *. s else sin (a *. t +. b) -. s
let evec t = List.map (fun w -> weval w t) !wit

let rec take n l = if n <= 0 then [] else match l with [] -> [] | x :: r -> x :: take (n-1) r
let rec drop n l = if n <= 0 then l else match l with [] -> [] | _ :: r -> drop (n-1) r

(* time stepper *)
type pay = q * q                                        (* qA (counter), qB (timer) *)
let hspecs : (int * int * int * float * float list) list ref = ref []     (* idx cls action interval times *)
let hids : int list ref = ref []
let answers : ians list ref = ref []
let tstate : pay tstate option ref = ref None
let cf = ref false                                    (* variant of the System-level scheduled-event loop *)
(* exact rational arithmetic: the extracted Qplus / Qminus *)
let qplus a b = qred (C22m.qplus a b)
let flow ((qa, qb):pay) (t:q) (t':q) : pay = (qa, qplus qb (qminus t' t))

let list_next (ts:float list) (t:q) (incl:bool) : tinf =
  let tf = float_of_q t in
  let rec go = function [] -> None | x :: r -> if x > tf || (incl && x = tf) then Some (q_of_float x) else go r in go ts

let act_of (idx:int) (action:int) : pay -> q -> (pay * bool) * bool = fun (qa, qb) _ ->
  match action with
  | 1 -> (((qplus qa (q_of_float (float_of_int (idx + 1))), qb), false), true)
  | 2 -> (((qa, q_of_float 0.0), false), true)
  | 3 -> (((qplus qa (q_of_float (float_of_int (idx + 1))), qb), true), true)
  | _ -> (((qa, qb), false), false)

let build_system () : pay subsystem list * pay thandler list =
  let with_id = List.combine !hspecs !hids in
  let sh cls_ok = List.filter_map (fun ((idx, cls, action, interval, times), id) ->
      if not (cls_ok cls) then None else
      let next = if cls = 0 || cls = 3 then (fun t incl -> Some (periodic_next (q_of_float interval) t incl)) else list_next times in
      Some { h_id = nat_of_int id; h_next = next; h_act = (if cls >= 3 then (fun s _ -> ((s, false), false)) else act_of idx action) }) with_id in
  let th cls_ok = List.filter_map (fun ((idx, cls, action, _, _), id) ->
      if not (cls_ok cls) then None else
      Some { th_id = nat_of_int id; th_act = (if cls = 5 then (fun s _ -> ((s, false), false)) else act_of idx action) }) with_id in
  ([ { ss_handlers = sh (fun c -> c = 0 || c = 1); ss_reporters = sh (fun c -> c = 3 || c = 4) } ],
   th (fun c -> c = 2) @ th (fun c -> c = 5))

let toks line = List.filter (fun s -> s <> "") (String.split_on_char ' ' line)

let () =
  try while true do
    let line = input_line stdin in
    (match toks line with
     | ["ROW"; b; a; r; f] ->
         let b = z_of_int (int_of_string b) and a = z_of_int (int_of_string a) in
         let mask = calcMask (bl r) (bl f) in
         let cls = classify b a in
         let seen = transitionSeen b a mask in
         Printf.printf "ROW %d %d %d %d\n" (int_of_n cls) (int_of_n mask) (int_of_n seen) (int_of_n (toReport seen))
     | ["SGN"; x] -> Printf.printf "SGN %d\n" (int_of_z (sgnT fops (fl x)))
     | ["ROOT"; tl; fl_; th; fh; bias; mw] ->
         Printf.printf "ROOT %h\n" (estimateRootTime fops (fl tl) (fl fl_) (fl th) (fl fh) (fl bias) (fl mw))
     | ["SYS"; acc; ts] -> accw := fl acc *. fl ts
     | "INFO" :: n :: rest ->
         let n = int_of_string n in
         let rec go i l = if i >= n then [] else match l with
           | m :: w :: id :: r -> { ti_mask = n_of_int (int_of_string m); ti_window = fl w; ti_id = nat_of_int (int_of_string id) } :: go (i+1) r
           | _ -> [] in
         info := go 0 rest
     | "W" :: n :: rest ->
         let n = int_of_string n in
         let rec go i l = if i >= n then [] else match l with
           | k :: a :: b :: s :: r -> (int_of_string k, fl a, fl b, fl s) :: go (i+1) r
           | _ -> [] in
         wit := go 0 rest
     | "FEC" :: tl :: th :: bias :: mw :: nv :: rest ->
         let nv = int_of_string nv in
         let nvv = if nv < 0 then 0 else nv in
         let vs = List.map int_of_string (take nvv rest) in
         let rest = drop nvv rest in
         let es = List.map fl (List.tl rest) in           (* skip the "E" marker *)
         let rec split = function a :: b :: r -> let (x, y) = split r in (a :: x, b :: y) | _ -> ([], []) in
         let (elo, ehi) = split es in
         let viable = if nv < 0 then seq O (nat_of_int (List.length elo)) else List.map nat_of_int vs in
         let r = findEventCandidates fops !info !accw viable (fl tl) elo (fl th) ehi (fl bias) (fl mw) in
         Printf.printf "R %d" (List.length r.f_cands);
         List.iter (fun c -> Printf.printf " %d %h %d" (int_of_nat c.c_idx) c.c_est (int_of_n c.c_tr)) r.f_cands;
         let o = function None -> infinity | Some x -> x in
         Printf.printf " %h %h\n" (o r.f_earliest) (o r.f_narrowest)
     | ["LOC"; t0; tmax; h; trep; sg; fuel] ->
         let t0 = fl t0 in
         let (t1, _) = select_t1 fops t0 (fl tmax) (fl h) in
         let mw = min_window fops (fl sg) t1 in
         let pr_tr (s:float lstate) (iters:((float * float) * float) list) =
           let tg = triggered_of fops !info s.l_cands in
           Printf.printf "EVENT %h %h %h %d %d" t1 s.l_tLow s.l_tHigh (List.length iters) (List.length tg);
           List.iter (fun g -> Printf.printf " %d %h %d" (int_of_nat g.g_id) g.g_est (int_of_n g.g_tr)) tg;
           Printf.printf " I";
           List.iter (fun ((lo, hi), mid) -> Printf.printf " %h %h %h" lo hi mid) iters;
           Printf.printf " N %h\n" s.l_narrowest in
         (match event_phase fops !info !accw evec (fl trep) mw (nat_of_int (int_of_string fuel)) t0 t1 (evec t0) (evec t1) with
          | NoEvent -> Printf.printf "NOEVENT %h\n" t1
          | Event (s, iters) -> pr_tr s iters
          | EAssert _ -> Printf.printf "ASSERT %h\n" t1
          | EFuel _ -> Printf.printf "FUEL %h\n" t1)
     | ["EVAL"; t] -> Printf.printf "EVAL"; List.iter (fun x -> Printf.printf " %h" x) (evec (fl t)); Printf.printf "\n"
     | "HS" :: idx :: cls :: action :: interval :: n :: rest ->
         let n = int_of_string n in
         hspecs := !hspecs @ [(int_of_string idx, int_of_string cls, int_of_string action, fl interval, List.map fl (take n rest))]
     | "IDS" :: _ :: rest -> hids := List.map int_of_string rest
     | ["CF"; b] -> cf := bl b
     | "SYSNEXT" :: cfv :: t :: incl :: ndef :: rest ->
         (* SYSNEXT cf t incl ndef (nt times..)* nsub times..  -> NEXT tn nids ids.. *)
         let mk id times : unit shandler = { h_id = nat_of_int id; h_next = list_next times; h_act = (fun s _ -> ((s, false), false)) } in
         let ndef = int_of_string ndef in
         let rec defs i l acc = if i >= ndef then (List.rev acc, l) else match l with
           | nt :: r -> let nt = int_of_string nt in defs (i+1) (drop nt r) (mk i (List.map fl (take nt r)) :: acc)
           | [] -> (List.rev acc, []) in
         let (dh, rest) = defs 0 rest [] in
         let subsl = match rest with
           | ns :: r -> List.mapi (fun j x -> { ss_handlers = [mk (ndef + j) [fl x]]; ss_reporters = [] }) (take (int_of_string ns) r)
           | [] -> [] in
         let all = { ss_handlers = dh; ss_reporters = [] } :: subsl in
         let (tn, ids) = sys_next (bl cfv) (fun ss -> ss.ss_handlers) all (q_of_float (fl t)) (bl incl) in
         Printf.printf "NEXT %h %d" (float_of_ti tn) (List.length ids); List.iter (fun i -> Printf.printf " %d" (int_of_nat i)) ids; Printf.printf "\n"
     | ["TSRESET"] -> hspecs := []; hids := []; answers := []; tstate := None
     | ["TSINIT"; t0] -> tstate := Some (ts_init (q_of_float (fl t0)) (q_of_float 0.0, q_of_float 0.0)); answers := []
     | "ANS" :: st :: t :: tadv :: _ :: ids ->
         answers := !answers @ [{ a_status = st_of st; a_t = q_of_float (fl t); a_tadv = q_of_float (fl tadv);
                                  a_ids = List.map (fun s -> nat_of_int (int_of_string s)) ids }]
     | ["TSRUN"; ra; time] ->
         let (subs, ths) = build_system () in
         (match !tstate with
          | None -> Printf.printf "NOSTATE\n"
          | Some s ->
            (match ts_stepTo !cf subs ths flow (bl ra) (q_of_float (fl time)) s !answers with
             | TSRet (st, s', rest, log, uses) ->
                 let used = List.length !answers - List.length rest in
                 answers := rest; tstate := Some s';
                 let (pa, pb) = s'.ts_pay in
                 Printf.printf "RET %s %h %h %d %d %d %h %h %d\n" (st_name st) (float_of_q s'.ts_t) (float_of_q s'.ts_tadv) (b2i s'.ts_over) used
                   (b2i (List.for_all use_coreb uses)) (float_of_q pa) (float_of_q pb) (b2i (List.for_all use_monob uses));
                 List.iter (fun u -> Printf.printf "U %h %h %h %h %h %d %d\n" (float_of_q u.u_tcur) (float_of_ti u.u_nextEv) (float_of_ti u.u_nextRep)
                               (float_of_ti u.u_report) (float_of_ti u.u_event) (b2i u.u_inclEv) (b2i (use_coreb u))) uses;
                 List.iter (fun k -> let (qa, qb) = k.k_in in
                             Printf.printf "H %d %s %h %h %h\n" (int_of_nat k.k_id) (cause_name k.k_cause) (float_of_q k.k_time) (float_of_q qa) (float_of_q qb)) log;
                 Printf.printf "ENDLOG\n"
             | TSOracle (s', log, uses) ->
                 Printf.printf "ORACLE %h %h %d\n" (float_of_q s'.ts_t) (float_of_q s'.ts_tadv) (List.length uses);
                 List.iter (fun k -> let (qa, qb) = k.k_in in
                             Printf.printf "H %d %s %h %h %h\n" (int_of_nat k.k_id) (cause_name k.k_cause) (float_of_q k.k_time) (float_of_q qa) (float_of_q qb)) log;
                 Printf.printf "ENDLOG\n"))
     | [] -> ()
     | t :: _ -> Printf.printf "BADCMD %s\n" t);
    flush stdout
  done with End_of_file -> ()
