(* Driver for the extracted C23 model (c23m.ml = extraction of coq/C23/C23_Model.v), float NumOps.
   Reads the same case text as harness/C23_drive.cpp and prints, per operation, "<stage> <observation>":
     CASE id / VAR value invalStage / TREE <tree> / EXT op n <pexpr>*n / DEL delay n <pexpr>*n / DIF n <pexpr>*n /
     BEGIN t0 / ops / END
     ops:  T x | R g | A | N g | I | V i x | X j n x*n | G i k path | M j | Q j *)
open C23m
(*FOPS*)

let rec nat_of_int n = if n <= 0 then O else S (nat_of_int (n-1))
let rec int_of_nat = function O -> 0 | S n -> 1 + int_of_nat n
let fl s = float_of_string s
let pv x = if x <> x then print_string " nan" else if x = infinity then print_string " inf"
           else if x = neg_infinity then print_string " -inf" else Printf.printf " %h" x

(* prefix parsers over a token list ref *)
let next tk = match !tk with [] -> failwith "token underrun" | a :: r -> tk := r; a
let rec ptree tk : float mtree =
  match next tk with
  | "C" -> MConst (fl (next tk))
  | "T" -> MTime
  | "V" -> MVar (nat_of_int (int_of_string (next tk)))
  | "S" -> let a = fl (next tk) in let w = fl (next tk) in let p = fl (next tk) in mk_sin fops a w p
  | "+" -> let l = ptree tk in let r = ptree tk in mk_plus fops l r
  | "-" -> let l = ptree tk in let r = ptree tk in mk_minus fops l r
  | "*" -> let f = fl (next tk) in let e = ptree tk in mk_scale fops f e
  | s -> failwith ("bad tree token " ^ s)
let rec ppex tk : float pexpr =
  match next tk with
  | "c" -> PConst (fl (next tk))
  | "t" -> PTime
  | "s" -> let a = fl (next tk) in let w = fl (next tk) in let p = fl (next tk) in PSin (a, w, p)
  | "+" -> let l = ppex tk in let r = ppex tk in PPlus (l, r)
  | "-" -> let l = ppex tk in let r = ppex tk in PMinus (l, r)
  | "*" -> let f = fl (next tk) in let e = ppex tk in PScale (f, e)
  | s -> failwith ("bad pexpr token " ^ s)
let psrc tk : float pexpr list =
  let n = int_of_string (next tk) in List.init n (fun _ -> ppex tk)

let vars : (float * nat) list ref = ref []
let trees : float mtree list ref = ref []
let machs : float mach list ref = ref []
let state : float st option ref = ref None

let print_obs stage (o : float obs) =
  Printf.printf "%d" stage;
  (match o with
   | ONone -> print_string " -"
   | OVal v -> print_string " V"; List.iter pv v
   | ONaN -> print_string " NAN"
   | OThrow -> print_string " EXC"
   | OGuard -> print_string " GUARD"
   | OTime None -> print_string " TM nan"
   | OTime (Some t) -> print_string " TM"; pv t);
  print_newline ()

(* argv[1] = 1: the tree under test has the repair of patches/C23_extreme_setvalue.diff (model flag fx) *)
let fx = Array.length Sys.argv > 1 && Sys.argv.(1) = "1"

let do_op (o : float op) =
  match !state with
  | None -> failwith "op before BEGIN"
  | Some s -> let (s', ob) = step fops fx s o in state := Some s'; print_obs (int_of_nat s'.s_env.e_stage) ob

let () =
  try
    while true do
      let line = input_line stdin in
      let tk = ref (toks line) in
      if !tk <> [] then begin
        match next tk with
        | "CASE" -> vars := []; trees := []; machs := []; state := None;
                    Printf.printf "CASE %s\n" (match !tk with a :: _ -> a | [] -> "?")
        | "END" -> print_string "END\n"
        | "VAR" -> let v = fl (next tk) in let g = int_of_string (next tk) in vars := !vars @ [(v, nat_of_int g)]
        | "TREE" -> trees := !trees @ [ptree tk]
        | "EXT" -> let o = int_of_string (next tk) in let src = psrc tk in
                   let (op, init) = (match o with 0 -> (Minimum, infinity) | 1 -> (Maximum, neg_infinity) | 2 -> (MinAbs, infinity) | _ -> (MaxAbs, 0.0)) in
                   machs := !machs @ [MX (mk_ext op src (List.map (fun _ -> init) src))]
        | "DEL" -> let d = fl (next tk) in let src = psrc tk in machs := !machs @ [MD (mk_delay src d)]
        | "DIF" -> let src = psrc tk in machs := !machs @ [MF (mk_diff fops src)]
        | "BEGIN" -> let t0 = fl (next tk) in
                     let s = { s_env = env0 t0 !vars; s_trees = !trees; s_machs = !machs } in
                     state := Some s; print_obs (int_of_nat s.s_env.e_stage) ONone
        | "T" -> do_op (SetTime (fl (next tk)))
        | "R" -> do_op (Realize (nat_of_int (int_of_string (next tk))))
        | "A" -> do_op AutoUpd
        | "N" -> do_op (Inval (nat_of_int (int_of_string (next tk))))
        | "I" -> do_op Init
        | "V" -> let i = int_of_string (next tk) in let x = fl (next tk) in do_op (SetVar (nat_of_int i, x))
        | "X" -> let j = int_of_string (next tk) in let n = int_of_string (next tk) in
                 let v = List.init n (fun _ -> fl (next tk)) in
                 (* the harness refuses a value of the wrong size *)
                 (match !state with
                  | Some s when (match List.nth_opt s.s_machs j with Some (MX x) -> List.length x.x_src = n | _ -> false) ->
                      do_op (SetExt (nat_of_int j, v))
                  | Some s -> print_obs (int_of_nat s.s_env.e_stage) OGuard
                  | None -> failwith "op before BEGIN")
        | "G" -> let i = int_of_string (next tk) in let k = int_of_string (next tk) in let p = next tk in
                 let path = if p = "-" then [] else List.init (String.length p) (fun q -> p.[q] = '1') in
                 do_op (GetT (nat_of_int i, path, nat_of_int k))
        | "M" -> do_op (GetM (nat_of_int (int_of_string (next tk))))
        | "Q" -> do_op (GetMT (nat_of_int (int_of_string (next tk))))
        | s -> failwith ("unknown line " ^ line)
      end
    done
  with End_of_file -> ()
