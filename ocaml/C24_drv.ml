(* C24 driver: runs the EXTRACTED certificate checkers of C24_Model.v (double NumOps) on implementation outputs, and the
   extracted rank count svd_rank (double or emulated binary32).  All matrices are real, row-major; complex data are embedded
   into real block matrices by checks/C24.py before they get here.  One case per line, one output line per case:
     ORTH n tol U[n*n]                      -> "<orth_check 0|1> <max |U^T U - I|, |U U^T - I|>"
     RECON m n k tol A[m*n] U[m*m] s[k] Vt[n*n]   (S = diagm k s)      -> "<recon_check> <max resid>"
     RECONS m n tol A[m*n] U[m*m] S[m*n] Vt[n*n]  (general middle matrix, for the complex embedding)
     DESC k s[k]                            -> "<desc_check>"
     RANK <d|f> rcond k s[k]                -> "<svd_rank>"
     RANKD <d|f> sig m n k s[k]             -> "<svd_rank_default>"   (documented default tolerance max(m,n)*sig, sig = eps^(7/8))
     NORMAL m n tol A[m*n] x[n] b[m]        -> "<normal_check> <max resid>"
     NULLORTH n r tol Vt[n*n] x[n]          -> "<nullorth_check> <max resid>"
     SOLVE m n tol A[m*n] x[n] b[m]         -> "<solve_check> <max resid>"
     INV n tol A[n*n] Ai[n*n]               -> "<inverse_check> <max resid>"
     EIG n tol A[n*n] lam[n] V[n*n]         -> "<eig_check> <max resid>"
     SYM n tol A[n*n]                       -> "<sym_check>"
     ASC k s[k]                             -> "<asc_check>"
     PINV m n k thr tol U[m*m] s[k] Vt[n*n] b[m] x[n]  -> "<|pinv_solution(thr) - x| <= tol> <max diff>"   *)
open C24_x
(*FOPS*)
let r32 (x : float) : float = Int32.float_of_bits (Int32.bits_of_float x)
let fops32 : float numOps = {
  n0 = 0.0; n1 = 1.0; nadd = (fun x y -> r32 (x +. y)); nsub = (fun x y -> r32 (x -. y));
  nmul = (fun x y -> r32 (x *. y)); ndiv = (fun x y -> r32 (x /. y)); nopp = (fun x -> -. x);
  nsqrt = (fun x -> r32 (sqrt x)); nsin = (fun x -> r32 (sin x)); ncos = (fun x -> r32 (cos x)); nabs = abs_float;
  nexp = (fun x -> r32 (exp x)); ntanh = (fun x -> r32 (tanh x)); natan2 = (fun y x -> r32 (atan2 y x));
  nofZ = (fun z -> r32 (float_of_z z)); nleb = (fun x y -> x <= y); nltb = (fun x y -> x < y) }
let rec nat_of_int n = if n <= 0 then O else S (nat_of_int (n - 1))
let rec int_of_nat = function O -> 0 | S k -> 1 + int_of_nat k
let b01 b = if b then "1 " else "0 "
let () = try while true do
  let line = input_line stdin in
  match toks line with [] -> () | kind :: rest ->
  let q = ref rest in
  let nx () = match !q with x :: r -> q := r; x | [] -> failwith "args" in
  let nf () = float_of_string (nx ()) in
  let ni () = int_of_string (nx ()) in
  let rdm m n = let a = Array.make_matrix (max m 1) (max n 1) 0.0 in
    for i = 0 to m - 1 do for j = 0 to n - 1 do a.(i).(j) <- nf () done done;
    (fun i j -> let i = int_of_nat i and j = int_of_nat j in if i < m && j < n then a.(i).(j) else nan) in
  let rdv n = let a = Array.make (max n 1) 0.0 in
    for i = 0 to n - 1 do a.(i) <- nf () done;
    (fun i -> let i = int_of_nat i in if i < n then a.(i) else nan) in
  let nat = nat_of_int in
  (match kind with
   | "ORTH" -> let n = ni () in let tol = nf () in let u = rdm n n in
       print_string (b01 (orth_check fops (nat n) tol u));
       pf (max (mat_maxabs fops (nat n) (nat n) (orth_resid fops (nat n) u)) (mat_maxabs fops (nat n) (nat n) (orth_resid' fops (nat n) u)))
   | "RECON" -> let m = ni () in let n = ni () in let k = ni () in let tol = nf () in
       let a = rdm m n in let u = rdm m m in let s = rdv k in let vt = rdm n n in
       let sm = diagm fops (nat k) s in
       print_string (b01 (recon_check fops (nat m) (nat n) tol a u sm vt));
       pf (mat_maxabs fops (nat m) (nat n) (recon_resid fops (nat m) (nat n) a u sm vt))
   | "RECONS" -> let m = ni () in let n = ni () in let tol = nf () in
       let a = rdm m n in let u = rdm m m in let sm = rdm m n in let vt = rdm n n in
       print_string (b01 (recon_check fops (nat m) (nat n) tol a u sm vt));
       pf (mat_maxabs fops (nat m) (nat n) (recon_resid fops (nat m) (nat n) a u sm vt))
   | "DESC" -> let k = ni () in let s = rdv k in print_string (b01 (desc_check fops (nat k) s))
   | "ASC" -> let k = ni () in let s = rdv k in print_string (b01 (asc_check fops (nat k) s))
   | "RANK" -> let p = nx () in let rc = nf () in let k = ni () in let s = rdv k in
       let r = if p = "f" then svd_rank fops32 (r32 rc) (nat k) s else svd_rank fops rc (nat k) s in
       print_int (int_of_nat r)
   | "RANKD" -> let p = nx () in let sg = nf () in let m = ni () in let n = ni () in let k = ni () in let s = rdv k in
       let r = if p = "f" then svd_rank_default fops32 (r32 sg) (nat m) (nat n) (nat k) s else svd_rank_default fops sg (nat m) (nat n) (nat k) s in
       print_int (int_of_nat r)
   | "NORMAL" -> let m = ni () in let n = ni () in let tol = nf () in let a = rdm m n in let x = rdv n in let b = rdv m in
       print_string (b01 (normal_check fops (nat m) (nat n) tol a x b));
       pf (maxabs fops (nat n) (normal_resid fops (nat m) (nat n) a x b))
   | "NULLORTH" -> let n = ni () in let r = ni () in let tol = nf () in let vt = rdm n n in let x = rdv n in
       print_string (b01 (nullorth_check fops (nat n) (nat r) tol vt x));
       pf (maxabs fops (nat (n - r)) (nullorth_resid fops (nat n) (nat r) vt x))
   | "SOLVE" -> let m = ni () in let n = ni () in let tol = nf () in let a = rdm m n in let x = rdv n in let b = rdv m in
       print_string (b01 (solve_check fops (nat m) (nat n) tol a x b));
       pf (maxabs fops (nat m) (solve_resid fops (nat n) a x b))
   | "INV" -> let n = ni () in let tol = nf () in let a = rdm n n in let ai = rdm n n in
       print_string (b01 (inverse_check fops (nat n) tol a ai));
       pf (max (mat_maxabs fops (nat n) (nat n) (fun i j -> mmul fops (nat n) a ai i j -. delta fops i j))
               (mat_maxabs fops (nat n) (nat n) (fun i j -> mmul fops (nat n) ai a i j -. delta fops i j)))
   | "EIG" -> let n = ni () in let tol = nf () in let a = rdm n n in let lam = rdv n in let v = rdm n n in
       print_string (b01 (eig_check fops (nat n) tol a lam v));
       pf (mat_maxabs fops (nat n) (nat n) (eig_resid fops (nat n) a lam v))
   | "SYM" -> let n = ni () in let tol = nf () in let a = rdm n n in print_string (b01 (sym_check fops (nat n) tol a))
   | "PINV" -> let m = ni () in let n = ni () in let k = ni () in let thr = nf () in let tol = nf () in
       let u = rdm m m in let s = rdv k in let vt = rdm n n in let b = rdv m in let x = rdv n in
       let px = pinv_solution fops (nat m) (nat n) (nat k) thr u s vt b in
       let d = maxabs fops (nat n) (fun i -> px i -. x i) in
       ignore d; print_string (b01 (vec_le fops (nat n) tol (fun i -> px i -. x i))); pf d
   | _ -> print_string "?unknown");
  print_newline ()
done with End_of_file -> ()
