(* C25 (views part): driver for the extracted model coq/C25/C25_views_Model.v (extracted as c25views.ml).
   Reads the operation chains of checks/C25_views.py (format: see harness/C25_views.cpp) and prints, after every operation,
   exactly the lines the C++ harness prints for the real Matrix_/Vector_/RowVector_ objects:
     R [X] | h nr nc contiguous hash | ...      one entry per live handle
     E h: logical scalars row-major             the handle the operation created / wrote through
     S h: sums ; normSqr
   This file owns only parsing, int <-> nat/Z conversion, the hash and the printing. *)
open C25views

let rec nat_of_int n = if n <= 0 then O else S (nat_of_int (n - 1))
let rec int_of_nat = function O -> 0 | S n -> 1 + int_of_nat n
let rec int_of_pos = function XH -> 1 | XO p -> 2 * int_of_pos p | XI p -> 2 * int_of_pos p + 1
let int_of_z = function Z0 -> 0 | Zpos p -> int_of_pos p | Zneg p -> - (int_of_pos p)
let rec pos_of_int n = if n <= 1 then XH else if n land 1 = 0 then XO (pos_of_int (n / 2)) else XI (pos_of_int (n / 2))
let z_of_int n = if n = 0 then Z0 else if n > 0 then Zpos (pos_of_int n) else Zneg (pos_of_int (- n))

let hash_of xs = List.fold_left (fun h x -> (h * 31 + (x + 100000)) mod 1000000007) 7 xs
let flat es = List.concat_map (fun e -> List.map int_of_z e) es

let () =
  let cplx = ref false and esz = ref 1 and isfloat = ref false and w = ref empty_world in
  (* model variant: "repaired" on the command line when MatrixHelper.cpp has resizeOwnerOutOfVectorRep *)
  let repaired = Array.length Sys.argv > 1 && Sys.argv.(1) = "repaired" in
  let toks line = Array.of_list (List.filter (fun s -> s <> "") (String.split_on_char ' ' line)) in
  let elt_at t from = List.init !esz (fun k -> z_of_int (int_of_string t.(from + k))) in
  let elts_at t from cnt = List.init cnt (fun q -> elt_at t (from + q * !esz)) in
  let report threw target =
    let b = Buffer.create 256 in
    Buffer.add_string b (if threw then "R X" else "R");
    List.iteri (fun k vo -> match vo with
      | None -> ()
      | Some v ->
          let xs = flat (velems !cplx !w v) in
          Buffer.add_string b (Printf.sprintf " | %d %d %d %d %d" k (int_of_nat v.v_nr) (int_of_nat v.v_nc)
                                 (if contiguous v || int_of_nat v.v_nr * int_of_nat v.v_nc = 0 then 1 else 0) (hash_of xs))) !w.w_views;
    print_endline (Buffer.contents b);
    (match target with
     | Some h -> (match getview !w (nat_of_int h) with
         | Some v ->
             let xs = flat (velems !cplx !w v) in
             print_endline (Printf.sprintf "E %d:%s" h (String.concat "" (List.map (fun x -> " " ^ string_of_int x) xs)));
             let pe e = String.concat "" (List.map (fun x -> " " ^ string_of_int (int_of_z x)) e) in
             let sums = match v.v_shape with
               | SMat ->
                   let cs = List.init (int_of_nat v.v_nc) (fun j -> pe (vcolsum !cplx (nat_of_int !esz) !w v (nat_of_int j))) in
                   let rs = List.init (int_of_nat v.v_nr) (fun i -> pe (vrowsum !cplx (nat_of_int !esz) !w v (nat_of_int i))) in
                   String.concat "" cs ^ " ;" ^ String.concat "" rs
               | _ -> pe (vsum !cplx (nat_of_int !esz) !w v) in
             print_endline (Printf.sprintf "S %d:%s ; %s" h sums (if !isfloat then "-" else string_of_int (int_of_z (vnormsqr !cplx !w v))))
         | None -> ())
     | None -> ()) in
  (try while true do
    let line = input_line stdin in
    if line = "" || line.[0] = '#' then ()
    else if String.length line >= 3 && line.[0] = 'S' && line.[1] = ' ' then begin
      cplx := (line.[2] = 'c'); isfloat := (line.[2] = 'f'); esz := (match line.[2] with 'c' -> 2 | 'v' -> 3 | _ -> 1); w := empty_world;
      print_endline line end
    else if line = "E" then print_endline "E"
    else begin
      let t = toks line in
      let i k = int_of_string t.(k) in
      let n k = nat_of_int (i k) in
      let neg = ref false in
      let nn k = (if i k < 0 then neg := true); n k in
      let nviews = List.length !w.w_views in
      let op, target =
        match t.(0) with
        | "new" -> let sh = (match i 1 with 0 -> SMat | 1 -> SVec | _ -> SRow) in
                   (WNew (sh, nn 2, nn 3, z_of_int (i 4)), nviews)
        | "view" ->
            let h = nn 1 in
            let o = (match t.(2) with
              | "blk" -> OBlock (nn 3, nn 4, nn 5, nn 6)
              | "row" -> ORow (nn 3) | "col" -> OCol (nn 3) | "diag" -> ODiag | "tr" -> OTr | "neg" -> ONeg
              | "sub" -> OSub (nn 3, nn 4) | "whole" -> OWhole
              | s -> failwith ("unknown view op " ^ s)) in
            (WView (h, o), nviews)
        | "set" -> (WSet (nn 1, nn 2, nn 3, elt_at t 4), i 1)
        | "fill" -> (WFill (nn 1, elt_at t 2), i 1)
        | "sasg" -> (WScalarAssign (nn 1, elt_at t 2), i 1)
        | "sadd" -> (WScalarAdd (nn 1, elt_at t 2), i 1)
        | "scale" -> (WScale (nn 1, z_of_int (i 2)), i 1)
        | "asg" -> (WAssign (nn 1, nn 2, nn 3, elts_at t 4 (i 2 * i 3)), i 1)
        | "addin" -> let cnt = (Array.length t - 3) / !esz in (WAddIn (nn 1, i 2 <> 0, elts_at t 3 cnt), i 1)
        | "copy" -> (WCopy (nn 1, i 2 <> 0), nviews)
        | "resize" -> (WResize (nn 1, nn 2, nn 3, i 4 <> 0, z_of_int (i 5)), i 1)
        | s -> failwith ("unknown op " ^ s) in
      (* a negative index or size is rejected before the model is asked (nat has no negatives) *)
      let (w', ok) = if !neg then (!w, false) else wstep_total !cplx (nat_of_int !esz) repaired !w op in
      w := w';
      report (not ok) (if ok then Some target else None)
    end
  done with End_of_file -> ());
  print_endline "DONE"
