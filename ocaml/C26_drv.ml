(* C26 driver for the extracted Array_ slot model (coq/C26/C26_Model.v, extracted as c26model.ml).
   Reads operation sequences (format: harness/C26_array.cpp header comment), runs [step] (slot model) and
   [sstep] (std::vector specification) and prints one "A" and one "V" line per operation, the same
   lines the C++ harness prints for the real Array_<T> and for std::vector<int>. Elements are OCaml
   ints (the model is polymorphic in the element type). *)
open C26model

let rec nat_of_int n = if n <= 0 then O else S (nat_of_int (n - 1))
let rec int_of_nat = function O -> 0 | S n -> 1 + int_of_nat n
let rec int_of_pos = function XH -> 1 | XO p -> 2 * int_of_pos p | XI p -> 2 * int_of_pos p + 1
let int_of_n = function N0 -> 0 | Npos p -> int_of_pos p

let fault_name = function
  | Precond -> "precond" | ConstructOnLive -> "construct-on-live" | ReadNotLive -> "read-dead"
  | DestroyRaw -> "destroy-raw" | ReadFreed -> "read-dead" | FreeLive -> "free-live"
  | OutOfBlock -> "read-dead" | AssignNotLive -> "assign-dead"
let fault_exact = function
  | Precond -> "Precond" | ConstructOnLive -> "ConstructOnLive" | ReadNotLive -> "ReadNotLive"
  | DestroyRaw -> "DestroyRaw" | ReadFreed -> "ReadFreed" | FreeLive -> "FreeLive"
  | OutOfBlock -> "OutOfBlock" | AssignNotLive -> "AssignNotLive"

let src tok =
  let v = int_of_string (String.sub tok 1 (String.length tok - 1)) in
  if tok.[0] = 'o' then Own (nat_of_int v) else Ext v

let parse1 (t : string array) : int op =
  let i k = int_of_string t.(k) in
  let n k = nat_of_int (i k) in
  let lst from cnt = List.init cnt (fun j -> i (from + j)) in
  let path from d = List.init d (fun j -> (n (from + 2 * j), n (from + 2 * j + 1))) in
  match t.(0) with
  | "pb" -> PushBack (n 1, src t.(2))
  | "pbm" | "emb" -> PushBackMove (n 1, i 2)
  | "pbd" -> PushBackDefault (n 1)
  | "pop" -> PopBack (n 1)
  | "er" -> Erase (n 1, n 2, n 3)
  | "er1" -> EraseOne (n 1, n 2)
  | "erf" -> EraseFast (n 1, n 2)
  | "clr" -> Clear (n 1)
  | "insn" -> InsertN (n 1, n 2, n 3, src t.(4))
  | "ins" -> Insert (n 1, n 2, src t.(3))
  | "emp" -> Emplace (n 1, n 2, i 3)
  | "insl" | "inslf" -> InsertList (n 1, n 2, lst 4 (i 3))
  | "res" -> Resize (n 1, n 2)
  | "resf" -> ResizeFill (n 1, n 2, src t.(3))
  | "rsv" -> Reserve (n 1, n 2)
  | "shr" -> ShrinkToFit (n 1)
  | "asf" -> AssignFill (n 1, n 2, i 3)
  | "asl" | "aslf" -> AssignList (n 1, lst 3 (i 2))
  | "dea" -> Deallocate (n 1)
  | "cn" -> CtorN (n 1, n 2)
  | "cf" -> CtorFill (n 1, n 2, i 3)
  | "cl" -> CtorList (n 1, lst 3 (i 2))
  | "cc" -> CtorCopy (n 1, n 2)
  | "cm" -> CtorMove (n 1, n 2)
  | "ca" -> CopyAssign (n 1, n 2)
  | "ma" -> MoveAssign (n 1, n 2)
  | "sw" -> Swap (n 1, n 2)
  | "set" -> SetElt (n 1, n 2, i 3)
  | "vf" -> let d = i 2 in ViewFill (n 1, path 3 d, i (3 + 2 * d))
  | "va" -> let d = i 2 in let c = i (3 + 2 * d) in ViewAssign (n 1, path 3 d, lst (4 + 2 * d) c)
  | s -> failwith ("bad op " ^ s)

(* one input line = one call in the harness; the input-iterator overloads are loops of single calls *)
let parse (t : string array) : int op list =
  let i k = int_of_string t.(k) in
  let n k = nat_of_int (i k) in
  match t.(0) with
  | "insli" -> List.init (i 3) (fun j -> Insert (n 1, nat_of_int (i 2 + j), Ext (i (4 + j))))
  | "asli" -> Clear (n 1) :: List.init (i 2) (fun j -> PushBack (n 1, Ext (i (3 + j))))
  | _ -> [parse1 t]

let show_arr counted (a : int arr) =
  let vals = List.map (function Some v -> string_of_int v | None -> "?") (observe a) in
  Printf.sprintf " | %d %d :%s" (int_of_nat a.asize) (List.length a.abuf)
    (String.concat "" (List.map (fun s -> " " ^ s) vals))

let show_spec (ls : int list list) =
  String.concat "" (List.map (fun xs -> " |" ^ String.concat "" (List.map (fun v -> " " ^ string_of_int v) xs)) ls)

let () =
  let args = Array.to_list Sys.argv in
  let exact = List.mem "exact" args in
  (* "guard": Array.h has the isOwnElement repair (patches/C26_alias_value.diff); the model then copies own-element
     arguments to a local object first *)
  let guard = List.mem "guard" args in
  let w = ref (init_world O) and ls = ref [] and counted = ref true and dead = ref false in
  (try
    while true do
      let line = input_line stdin in
      let t = Array.of_list (List.filter (fun s -> s <> "") (String.split_on_char ' ' line)) in
      if Array.length t = 0 then ()
      else if t.(0) = "S" then begin
        let k = int_of_string t.(2) in
        counted := (t.(1) <> "t"); dead := false;
        w := init_world (nat_of_int k); ls := List.init k (fun _ -> []);
        print_string (line ^ "\n")
      end else if t.(0) = "E" then begin
        (* destroy all arrays; print the final balance *)
        if not !dead then begin
          let k = List.length !w.arrs in
          let r = ref (Ok !w) in
          for j = 0 to k - 1 do
            r := (match !r with Ok w1 -> step 0 guard w1 (Deallocate (nat_of_int j)) | e -> e)
          done;
          (match !r with
           | Ok w1 -> if !counted then Printf.printf "E live=%d\n" (int_of_n w1.wctor - int_of_n w1.wdtor) else print_string "E\n"
           | Err f -> Printf.printf "E fault %s\n" (if exact then fault_exact f else fault_name f))
        end else print_string "E\n"
      end else if !dead then ()
      else begin
        let os = parse t in
        let sp = List.fold_left (fun acc o -> match acc with Some l -> sstep 0 l o | None -> None) (Some !ls) os in
        (match List.fold_left (fun acc o -> match acc with Ok w1 -> step 0 guard w1 o | e -> e) (Ok !w) os with
         | Ok w1 ->
           if !counted then
             Printf.printf "A ok %d %d %d" (int_of_n w1.wctor - int_of_n !w.wctor) (int_of_n w1.wdtor - int_of_n !w.wdtor)
               (int_of_n w1.wctor - int_of_n w1.wdtor)
           else print_string "A ok";
           List.iter (fun a -> print_string (show_arr !counted a)) w1.arrs; print_string "\n";
           w := w1;
           (match sp with
            | Some l1 -> print_string ("V" ^ show_spec l1 ^ "\n"); ls := l1
            | None -> print_string "V precond\n"; dead := true)
         | Err f -> Printf.printf "A fault %s\n" (if exact then fault_exact f else fault_name f); dead := true)
      end
    done
  with End_of_file -> ())
