(* C26 driver for the extracted pointer-wrapper models (coq/C26/C26_Ptr.v); prints what harness/C26_ptr.cpp prints. *)
open C26model

let rec nat_of_int n = if n <= 0 then O else S (nat_of_int (n - 1))
let rec int_of_nat = function O -> 0 | S n -> 1 + int_of_nat n
let rec int_of_pos = function XH -> 1 | XO p -> 2 * int_of_pos p | XI p -> 2 * int_of_pos p + 1
let int_of_n = function N0 -> 0 | Npos p -> int_of_pos p

let () =
  let kind = ref "" and k = ref 0 in
  let ps = ref (pinit O) and ws = ref [] and dead = ref false in
  (try
    while true do
      let line = input_line stdin in
      let t = Array.of_list (List.filter (fun s -> s <> "") (String.split_on_char ' ' line)) in
      if Array.length t = 0 then ()
      else if t.(0) = "S" then begin
        kind := t.(1); k := int_of_string t.(2); dead := false;
        ps := pinit (nat_of_int !k); ws := List.init !k (fun _ -> (0, 0));
        print_string (line ^ "\n")
      end else if t.(0) = "E" then begin
        if !kind = "cow" || !kind = "clone" then begin
          (* destructors of all handles *)
          let deep = (!kind = "clone") in
          let r = ref (Some !ps) in
          for j = 0 to !k - 1 do
            r := (match !r with Some s -> pstep deep s (PReset (nat_of_int j)) | None -> None)
          done;
          (match !r with Some s -> Printf.printf "E live=%d\n" (int_of_nat (plive s)) | None -> print_string "E precond\n")
        end else print_string "E\n"
      end else if !dead then ()
      else begin
        let i j = int_of_string t.(j) in let n j = nat_of_int (i j) in
        if !kind = "cow" || !kind = "clone" then begin
          let deep = (!kind = "clone") in
          let o = match t.(0) with
            | "new" -> PNew (n 1, i 2) | "asv" -> PAssignVal (n 1, i 2) | "rst" -> PReset (n 1)
            | "ca" -> PCopyAssign (n 1, n 2) | "cc" -> PCopyCtor (n 1, n 2) | "ma" -> PMoveAssign (n 1, n 2)
            | "mc" -> PMoveCtor (n 1, n 2) | "wr" -> PWrite (n 1, i 2) | "det" -> PDetach (n 1)
            | "rel" -> PRelease (n 1) | "sw" -> PSwap (n 1, n 2) | s -> failwith ("bad op " ^ s) in
          match pstep deep !ps o with
          | None -> print_string "P precond\n"; dead := true
          | Some s ->
            ps := s;
            Printf.printf "P live=%d clones=%d" (int_of_nat (plive s)) (int_of_n s.nclone);
            let obs = List.init !k (fun j -> pobserve s (nat_of_int j)) in
            List.iteri (fun j ob -> match ob with
              | None -> print_string " | -"
              | Some ((v, c), id) ->
                let lead = ref j in
                (try List.iteri (fun j2 ob2 -> match ob2 with
                      | Some (_, id2) when j2 < j && int_of_nat id2 = int_of_nat id -> lead := j2; raise Exit
                      | _ -> ()) obs with Exit -> ());
                Printf.printf " | %d/%d@%d" v (int_of_nat c) !lead) obs;
            print_string "\n"
        end else begin
          let wk = (match !kind with "ref" -> WRef | "reseti" | "resetb" -> WReset | _ -> WReinit) in
          let o = match t.(0) with
            | "ctor" -> WCtor (n 1, i 2) | "set" -> WSet (n 1, i 2) | "cc" -> WCopyCtor (n 1, n 2)
            | "ca" -> WCopyAssign (n 1, n 2) | "mc" -> WMoveCtor (n 1, n 2) | "ma" -> WMoveAssign (n 1, n 2)
            | s -> failwith ("bad op " ^ s) in
          match wstep wk 0 !ws o with
          | None -> print_string "W precond\n"; dead := true
          | Some s ->
            ws := s; print_string "W";
            List.iter (fun (v, r) -> if wk = WReinit then Printf.printf " | %d,%d" v r else Printf.printf " | %d" v) s;
            print_string "\n"
        end
      end
    done
  with End_of_file -> ())
