(* C27 driver for the extracted model (C27_x.ml: Gen/rot27_gen.v kernels + C27/C27_Model.v).
   argv[1] = d | f : run with the binary64 NumOps or with a NumOps that rounds every operation to binary32
   (double rounding of + - * / sqrt through binary64 is innocuous, so this reproduces float arithmetic). *)
open C27_x
let rec float_of_pos (p : positive) : float = match p with
  | XH -> 1.0 | XO q -> 2.0 *. float_of_pos q | XI q -> 2.0 *. float_of_pos q +. 1.0
let float_of_z (z : z) : float = match z with Z0 -> 0.0 | Zpos p -> float_of_pos p | Zneg p -> -. (float_of_pos p)
let fops : float numOps = {
  n0 = 0.0; n1 = 1.0; nadd = (+.); nsub = (-.); nmul = ( *. ); ndiv = (/.); nopp = (fun x -> -. x);
  nsqrt = sqrt; nsin = sin; ncos = cos; nabs = abs_float; nexp = exp; ntanh = tanh;
  natan2 = (fun y x -> atan2 y x);
  nofZ = float_of_z; nleb = (fun x y -> x <= y); nltb = (fun x y -> x < y) }
let r32 (x : float) : float = Int32.float_of_bits (Int32.bits_of_float x)
let fops32 : float numOps = {
  n0 = 0.0; n1 = 1.0; nadd = (fun a b -> r32 (a +. b)); nsub = (fun a b -> r32 (a -. b)); nmul = (fun a b -> r32 (a *. b));
  ndiv = (fun a b -> r32 (a /. b)); nopp = (fun x -> -. x);
  nsqrt = (fun x -> r32 (sqrt x)); nsin = (fun x -> r32 (sin x)); ncos = (fun x -> r32 (cos x)); nabs = abs_float;
  nexp = (fun x -> r32 (exp x)); ntanh = (fun x -> r32 (tanh x));
  natan2 = (fun y x -> r32 (atan2 y x));
  nofZ = (fun z -> r32 (float_of_z z)); nleb = (fun x y -> x <= y); nltb = (fun x y -> x < y) }
let flt = Array.length Sys.argv > 1 && Sys.argv.(1).[0] = 'f'
let k = if flt then fops32 else fops
(* constants the code takes from the precision (NTraits<P>, numeric_limits<P>) and from the global double constants *)
let epsP = if flt then epsilon_float *. 0.0 +. ldexp 1.0 (-23) else epsilon_float
let eps2P = if flt then r32 (epsP *. epsP) else epsP *. epsP                     (* square(NTraits<P>::getEps()) *)
let piP = if flt then r32 (4.0 *. atan 1.0) else 4.0 *. atan 1.0                 (* NTraits<P>::getPi() *)
let eps4 = 4.0 *. epsilon_float                                                  (* 4*SimTK::Eps : the *double* Eps in both precisions *)
let sqrtEps = sqrt epsilon_float                                                 (* SimTK::SqrtEps, double in both precisions *)
let pf x = Printf.printf "%h " x
let toks line = List.filter (fun s -> s <> "") (String.split_on_char ' ' line)
let rec nat_of (i : int) : nat = if i <= 0 then O else S (nat_of (i - 1))
let rec int_of (n : nat) : int = match n with O -> 0 | S m -> 1 + int_of m

let () = try while true do
  let line = input_line stdin in
  (match toks line with [] -> () | op :: rest ->
  let q = ref (List.map float_of_string rest) in
  let nx () = match !q with x :: r -> q := r; x | [] -> failwith "args" in
  let s () = nx () in
  let n () = nat_of (int_of_float (nx ())) in
  let b () = nx () <> 0.0 in
  let v2 () = let a = nx () in let b = nx () in (a, b) in
  let v3 () = let a = nx () in let b = nx () in let c = nx () in ((a, b), c) in
  let v4 () = let a = nx () in let b = nx () in let c = nx () in let d = nx () in (((a, b), c), d) in
  let m33 () = let r0 = v3 () in let r1 = v3 () in let r2 = v3 () in ((r0, r1), r2) in
  let sym () = let d = v3 () in let l = v3 () in (d, l) in
  let xf () = let m = m33 () in let p = v3 () in (m, p) in
  let p2 (a, b) = pf a; pf b in
  let p3 ((a, b), c) = pf a; pf b; pf c in
  let p4 (((a, b), c), d) = pf a; pf b; pf c; pf d in
  let pm ((r0, r1), r2) = p3 r0; p3 r1; p3 r2 in
  let psym (d, l) = p3 d; p3 l in
  let pxf (m, p) = pm m; p3 p in
  let pb x = pf (if x then 1.0 else 0.0) in
  let pi_ x = pf (float_of_int x) in
  (match op with
  | "axis" -> let a = n () in let b = n () in
      pi_ (int_of (ax_next a)); pi_ (int_of (ax_prev a)); pi_ (if ax_same a b then -1 else int_of (ax_third a b));
      pb (ax_isRev a b); pb (ax_same (ax_next a) b); pb (ax_same a b)
  | "setX" -> let r = m33 () in let c = s () in let sn = s () in pm (k27_setX k r c sn)
  | "setY" -> let r = m33 () in let c = s () in let sn = s () in pm (k27_setY k r c sn)
  | "setZ" -> let r = m33 () in let c = s () in let sn = s () in pm (k27_setZ k r c sn)
  | "bodyXYZcs" -> let r = m33 () in let c = v3 () in let sn = v3 () in pm (k27_bodyXYZ k r c sn)
  | "fromQuat" -> let r = m33 () in let q = v4 () in pm (k27_fromQuat k r q)
  | "trustMe" -> let r = m33 () in let m = m33 () in pm (k27_trustMe k r m)
  | "setaxis" -> let r = m33 () in let a = s () in let x = n () in pm (setFromAngleAboutAxis k r a x)
  | "two" -> let r = m33 () in let t = b () in let a1 = s () in let x1 = n () in let a2 = s () in let x2 = n () in
      pm (setFromTwoAnglesTwoAxes k r t a1 x1 a2 x2)
  | "three" -> let r = m33 () in let t = b () in let a1 = s () in let x1 = n () in let a2 = s () in let x2 = n () in
      let a3 = s () in let x3 = n () in pm (setFromThreeAnglesThreeAxes k r t a1 x1 a2 x2 a3 x3)
  | "bodyXYZ" -> let r = m33 () in let v = v3 () in pm (setToBodyFixedXYZ k r v)
  | "bodyXY" -> let r = m33 () in let v = v2 () in pm (setToBodyFixedXY k r v)
  | "aaU" -> let r = m33 () in let a = s () in let u = v3 () in pm (setFromAngleAboutUnitVector k r a u)
  | "aaN" -> let r = m33 () in let a = s () in let v = v3 () in pm (setFromAngleAboutNonUnitVector k r a v)
  | "qaa" -> let a = s () in let u = v3 () in p4 (quatFromAngleAxis k a u)
  | "qmul" -> let a = v4 () in let b = v4 () in
      (match quatNormalize k epsP (quatMulRaw k a b) with Some q -> p4 q | None -> print_string "nan nan nan nan ")
  | "qnorm" -> let a = v4 () in (match quatNormalize k epsP a with Some q -> p4 q | None -> print_string "nan nan nan nan ")
  | "r2q" -> let r = m33 () in p4 (rotToQuat k r)
  | "q2aa" -> let q = v4 () in p4 (quatToAngleAxis k eps2P piP q)
  | "r2aa" -> let r = m33 () in p4 (rotToAngleAxis k eps2P piP r)
  | "approx" -> let r = m33 () in let m = m33 () in pm (setFromApproximateMat33 k r m)
  | "perp" -> let u = v3 () in p3 (perp k u)
  | "oneaxis" -> let r = m33 () in let u = v3 () in let x = n () in pm (setFromOneAxis k r u x)
  | "twoaxes" -> let r = m33 () in let u = v3 () in let x = n () in let v = v3 () in let y = n () in
      pm (setFromTwoAxes k sqrtEps r u x v y)
  | "reexp" -> let r = m33 () in let sm = sym () in psym (reexpressSymMat33 k r sm)
  | "reexpInv" -> let r = m33 () in let sm = sym () in psym (reexpressSymMat33 k (m33_T r) sm)
  | "rmul" -> let a = m33 () in let b = m33 () in pm (rot_mul k a b)
  | "rmulinv" -> let a = m33 () in let b = m33 () in pm (rot_mul_inv k a b)
  | "invmul" -> let a = m33 () in let b = m33 () in pm (inv_mul_rot k a b)
  | "rdiv" -> let a = m33 () in let b = m33 () in pm (rot_div k a b)
  | "xcomp" -> let x = xf () in let y = xf () in pxf (x_compose k x y)
  | "xcompinv" -> let x = xf () in let y = xf () in pxf (x_composeInv k x y)
  | "ixcomp" -> let x = xf () in let y = xf () in pxf (iX_compose k x y)
  | "ixcompinv" -> let x = xf () in let y = xf () in pxf (iX_composeInv k x y)
  | "xshiftFB" -> let x = xf () in let v = v3 () in p3 (x_shiftFrameStationToBase k x v)
  | "xshiftBF" -> let x = xf () in let v = v3 () in p3 (x_shiftBaseStationToFrame k x v)
  | "ixshiftFB" -> let x = xf () in let v = v3 () in p3 (iX_shiftFrameStationToBase k x v)
  | "ixshiftBF" -> let x = xf () in let v = v3 () in p3 (iX_shiftBaseStationToFrame k x v)
  | "xvecFB" -> let x = xf () in let v = v3 () in p3 (x_xformFrameVecToBase k x v)
  | "xvecBF" -> let x = xf () in let v = v3 () in p3 (x_xformBaseVecToFrame k x v)
  | "xpinv" -> let x = xf () in p3 (x_pInv k x)
  | "ixto" -> let x = xf () in pxf (iX_toTransform k x)
  | "ixof" -> let x = xf () in pxf (iX_ofTransform k x)
  | "c1" -> let r = m33 () in let x = n () in pf (convertOneAxisToOneAngle k r x)
  | "c2" -> let r = m33 () in let t = b () in let x1 = n () in let x2 = n () in p2 (convertTwoAxesToTwoAngles k r t x1 x2)
  | "c3" -> let r = m33 () in let t = b () in let x1 = n () in let x2 = n () in let x3 = n () in
      p3 (convertThreeAxesToThreeAngles k eps4 r t x1 x2 x3)
  | _ -> print_string "?unknown"));
  print_newline ()
done with End_of_file -> ()
