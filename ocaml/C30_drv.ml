(* C30 driver for the extracted model (C30_Model.v).  Case formats:
     QR <d|f> a b c                 -> quad_real with the double / emulated-binary32 NumOps: "OK r1re r1im r2re r2im" | "ZLC"
     QC <d|f> ar ai br bi cr ci     -> quad_cplx
     CERT tol conjtol n c0r c0i .. cnr cni r1r r1i .. rnr rni
                                    -> the extracted certificate checkers on an implementation output:
                                       "<vieta_check 0|1> <vieta_maxresid> <conj_closed_check 0|1> <all_real 0|1>"  *)
open C30_x
(*FOPS*)
(* binary32 emulation: every operation is computed in binary64 and rounded to binary32; for + - * / sqrt this double
   rounding is innocuous (53 >= 2*24+2), so the results are the correctly rounded binary32 results *)
let r32 (x : float) : float = Int32.float_of_bits (Int32.bits_of_float x)
let fops32 : float numOps = {
  n0 = 0.0; n1 = 1.0; nadd = (fun x y -> r32 (x +. y)); nsub = (fun x y -> r32 (x -. y));
  nmul = (fun x y -> r32 (x *. y)); ndiv = (fun x y -> r32 (x /. y)); nopp = (fun x -> -. x);
  nsqrt = (fun x -> r32 (sqrt x)); nsin = (fun x -> r32 (sin x)); ncos = (fun x -> r32 (cos x)); nabs = abs_float;
  nexp = (fun x -> r32 (exp x)); ntanh = (fun x -> r32 (tanh x)); natan2 = (fun y x -> r32 (atan2 y x));
  nofZ = (fun z -> r32 (float_of_z z)); nleb = (fun x y -> x <= y); nltb = (fun x y -> x < y) }
let eps64 = epsilon_float            (* 2^-52 = NTraits<double>::getEps() *)
let eps32 = ldexp 1.0 (-23)          (* 2^-23 = NTraits<float>::getEps()  *)
let () = try while true do
  let line = input_line stdin in
  match toks line with [] -> () | kind :: rest ->
  let q = ref rest in
  let nx () = match !q with x :: r -> q := r; x | [] -> failwith "args" in
  let nf () = float_of_string (nx ()) in
  let ni () = int_of_string (nx ()) in
  let rec many n f = if n <= 0 then [] else let v = f () in v :: many (n - 1) f in
  let pr_roots r = match r with
    | None -> print_string "ZLC"
    | Some ((a, b), (c, d)) -> print_string "OK "; pf a; pf b; pf c; pf d in
  (match kind with
   | "QR" -> let p = nx () in let a = nf () in let b = nf () in let c = nf () in
             if p = "f" then pr_roots (quad_real fops32 eps32 (r32 a) (r32 b) (r32 c))
             else pr_roots (quad_real fops eps64 a b c)
   | "QC" -> let p = nx () in let v = many 6 nf in
             (match v with [ar; ai; br; bi; cr; ci] ->
               if p = "f" then pr_roots (quad_cplx fops32 (r32 ar, r32 ai) (r32 br, r32 bi) (r32 cr, r32 ci))
               else pr_roots (quad_cplx fops (ar, ai) (br, bi) (cr, ci))
              | _ -> print_string "?args")
   | "CERT" -> let tol = nf () in let ctol = nf () in let n = ni () in
             let pair () = let re = nf () in let im = nf () in (re, im) in
             let coeffs = many (n + 1) pair in let roots = many n pair in
             Printf.printf "%d " (if vieta_check fops tol coeffs roots then 1 else 0);
             pf (vieta_maxresid fops coeffs roots);
             Printf.printf "%d %d" (if conj_closed_check fops ctol roots then 1 else 0) (if all_real fops coeffs then 1 else 0)
   | _ -> print_string "?unknown");
  print_newline ()
done with End_of_file -> ()
