(* C31 driver for the extracted model (module C31x): same command lines as harness/C31_probe.cpp,
   same output format (hex words / IEEE bit patterns), so the check compares the two texts exactly. *)
open C31x

(* ---- conversions between the extracted binary numbers and text *)
let rec pos_bits (p : positive) : bool list = match p with   (* least significant first *)
  | XH -> [true] | XO q -> false :: pos_bits q | XI q -> true :: pos_bits q
let n_bits (n : n) = match n with N0 -> [] | Npos p -> pos_bits p
let rec pos_of_bits (l : bool list) : positive option = match l with   (* lsb first *)
  | [] -> None
  | b :: t -> (match pos_of_bits t with
               | None -> if b then Some XH else None
               | Some q -> Some (if b then XI q else XO q))
let n_of_bits l = match pos_of_bits l with None -> N0 | Some p -> Npos p
let hex_of_bits (l : bool list) : string =
  let rec go l acc = match l with
    | [] -> acc
    | _ -> let take k l = (let rec f k l a = if k = 0 then (List.rev a, l) else match l with [] -> f (k-1) [] (false :: a) | x :: t -> f (k-1) t (x :: a) in f k l []) in
           let (d, rest) = take 4 l in
           let v = List.fold_right (fun b a -> 2 * a + (if b then 1 else 0)) d 0 in
           go rest (Printf.sprintf "%x" v ^ acc) in
  let s = go l "" in
  (* strip leading zeros *)
  let i = ref 0 in
  while !i < String.length s - 1 && s.[!i] = '0' do incr i done;
  if s = "" then "0" else String.sub s !i (String.length s - !i)
let hex_of_n n = hex_of_bits (n_bits n)
let bits_of_hex (s : string) : bool list =
  let l = ref [] in
  String.iter (fun c ->
    let v = int_of_string ("0x" ^ String.make 1 c) in
    (* msb-first digits; we prepend so the list ends lsb-first *)
    l := (v land 1 = 1) :: (v land 2 = 2) :: (v land 4 = 4) :: (v land 8 = 8) :: !l) s;
  !l
let n_of_hex s = n_of_bits (bits_of_hex s)
let z_of_n n = match n with N0 -> Z0 | Npos p -> Zpos p
let n_of_z z = match z with Zpos p -> Npos p | _ -> N0
let z_of_hex s = z_of_n (n_of_hex s)
let hex_of_z z = hex_of_n (n_of_z z)
let rec nat_of_int i = if i <= 0 then O else S (nat_of_int (i - 1))
let n_of_int i = n_of_hex (Printf.sprintf "%x" i)
(* setSeed(int) -> init_gen_rand(uint32_t): conversion modulo 2^32 *)
let seed_of_int (s : int) = n_of_int (s land 0xFFFFFFFF)
let rec dec_of_pos p = match p with   (* fits OCaml int for the int results printed in decimal *)
  | XH -> 1 | XO q -> 2 * dec_of_pos q | XI q -> 2 * dec_of_pos q + 1
let int_of_z z = match z with Z0 -> 0 | Zpos p -> dec_of_pos p | Zneg p -> - (dec_of_pos p)
let int64_of_z z =
  List.fold_right (fun b a -> Int64.add (Int64.mul 2L a) (if b then 1L else 0L)) (n_bits (n_of_z z)) 0L
let float_of_b64 x = Int64.float_of_bits (int64_of_z (bits_of x))
let hex_of_float (f : float) = Printf.sprintf "%Lx" (Int64.bits_of_float f)

let fl : float gOps = {
  g_add = (+.); g_sub = (-.); g_mul = ( *. ); g_div = (/.); g_sqrt = sqrt; g_ln = log;
  g_one = 1.0; g_two = 2.0; g_zero = 0.0;
  g_geb = (fun a b -> a >= b); g_eqb = (fun a b -> a = b) }

let pr_ns l = List.iter (fun n -> print_string (hex_of_n n); print_char ' ') l
let toks line = List.filter (fun s -> s <> "") (String.split_on_char ' ' line)
let rec take k l = if k <= 0 then [] else match l with [] -> [] | x :: t -> x :: take (k - 1) t

(* n raw draws, by chunks to keep recursion depth small *)
let raws (st : rstate) (n : int) : n list * rstate =
  let rec go st n acc = if n <= 0 then (List.concat (List.rev acc), st) else
    let k = min n 1024 in
    let (l, st') = raw_seq (nat_of_int k) st in go st' (n - k) (l :: acc) in
  go st n []

let () =
  try while true do
    let line = input_line stdin in
    (match toks line with
     | ["G32"; seed; n] ->
         let n = int_of_string n in
         pr_ns (take n (sfmt_out32 (seed_of_int (int_of_string seed)) (nat_of_int ((n + 3) / 4))))
     | ["G64"; seed; n] ->
         let n = int_of_string n in
         pr_ns (take n (sfmt_out64 (seed_of_int (int_of_string seed)) (nat_of_int ((n + 1) / 2))))
     | ["F32"; seed; size; reps] ->
         let n = int_of_string size * int_of_string reps in
         pr_ns (sfmt_out32 (seed_of_int (int_of_string seed)) (nat_of_int (n / 4)))
     | ["F64"; seed; size; reps] ->
         let n = int_of_string size * int_of_string reps in
         pr_ns (sfmt_out64 (seed_of_int (int_of_string seed)) (nat_of_int (n / 2)))
     | ["RES"; v] -> print_string (hex_of_z (bits_of (res53 (n_of_hex v)))); print_char ' '
     | [("U" | "UF"); seed; n] ->
         let (l, _) = raws (set_seed (seed_of_int (int_of_string seed))) (int_of_string n) in
         List.iter (fun v -> print_string (hex_of_z (bits_of (res53 v))); print_char ' ') l
     | [("UR" | "US"); seed; mn; mx; n] ->
         let (l, _) = raws (set_seed (seed_of_int (int_of_string seed))) (int_of_string n) in
         let mn = of_bits (z_of_hex mn) and mx = of_bits (z_of_hex mx) in
         List.iter (fun v -> print_string (hex_of_z (bits_of (uniform_value mn mx v))); print_char ' ') l
     | ["UI"; seed; mn; mx; n] ->
         let (l, _) = raws (set_seed (seed_of_int (int_of_string seed))) (int_of_string n) in
         let mn = of_bits (z_of_hex mn) and mx = of_bits (z_of_hex mx) in
         List.iter (fun v -> Printf.printf "%d " (int_of_z (uniform_int mn mx v))) l
     | ["GA"; seed; mean; sd; n] ->
         let n = int_of_string n in
         let mean = Int64.float_of_bits (Int64.of_string ("0x" ^ mean))
         and sd = Int64.float_of_bits (Int64.of_string ("0x" ^ sd)) in
         (* enough uniforms: the loop accepts with probability pi/4; 8 per value is ample, checked below *)
         let (l, _) = raws (set_seed (seed_of_int (int_of_string seed))) (8 * n + 64) in
         let us = ref (List.map (fun v -> float_of_b64 (res53 v)) l) in
         let c = ref None in
         for _ = 1 to n do
           match gauss_value fl (nat_of_int 64) mean sd !c !us with
           | Some ((v, c'), rest) -> print_string (hex_of_float v); print_char ' '; c := c'; us := rest
           | None -> print_string "nofuel "
         done
     | ["RS"; seed; _; k] ->
         let (l, _) = raws (set_seed (seed_of_int (int_of_string seed))) (int_of_string k) in
         List.iter (fun v -> print_string (hex_of_z (bits_of (res53 v))); print_char ' ') l
     | ["EX"; mn; mx; r] ->
         let mn = of_bits (z_of_hex mn) and mx = of_bits (z_of_hex mx) and r = of_bits (z_of_hex r) in
         List.iter (fun x ->
           print_string (hex_of_z (bits_of x)); print_char ' ';
           let fl = floor (float_of_b64 x) in
           if fl >= -2147483648.0 && fl <= 2147483647.0 then Printf.printf "%d " (int_of_z (floorZ x))
           else print_string "x ") [uniform_raw mn mx r; uniform_expr mn mx r]
     | ["UIV"; mn; mx; v] ->    (* model values for the raw 64-bit draw v: getIntValue, getValue, and the pre-fix int *)
         let mn = of_bits (z_of_hex mn) and mx = of_bits (z_of_hex mx) and v = n_of_hex v in
         Printf.printf "%d %s %d " (int_of_z (uniform_int mn mx v)) (hex_of_z (bits_of (uniform_value mn mx v)))
           (int_of_z (uniform_int_raw mn mx v))
     | "HG" :: seed :: mean :: sd :: ops ->
         let fbits h = Int64.float_of_bits (Int64.of_string ("0x" ^ h)) in
         let cnt = List.fold_left (fun a op -> a + (match op.[0] with 'g' -> 1 | 'f' -> int_of_string (String.sub op 1 (String.length op - 1)) | _ -> 0)) 0 ops in
         let units sd = let (l, _) = raws (set_seed (seed_of_int sd)) (8 * cnt + 64) in List.map (fun v -> float_of_b64 (res53 v)) l in
         let rec rep n x = if n <= 0 then [] else x :: rep (n - 1) x in
         let gops = List.concat_map (fun op ->
           let arg = String.sub op 1 (String.length op - 1) in
           match op.[0] with
           | 'g' -> [GGet] | 'f' -> rep (int_of_string arg) GGet
           | 'm' -> [GSetMean (fbits arg)] | 'x' -> [GSetSd (fbits arg)]
           | 's' -> [GSetSeed (units (int_of_string arg))] | _ -> []) ops in
         let o = { go_mean = fbits mean; go_sd = fbits sd; go_cache = None; go_us = units (int_of_string seed) } in
         List.iter (fun r -> match r with
                     | Some g -> print_string (hex_of_float g.o_val); print_char ' '
                     | None -> print_string "nofuel ") (grun fl (nat_of_int 64) o gops)
     | "HU" :: seed :: mn :: mx :: ops ->
         let rec rep n x = if n <= 0 then [] else x :: rep (n - 1) x in
         let uops = List.concat_map (fun op ->
           let arg = String.sub op 1 (String.length op - 1) in
           match op.[0] with
           | 'g' -> [UGet] | 'i' -> [UGetInt] | 'f' -> rep (int_of_string arg) UGet
           | 'm' -> [USetMin (of_bits (z_of_hex arg))] | 'x' -> [USetMax (of_bits (z_of_hex arg))]
           | 's' -> [USetSeed (seed_of_int (int_of_string arg))] | _ -> []) ops in
         let (outs, _) = urun (unew (of_bits (z_of_hex mn)) (of_bits (z_of_hex mx)) (seed_of_int (int_of_string seed))) uops in
         List.iter (fun r -> if r.uo_is_int then Printf.printf "i%d " (int_of_z (floorZ r.uo_val))
                             else (print_string (hex_of_z (bits_of r.uo_val)); print_char ' ')) outs
     | ["RAWAT"; seed; idx] ->   (* the raw 64-bit value and unit value of draw number idx (1-based) *)
         let (l, _) = raws (set_seed (seed_of_int (int_of_string seed))) (int_of_string idx) in
         let v = List.nth l (int_of_string idx - 1) in
         print_string (hex_of_n v); print_char ' '; print_string (hex_of_z (bits_of (res53 v))); print_char ' '
     | [] -> ()
     | _ -> print_string "?");
    if toks line <> [] then print_newline ()
  done with End_of_file -> ()
