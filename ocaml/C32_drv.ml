(* C32 driver for the extracted model (module C32x): same command lines and output format as
   harness/C32_probe.cpp.  The libc oracles of the model (strtod / "%.17g") are supplied here by the
   OCaml runtime, which calls the same libc. *)
open C32x

let rec pos_of_int i = if i <= 1 then XH else if i land 1 = 0 then XO (pos_of_int (i lsr 1)) else XI (pos_of_int (i lsr 1))
let n_of_int i = if i <= 0 then N0 else Npos (pos_of_int i)
let rec int_of_pos p = match p with XH -> 1 | XO q -> 2 * int_of_pos q | XI q -> 2 * int_of_pos q + 1
let int_of_n n = match n with N0 -> 0 | Npos p -> int_of_pos p
let int_of_z z = match z with Z0 -> 0 | Zpos p -> int_of_pos p | Zneg p -> - (int_of_pos p)
let z_of_int i = if i = 0 then Z0 else if i > 0 then Zpos (pos_of_int i) else Zneg (pos_of_int (- i))

let str_of_string (s : string) : n list = List.init (String.length s) (fun i -> n_of_int (Char.code s.[i]))
let string_of_str (l : n list) : string = String.concat "" (List.map (fun c -> String.make 1 (Char.chr (int_of_n c land 255))) l)
let unhex h = if h = "-" then "" else String.init (String.length h / 2) (fun i -> Char.chr (int_of_string ("0x" ^ String.sub h (2 * i) 2)))
let tohex s = if s = "" then "-" else String.concat "" (List.init (String.length s) (fun i -> Printf.sprintf "%02x" (Char.code s.[i])))

(* oracles: called only on strings the model has already recognised as floating literals *)
let strto64 (s : n list) : float option =
  let x = float_of_string (string_of_str s) in if Float.abs x = Float.infinity then None else Some x
let to32 (x : float) : float = Int32.float_of_bits (Int32.bits_of_float x)
let strto32 (s : n list) : float option =
  let x = to32 (float_of_string (string_of_str s)) in if Float.abs x = Float.infinity then None else Some x
let fmt64 (x : float) : n list = str_of_string (Printf.sprintf "%.17g" x)
let fmt32 (x : float) : n list = str_of_string (Printf.sprintf "%.9g" x)

let classify (x : float) : float fval =
  if Float.is_nan x then FNaN else if x = Float.infinity then FPInf else if x = Float.neg_infinity then FNInf else FFin x
let unclass (v : float fval) : float = match v with FNaN -> Float.nan | FPInf -> Float.infinity | FNInf -> Float.neg_infinity | FFin x -> x
(* NaN payload/sign is not part of the model: print the canonical quiet NaN *)
let bits64 (x : float) = if Float.is_nan x then "7ff8000000000000" else Printf.sprintf "%Lx" (Int64.bits_of_float x)
let bits32 (x : float) = if Float.is_nan x then "7fc00000" else Printf.sprintf "%lx" (Int32.bits_of_float x)
let of_bits64 h = Int64.float_of_bits (Int64.of_string ("0x" ^ h))
let of_bits32 h = Int32.float_of_bits (Int32.of_string ("0x" ^ h))

let parse64 s = conv_float strto64 s
let print64 v = print_float fmt64 v
let parse32 s = conv_float strto32 s
let print32 v = print_float fmt32 v

let toks line = List.filter (fun s -> s <> "") (String.split_on_char ' ' line)
let sp = n_of_int 32 and nl = n_of_int 10
let rec chunks k l = if l = [] then [] else
  let rec take k l a = if k = 0 then (List.rev a, l) else match l with [] -> (List.rev a, []) | x :: t -> take (k - 1) t (x :: a) in
  let (c, r) = take k l [] in c :: chunks k r
let pad k l = let rec go k l = if k = 0 then [] else match l with [] -> 0.0 :: go (k - 1) [] | x :: t -> x :: go (k - 1) t in go k l

let leaf x = Leaf (classify x)
let vecn l = Node (sp, List.map leaf l)
(* fixed-size types: tree from exactly k doubles *)
let fixed_tree ty (v : float list) : (float fval) tree = match ty with
  | "S" | "SF" -> leaf (List.hd (pad 1 v))
  | "V3F" -> vecn (pad 3 v)
  | "C" -> vecn (pad 2 v)
  | "V3" | "R3" -> vecn (pad 3 v)
  | "V2V3" -> Node (sp, List.map vecn (chunks 3 (pad 6 v)))
  | "M23" -> Node (nl, List.map vecn (chunks 3 (pad 6 v)))
  | "M22" -> Node (nl, List.map vecn (chunks 2 (pad 4 v)))
  | _ -> failwith "type"
let is32 ty = List.mem ty ["SF"; "V3F"; "AF"; "VECF"]
let elem_of ty = match ty with "A" | "VEC" -> ("S", 1) | "AF" | "VECF" -> ("SF", 1) | "AV3" | "VV3" -> ("V3", 3) | "AC" -> ("C", 2) | "AM22" -> ("M22", 4) | _ -> ("", 0)
let rec flat (t : (float fval) tree) : float list = match t with Leaf x -> [unclass x] | Node (_, l) -> List.concat_map flat l

let () =
  try while true do
    let line = input_line stdin in
    (match toks line with
     | ["CB"; h] -> (match conv_bool (str_of_string (unhex h)) with
                     | Some b -> Printf.printf "1 %d n" (if b then 1 else 0) | None -> print_string "0 t")
     | ["CI"; h] -> (match conv_int (str_of_string (unhex h)) with
                     | Some z -> Printf.printf "1 %d n" (int_of_z z) | None -> print_string "0 t")
     | ["CD"; h] -> (match parse64 (str_of_string (unhex h)) with
                     | Some v -> Printf.printf "1 %s n" (bits64 (unclass v)) | None -> print_string "0 t")
     | ["CF"; h] -> (match parse32 (str_of_string (unhex h)) with
                     | Some v -> Printf.printf "1 %s n" (bits32 (unclass v)) | None -> print_string "0 t")
     | ["PD"; h] -> let s = print64 (classify (of_bits64 h)) in
                    (match parse64 s with
                     | Some v -> Printf.printf "%s 1 %s" (tohex (string_of_str s)) (bits64 (unclass v))
                     | None -> Printf.printf "%s 0 0" (tohex (string_of_str s)))
     | ["PF"; h] -> let s = print32 (classify (of_bits32 h)) in
                    (match parse32 s with
                     | Some v -> Printf.printf "%s 1 %s" (tohex (string_of_str s)) (bits32 (unclass v))
                     | None -> Printf.printf "%s 0 0" (tohex (string_of_str s)))
     | ["PI"; i] -> let s = print_int (z_of_int (int_of_string i)) in
                    (match conv_int s with
                     | Some z -> Printf.printf "%s 1 %d" (tohex (string_of_str s)) (int_of_z z)
                     | None -> Printf.printf "%s 0 0" (tohex (string_of_str s)))
     | ["PB"; i] -> let s = print_bool (int_of_string i <> 0) in
                    (match conv_bool s with
                     | Some b -> Printf.printf "%s 1 %d" (tohex (string_of_str s)) (if b then 1 else 0)
                     | None -> Printf.printf "%s 0 0" (tohex (string_of_str s)))
     | "W" :: ty :: vs ->
         let v = List.map of_bits64 vs in
         let (pr, pa, bits) = if is32 ty then (print32, parse32, bits32) else (print64, parse64, bits64) in
         let v = if is32 ty then List.map to32 v else v in
         let (ety, k) = elem_of ty in
         if k = 0 then begin
           let t = fixed_tree ty v in
           let s = write pr t in
           Printf.printf "%s " (tohex (string_of_str s));
           (match read_fixed pa (shape_of t) (open_stream s) with
            | Some (t', _) -> print_string "1 "; List.iter (fun x -> Printf.printf "%s " (bits x)) (flat t')
            | None -> print_string "0 ")
         end else begin
           let ts = List.map (fixed_tree ety) (chunks k v) in
           let s = write_array pr ts in
           Printf.printf "%s " (tohex (string_of_str s));
           (match read_array pa (shape_of (fixed_tree ety [])) s with
            | Some l -> Printf.printf "1 n%d " (List.length l); List.iter (fun t -> List.iter (fun x -> Printf.printf "%s " (bits x)) (flat t)) l
            | None -> print_string "0 ")
         end
     | ["RU"; ty; h] ->
         let s = str_of_string (unhex h) in
         (match ty with
          | "I" -> (match read_fixed conv_int SLeaf (open_stream s) with
                    | Some (Leaf z, _) -> Printf.printf "1 %d " (int_of_z z) | _ -> print_string "0 ")
          | "B" -> (match read_fixed conv_bool SLeaf (open_stream s) with
                    | Some (Leaf b, _) -> Printf.printf "1 %d " (if b then 1 else 0) | _ -> print_string "0 ")
          | _ ->
            let (pa, bits) = if is32 ty then (parse32, bits32) else (parse64, bits64) in
            let (ety, k) = elem_of ty in
            if k = 0 then
              (match read_fixed pa (shape_of (fixed_tree ty [])) (open_stream s) with
               | Some (t', _) -> print_string "1 "; List.iter (fun x -> Printf.printf "%s " (bits x)) (flat t')
               | None -> print_string "0 ")
            else
              (match read_array pa (shape_of (fixed_tree ety [])) s with
               | Some l -> Printf.printf "1 n%d " (List.length l); List.iter (fun t -> List.iter (fun x -> Printf.printf "%s " (bits x)) (flat t)) l
               | None -> print_string "0 "))
     | ["XT"; cw; h] | ["XA"; cw; h] as cmd ->
         let cw = cw <> "0" in let text = unhex h in let s = str_of_string text in
         let isT = List.hd cmd = "XT" in
         let enc = string_of_str (xml_encode cw isT s) in
         let decl = "<?xml version=\"1.0\" encoding=\"UTF-8\" ?>" in
         let doc = if isT then (if text = "" then decl ^ "<r />" else decl ^ "<r>" ^ enc ^ "</r>")
                   else (let q = if String.contains text '"' then "'" else "\"" in decl ^ "<r a=" ^ q ^ enc ^ q ^ " />") in
         (* utf8 = true: the declaration's encoding="UTF-8" is picked up by TiXmlDocument::Parse (since /repo e4a45618; before that
            fix a shadowed variable left the parser in the unknown-encoding mode: fixed finding xml_reference_above_127_truncated) *)
         let q = if String.contains text '"' then "'" else "\"" in
         let back = if isT then xml_read_text cw true (str_of_string (enc ^ "</r>"))
                    else xml_read_attr true (n_of_int (Char.code q.[0])) (str_of_string (enc ^ q ^ " />")) in
         (match back with
          | Some r -> Printf.printf "%s 1 %s" (tohex doc) (tohex (string_of_str r))
          | None -> print_string "0")
     | ["XR"; cw; h] ->
         let cw = cw <> "0" in let s = str_of_string (unhex h) in
         let content = unhex h in
         (match xml_read_attr true (n_of_int 34) (str_of_string (content ^ "\">" ^ content ^ "</r>")),
                xml_read_text cw true (str_of_string (content ^ "</r>")) with
          | Some a, Some t -> Printf.printf "1 %s %s" (tohex (string_of_str a)) (tohex (string_of_str t))
          | _ -> print_string "0")
     | [] -> ()
     | _ -> print_string "?");
    if toks line <> [] then print_newline ()
  done with End_of_file -> ()
