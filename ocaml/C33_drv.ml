(* C33 driver for the extracted models (c33_index.ml, c33_pe.ml, c33_wq.ml; ExtrOcamlBasic only).
   stdin, one query per line; stdout one answer line per query:
     PEW m n                     -> per-worker index lists      "0 3 6|1 4|2 5"
     P2D n np rt ext nproc       -> passes/tasks/pairs           pass "/" pass, each pass "<ntasks>:task|task", pairs "i,j i,j"; then " T=<threads>"
     TAB n np ext nproc          -> "B b0 b1 ... ; S x,y x,y | x,y ... "   (binStart table ; squares table, passes separated by |)
     PETR T n1,n2,.. tok tok ... -> "ACC <accepts> <complete> <rejectpos|-> <payload mismatch|->"
     WQTR T qs prog tok tok ...  -> same;  prog over a/f ; tokens "<thr>:<tag>[:v0[:v1..]]" with thr = m | p | worker index
   The PETR/WQTR verdict is the extracted accepts / accepts_complete; additionally the driver replays the trace with the
   extracted accept_step and compares numeric hook payloads with the model state (waiting count, task count, queue
   length, pending count, finished flag). *)

module I = C33_index
module P = C33_pe
module Q = C33_wq

let rec i_n2i = function I.O -> 0 | I.S n -> 1 + i_n2i n
let rec i_i2n k = if k <= 0 then I.O else I.S (i_i2n (k - 1))
let rec p_n2i = function P.O -> 0 | P.S n -> 1 + p_n2i n
let rec p_i2n k = if k <= 0 then P.O else P.S (p_i2n (k - 1))
let rec q_n2i = function Q.O -> 0 | Q.S n -> 1 + q_n2i n
let rec q_i2n k = if k <= 0 then Q.O else Q.S (q_i2n (k - 1))

let split_ws s = List.filter (fun x -> x <> "") (String.split_on_char ' ' s)
let ios = int_of_string

let rt_of = function 0 -> I.FullMatrix | 1 -> I.HalfMatrix | _ -> I.HalfPlusDiagonal

let str_pairs l = String.concat " " (List.map (fun (a, b) -> Printf.sprintf "%d,%d" (i_n2i a) (i_n2i b)) l)

(* ------------------------------------------------------------------ PE trace *)
exception Bad of string

let pe_event tok =
  match String.split_on_char ':' tok with
  | thr :: tag :: vals ->
    let v k = ios (List.nth vals k) in
    let t = if thr = "m" then P.Main else P.W (p_i2n (ios thr)) in
    let a = match tag with
      | "pe.w.start" -> P.AStart | "pe.w.loop" -> P.ALoop | "pe.w.exit" -> P.AExit | "pe.w.lock" -> P.ALock
      | "pe.w.wait.enter" -> P.AWaitEnter | "pe.w.wait.exit" -> P.AWaitExit | "pe.w.unlock" -> P.AUnlock
      | "pe.w.go" -> P.AGo | "pe.w.iter.end" -> P.AIterEnd | "pe.w.init" -> P.AInit
      | "pe.w.exec" -> P.AExec (p_i2n (v 0)) | "pe.w.clear" -> P.AClear | "pe.w.lock2" -> P.ALock2
      | "pe.w.fin.begin" -> P.AFinB | "pe.w.fin.end" -> P.AFinE | "pe.w.incr" -> P.AIncr | "pe.w.notify" -> P.ANotify
      | "pe.w.unlock2" -> P.AUnlock2
      | "pe.m.begin" -> P.MExecBegin (p_i2n (v 0)) | "pe.m.lock" -> P.MLockA | "pe.m.set" -> P.MSetA
      | "pe.m.notify" -> P.MNotifyA | "pe.m.wait.enter" -> P.MWaitEnterA | "pe.m.wait.exit" -> P.MWaitExitA
      | "pe.m.unlock" -> P.MUnlockA | "pe.m.end" -> P.MExecEnd
      | "pe.d.begin" -> P.DBegin | "pe.d.lock" -> P.DLock | "pe.d.set" -> P.DSet | "pe.d.notify" -> P.DNotify
      | "pe.d.unlock" -> P.DUnlock | "pe.d.joined" -> P.DJoined
      | _ -> raise (Bad ("unknown tag " ^ tag)) in
    ((t, a), tag, List.map ios vals)
  | _ -> raise (Bad ("bad token " ^ tok))

(* payload checks against the model state after the step *)
let pe_payload (s' : P.st) tag vals =
  match tag, vals with
  | "pe.w.incr", [v] -> if p_n2i s'.P.waiting <> v then Some (Printf.sprintf "pe.w.incr %d but model waiting %d" v (p_n2i s'.P.waiting)) else None
  | "pe.w.go", [c] -> if p_n2i s'.P.count <> c then Some (Printf.sprintf "pe.w.go count %d but model %d" c (p_n2i s'.P.count)) else None
  | "pe.m.set", [c] -> if p_n2i s'.P.count <> c then Some (Printf.sprintf "pe.m.set %d but model count %d" c (p_n2i s'.P.count)) else None
  | "pe.m.begin", [_; th] -> if List.length s'.P.wpcs <> th then Some (Printf.sprintf "pe.m.begin threads %d but model T %d" th (List.length s'.P.wpcs)) else None
  | _ -> None

let run_petr toks =
  match toks with
  | t :: td :: evs ->
    let tn = p_i2n (ios t) in
    let tdl = if td = "-" then [] else List.map (fun x -> p_i2n (ios x)) (String.split_on_char ',' td) in
    let parsed = List.map pe_event evs in
    let events = List.map (fun (e, _, _) -> e) parsed in
    let acc = P.accepts tn tdl events and comp = P.accepts_complete tn tdl events in
    let rp = match P.reject_pos (P.init tn tdl) [] events P.O with Some k -> string_of_int (p_n2i k) | None -> "-" in
    let mism = ref "-" in
    let rec go s pend = function
      | [] -> ()
      | (e, tag, vals) :: r ->
        (match P.accept_step s pend e with
         | Some ((s', pend'), f) ->
           (match f with Some _ -> (match pe_payload s' tag vals with Some m when !mism = "-" -> mism := m | _ -> ()) | None -> ());
           go s' pend' r
         | None -> ()) in
    go (P.init tn tdl) [] parsed;
    Printf.printf "ACC %b %b %s %s\n" acc comp rp (String.map (fun c -> if c = ' ' then '_' else c) !mism)
  | _ -> print_endline "ACC false false 0 bad-query"

(* ------------------------------------------------------------------ WQ trace *)
let wq_event tok =
  match String.split_on_char ':' tok with
  | thr :: tag :: vals ->
    let v k = ios (List.nth vals k) in
    let t = if thr = "p" then Q.Prod else Q.W (q_i2n (ios thr)) in
    let a = match tag with
      | "wq.w.start" -> Q.AStart | "wq.w.lock" -> Q.ALock | "wq.w.dec" -> Q.ADec | "wq.w.dec.notify" -> Q.ADecNotify
      | "wq.w.chk" -> Q.AChk | "wq.w.wait.enter" -> Q.AWaitEnter | "wq.w.wait.exit" -> Q.AWaitExit
      | "wq.w.pop" -> Q.APop | "wq.w.notify.full" -> Q.ANotifyFull | "wq.w.unlock" -> Q.AUnlock
      | "t.exec" -> Q.AExec (q_i2n (v 0)) | "t.del" -> Q.ADel (q_i2n (v 0)) | "wq.w.exit" -> Q.AExit
      | "c.add" -> Q.PAddBegin (q_i2n (v 0)) | "wq.p.add.lock" -> Q.PALockA | "wq.p.add.wait.enter" -> Q.PAWaitEnterA
      | "wq.p.add.wait.exit" -> Q.PAWaitExitA | "wq.p.push" -> Q.PAPushA | "wq.p.add.notify" -> Q.PANotifyA
      | "wq.p.add.unlock" -> Q.PAUnlockA
      | "wq.p.flush.begin" -> Q.PFlushBegin | "wq.p.flush.lock" -> Q.PFLockA | "wq.p.flush.wait.enter" -> Q.PFWaitEnterA
      | "wq.p.flush.wait.exit" -> Q.PFWaitExitA | "wq.p.flush.unlock" -> Q.PFUnlockA
      | "wq.d.begin" -> Q.DBegin | "wq.d.lock" -> Q.DLock | "wq.d.set" -> Q.DSet | "wq.d.notify" -> Q.DNotify
      | "wq.d.unlock" -> Q.DUnlock | "wq.d.joined" -> Q.DJoined
      | _ -> raise (Bad ("unknown tag " ^ tag)) in
    ((t, a), tag, List.map ios vals)
  | _ -> raise (Bad ("bad token " ^ tok))

let wq_payload (s0 : Q.st) (s' : Q.st) tag vals =
  let pend = q_n2i s'.Q.pending and ql = List.length s'.Q.queue in
  match tag, vals with
  | "wq.w.dec", [p] -> if pend <> p then Some (Printf.sprintf "wq.w.dec pending %d but model %d" p pend) else None
  | "wq.p.push", [sz; p] -> if pend <> p || ql <> sz then Some (Printf.sprintf "wq.p.push size %d pending %d but model %d %d" sz p ql pend) else None
  | "wq.w.pop", [sz] -> if ql <> sz then Some (Printf.sprintf "wq.w.pop size %d but model %d" sz ql) else None
  | "wq.w.chk", [f; sz] ->
    let mf = if s0.Q.finished then 1 else 0 and mq = List.length s0.Q.queue in
    if mf <> f || mq <> sz then Some (Printf.sprintf "wq.w.chk finished %d size %d but model %d %d" f sz mf mq) else None
  | _ -> None

let run_wqtr toks =
  match toks with
  | t :: qs :: prog :: evs ->
    let tn = q_i2n (ios t) and qn = q_i2n (ios qs) in
    let id = ref 0 in
    let pr = List.concat (List.map (fun c -> if c = 'a' then (let k = !id in incr id; [Q.Add (q_i2n k)]) else if c = 'f' then [Q.Flush] else [])
                            (List.init (String.length prog) (String.get prog))) in
    let parsed = List.map wq_event evs in
    let events = List.map (fun (e, _, _) -> e) parsed in
    let acc = Q.accepts tn qn pr events and comp = Q.accepts_complete tn qn pr events in
    let rp = match Q.reject_pos (Q.init tn qn pr) [] events Q.O with Some k -> string_of_int (q_n2i k) | None -> "-" in
    let mism = ref "-" in
    let rec go s pend = function
      | [] -> ()
      | (e, tag, vals) :: r ->
        (match Q.accept_step s pend e with
         | Some ((s', pend'), f) ->
           (match f with Some _ -> (match wq_payload s s' tag vals with Some m when !mism = "-" -> mism := m | _ -> ()) | None -> ());
           go s' pend' r
         | None -> ()) in
    go (Q.init tn qn pr) [] parsed;
    Printf.printf "ACC %b %b %s %s\n" acc comp rp (String.map (fun c -> if c = ' ' then '_' else c) !mism)
  | _ -> print_endline "ACC false false 0 bad-query"

(* ------------------------------------------------------------------ main loop *)
let () =
  try
    while true do
      let line = input_line stdin in
      (try
        match split_ws line with
        | ["PEW"; m; n] ->
          let ls = I.pe_workers (i_i2n (ios m)) (i_i2n (ios n)) in
          print_endline (String.concat "|" (List.map (fun l -> String.concat " " (List.map (fun x -> string_of_int (i_n2i x)) l)) ls))
        | ["P2D"; n; np; rt; ext; nproc] ->
          let n' = i_i2n (ios n) and rt' = rt_of (ios rt) in
          let passes = if ios ext = 0 then I.p2d_passes n' (i_i2n (ios np)) rt' else I.p2d_passes_ext n' (i_i2n (ios nproc)) rt' in
          let th = if ios ext = 0 then i_n2i (I.p2d_threads n' (i_i2n (ios np))) else ios np in
          Printf.printf "%s T=%d\n" (String.concat "/" (List.map (fun tasks -> string_of_int (List.length tasks) ^ ":" ^ String.concat "|" (List.map str_pairs tasks)) passes)) th
        | ["TAB"; n; np; ext; nproc] ->
          let np' = I.p2d_init_np (ios ext <> 0) (i_i2n (ios n)) (i_i2n (ios np)) (i_i2n (ios nproc)) in
          let b = I.p2d_binStart_table (i_i2n (ios n)) np' and sq = I.p2d_squares_table np' in
          Printf.printf "B %s ; S %s\n" (String.concat " " (List.map (fun x -> string_of_int (i_n2i x)) b))
            (String.concat " | " (List.map str_pairs sq))
        | "PETR" :: r -> run_petr r
        | "WQTR" :: r -> run_wqtr r
        | [] -> ()
        | _ -> print_endline "?"
      with Bad m -> Printf.printf "ACC false false 0 %s\n" (String.map (fun c -> if c = ' ' then '_' else c) m)
         | Failure m -> Printf.printf "ERR %s\n" m
         | Not_found -> print_endline "ERR notfound");
      flush stdout
    done
  with End_of_file -> ()
