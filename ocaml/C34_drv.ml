(* C34 driver: runs the extracted surface-query model (coq/C34/C34_Model.v) with a float NumOps.
   Same query lines as harness/C34_probe.cpp (directions already normalised; HSR takes sig first):
     EL nops {code r[3]}* kind args (ellipsoid object: construct / setRadii / copy, then one query) |
     HSN p | HSR sig o d | SPN r p | SPR r o d | SPV r x | SPS r d | CYN r p | CYR r o d | CYV r x | BXS h d | BXB h *)
open C34model
#include "fops.inc"
let v3 l = match l with x :: y :: z :: r -> (((x, y), z), r) | _ -> failwith "v3"
let hd l = match l with x :: r -> (x, r) | [] -> failwith "hd"
let p3 ((a, b), c) = pf a; pf b; pf c
let pb b = pf (if b then 1.0 else 0.0)
let near ((q, inside), n) = p3 q; pb inside; p3 n
let hit = function None -> pf 0.0; pf 0.0; p3 ((0.0, 0.0), 0.0) | Some (d, n) -> pf 1.0; pf d; p3 n
let rec rep n f l = if n <= 0 then ([], l) else let (x, l) = f l in let (xs, l) = rep (n-1) f l in (x :: xs, l)
let ni x = int_of_float x
(* EL nops {code r[3]}* kind args : the same operation sequence on the model object (radii, cached curvatures) *)
let run_el a =
  let (nops, a) = hd a in
  let op l = let (c, l) = hd l in let (r, l) = v3 l in ((ni c, r), l) in
  let (ops, a) = rep (ni nops) op a in
  let e = (match ops with (0, r0) :: rest -> el_run fops r0 (List.map (fun (c, r) -> if c = 1 then OpSet r else OpCopy) rest) | _ -> failwith "ops") in
  let (kind, a) = hd a in
  (match ni kind with
   | 1 -> let (x, _) = v3 a in pf (el_value fops e x); p3 (el_gradient fops e x); let ((r0, r1), r2) = el_hessian fops e in p3 r0; p3 r1; p3 r2
   | 2 -> let (d, _) = v3 a in p3 (el_support fops e d)
   | 3 -> let (q, _) = v3 a in p3 (el_pointInDirection fops e q)
   | 4 -> let (q, _) = v3 a in p3 (el_unitNormalAt fops e q)
   | 5 -> pf (el_bsphere fops e)
   | 6 -> p3 (el_curv e); p3 (el_radii e)
   | 7 -> let (i, _) = hd a in let (kmax, kmin) = el_axisCurvatures fops e (let rec n k = if k <= 0 then O else S (n (k-1)) in n (ni i)) in pf kmax; pf kmin
   | _ -> failwith "kind")
let run k a =
  match k with
  | "EL" -> run_el a
  | "HSN" -> let (p, _) = v3 a in near (hs_nearest fops p)
  | "HSR" -> let (s, a) = hd a in let (o, a) = v3 a in let (d, _) = v3 a in hit (hs_ray fops s o d)
  | "SPN" -> let (r, a) = hd a in let (p, _) = v3 a in near (sp_nearest fops r p)
  | "SPR" -> let (r, a) = hd a in let (o, a) = v3 a in let (d, _) = v3 a in hit (sp_ray fops r o d)
  | "SPV" -> let (r, a) = hd a in let (x, _) = v3 a in pf (sp_value fops r x); p3 (sp_gradient fops x)
  | "SPS" -> let (r, a) = hd a in let (d, _) = v3 a in p3 (sp_support fops r d)
  | "CYN" -> let (r, a) = hd a in let (p, _) = v3 a in near (cy_nearest fops r p)
  | "CYR" -> let (r, a) = hd a in let (o, a) = v3 a in let (d, _) = v3 a in hit (cy_ray fops r o d)
  | "CYV" -> let (r, a) = hd a in let (x, _) = v3 a in pf (cy_value fops r x); p3 (cy_gradient fops x)
  | "BXS" -> let (h, a) = v3 a in let (d, _) = v3 a in p3 (bx_support fops h d)
  | "BXB" -> let (h, _) = v3 a in pf (bx_bsphere fops h)
  | _ -> print_string "?unknown"
let () =
  try while true do
    let line = input_line stdin in
    (match toks line with [] -> () | k :: rest -> (try run k (List.map float_of_string rest) with Failure m -> print_string ("!failure " ^ m)));
    print_newline ()
  done with End_of_file -> ()
