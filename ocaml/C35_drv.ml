(* C35 driver: runs the extracted collision-detection model (coq/C35/C35_Model.v) with a float NumOps.
     CC c1 u ra rb t (aligned convex-convex family) -> n depth normal[3] location[3] sphere-radius |
     BP axis XGB1[12] XBS1[12] c1[3] r1 XGB2[12] XBS2[12] c2[3] r2 -> kept centreG1[3] centreG2[3]   (broad-phase bubble test) |
     AS p1 r1 p2 r2 | AH R[9] p1 p2 r                 -> n {depth normal[3] location[3] radius}
     TS sig R[9] p1 r1 p2 r2 cutoff | TH R[9] p1 p2 r cutoff  -> ok kind depth normal[3] origin[3] radius *)
open C35model
#include "fops.inc"
let v3 l = match l with x :: y :: z :: r -> (((x, y), z), r) | _ -> failwith "v3"
let m33 l = let (r0, l) = v3 l in let (r1, l) = v3 l in let (r2, l) = v3 l in (((r0, r1), r2), l)
let hd l = match l with x :: r -> (x, r) | [] -> failwith "hd"
let p3 ((a, b), c) = pf a; pf b; pf c
let pc = function None -> pf 0.0 | Some (((d, n), l), r) -> pf 1.0; pf d; p3 n; p3 l; pf r
let pt ok c = pf (if ok then 1.0 else 0.0); (match c with Some (((d, n), l), r) when ok -> pf 1.0; pf d; p3 n; p3 l; pf r | _ -> pf 0.0; for _ = 1 to 8 do pf 0.0 done)
let run k a =
  match k with
  | "AS" -> let (p1, a) = v3 a in let (r1, a) = hd a in let (p2, a) = v3 a in let (r2, _) = hd a in pc (sphere_sphere fops p1 r1 p2 r2)
  | "AH" -> let (r, a) = m33 a in let (p1, a) = v3 a in let (p2, a) = v3 a in let (rad, _) = hd a in pc (hs_sphere fops (r, p1) p2 rad)
  | "CC" -> let (c1, a) = v3 a in let (u, a) = v3 a in let (ra, a) = hd a in let (rb, a) = hd a in let (t, _) = hd a in
            (match cc_axis fops c1 u ra rb t with None -> pf 0.0 | Some ((d, n), l) -> pf 1.0; pf d; p3 n; p3 l; pf (cc_sphere_radius fops ra rb))
  | "BP" -> let xf a = let (r, a) = m33 a in let (p, a) = v3 a in ((r, p), a) in
            let (ax, a) = hd a in let (g1, a) = xf a in let (b1, a) = xf a in let (c1, a) = v3 a in let (r1, a) = hd a in
            let (g2, a) = xf a in let (b2, a) = xf a in let (c2, a) = v3 a in let (r2, _) = hd a in
            let rec n k = if k <= 0 then O else S (n (k-1)) in
            pf (if bp_keeps fops (n (int_of_float ax)) g1 b1 c1 r1 g2 b2 c2 r2 then 1.0 else 0.0); p3 (bp_center_G fops g1 b1 c1); p3 (bp_center_G fops g2 b2 c2)
  | "TS" -> let (sg, a) = hd a in let (r, a) = m33 a in let (p1, a) = v3 a in let (r1, a) = hd a in let (p2, a) = v3 a in let (r2, a) = hd a in let (cut, _) = hd a in
            (match tk_sphere_sphere fops sg r p1 r1 p2 r2 cut with Inl c -> pt true c | Inr _ -> pt false None)
  | "TH" -> let (r, a) = m33 a in let (p1, a) = v3 a in let (p2, a) = v3 a in let (rad, a) = hd a in let (cut, _) = hd a in pt true (tk_hs_sphere fops (r, p1) p2 rad cut)
  | _ -> print_string "?unknown"
let () =
  try while true do
    let line = input_line stdin in
    (match toks line with [] -> () | k :: rest -> (try run k (List.map float_of_string rest) with Failure m -> print_string ("!failure " ^ m)));
    print_newline ()
  done with End_of_file -> ()
