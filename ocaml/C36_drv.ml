(* C36 driver: reads the OUTPUT of harness/C36_probe.cpp (mesh echo, adjacency tables, dumped OBB tree, query answers,
   boxes/spheres of point clouds) and prints what the extracted model (coq/C36/C36_Model.v, float NumOps) says:
     CERT treeok covers adjok meshsphereok        the certificate checks on the dumped tree / tables
     NEAR d2 inside                               brute force over all faces
     RAY hit t
     PB ok / PS ok                                box / sphere of a point cloud contains its points
   checks/C36.py compares with the implementation's lines. *)
open C36model
#include "fops.inc"

let rec nat_of_int n = if n <= 0 then O else S (nat_of_int (n - 1))
let tol = 1e-9
let f = float_of_string
let v3 a k = ((f a.(k), f a.(k+1)), f a.(k+2))
let box a k = ((((v3 a k, v3 a (k+3)), v3 a (k+6)), v3 a (k+9)), v3 a (k+12))

let () =
  let verts = ref [] and faces = ref [] and fv = ref [] and fe = ref [] and ev = ref [] and ef = ref []
  and tlines = ref [] and msphere = ref None and curbox = ref None in
  let cert_done = ref false in
  let reset () = verts := []; faces := []; fv := []; fe := []; ev := []; ef := []; tlines := []; msphere := None; cert_done := false in
  let rec parse_tree (ls : string array list) : float otree * string array list =
    match ls with
    | a :: rest when a.(1) = "L" ->
        let n = int_of_string a.(18) in
        (OLeaf (box a 2, List.init n (fun k -> nat_of_int (int_of_string a.(19 + k)))), rest)
    | a :: rest ->
        let (l, r1) = parse_tree rest in let (r, r2) = parse_tree r1 in (ONode (box a 2, l, r), r2)
    | [] -> failwith "tree" in
  let cert () =
    if not !cert_done then begin
      cert_done := true;
      let vs = List.rev !verts and fs = List.rev !faces in
      match List.rev !tlines with
      | [] -> print_endline "CERT -"
      | tl ->
        let (t, _) = parse_tree tl in
        let tok = tree_ok fops tol vs fs t and cov = tree_covers (nat_of_int (List.length fs)) t in
        let adj = adjacency_ok (nat_of_int (List.length vs)) (List.rev !fv) (List.rev !fe) (List.rev !ev) (List.rev !ef) in
        let sph = match !msphere with Some (c, r) -> List.for_all (fun p -> sphere_contains fops tol c r p) vs | None -> false in
        Printf.printf "CERT %b %b %b %b\n" tok cov adj sph
    end in
  (try while true do
    let line = input_line stdin in
    let a = Array.of_list (toks line) in
    if Array.length a > 0 then
    match a.(0) with
    | "MESH" -> reset (); print_endline "CASE"
    | "v" -> verts := v3 a 1 :: !verts
    | "f" -> faces := ((nat_of_int (int_of_string a.(1)), nat_of_int (int_of_string a.(2))), nat_of_int (int_of_string a.(3))) :: !faces
    | "AF" -> let n k = nat_of_int (int_of_string a.(k)) in fv := ((n 1, n 2), n 3) :: !fv; fe := ((n 4, n 5), n 6) :: !fe
    | "AE" -> let n k = nat_of_int (int_of_string a.(k)) in
              ev := (n 1, n 2) :: !ev;
              ef := ((if int_of_string a.(3) < 0 then nat_of_int 1000000 else n 3), (if int_of_string a.(4) < 0 then None else Some (n 4))) :: !ef
    | "T" -> tlines := a :: !tlines
    | "MS" -> msphere := Some (v3 a 1, f a.(4))
    | "BUILDFAIL" -> if not !cert_done then print_endline "CERT -"; cert_done := true
    | "N" -> cert ();
        let vs = List.rev !verts and fs = List.rev !faces in
        (match nearest_brute fops (100.0 *. epsilon_float) vs fs (v3 a 1) with
         | Some (((d2, k), _), sd) ->
             (* is the nearest point strictly inside its face (then the face, hence the sign, is unique)?  ground truth of
                "inside" for a closed mesh: parity of the crossings of a ray in a fixed generic direction *)
             let p = v3 a 1 in
             let ((i0, i1), i2) = List.nth fs (let rec n2i = function O -> 0 | S m -> 1 + n2i m in n2i k) in
             let vtx i = vert fops vs i in
             let ((wa, wb), wc) = closest_bary fops p (vtx i0) (vtx i1) (vtx i2) in
             let interior = wa > 1e-7 && wb > 1e-7 && wc > 1e-7 in
             let par = inside_parity fops vs fs p ((0.5257311121191336, 0.3090169943749474), 0.7946544722917661) in
             Printf.printf "NEAR %.17g %d %d %d\n" d2 (if sd > 0.0 then 1 else 0) (if interior then 1 else 0) (if par then 1 else 0)
         | None -> print_endline "NEAR -")
    | "NF" -> cert ();
        let vs = List.rev !verts and fs = List.rev !faces in
        print_endline ("NFACE" ^ String.concat "" (List.map (fun ((i0, i1), i2) ->
          Printf.sprintf " %.17g" (dist2_pt_tri fops (v3 a 1) (vert fops vs i0) (vert fops vs i1) (vert fops vs i2))) fs))
    | "R" -> cert ();
        let vs = List.rev !verts and fs = List.rev !faces in
        (match ray_brute fops vs fs (v3 a 1) (v3 a 4) with
         | Some t -> Printf.printf "RAY 1 %.17g\n" t
         | None -> print_endline "RAY 0 0")
    | "P" -> cert ();
        let n = int_of_string a.(1) in
        verts := []; (* point cloud lines come after the mesh queries; reuse the list *)
        let pts = List.init n (fun k -> v3 a (2 + 3 * k)) in
        verts := List.rev pts; faces := []; cert_done := true
    | "PB" -> let bx = box a 1 in Printf.printf "PB %b\n" (List.for_all (fun p -> box_contains fops tol bx p) (List.rev !verts))
    | "PS" -> Printf.printf "PS %b\n" (List.for_all (fun p -> sphere_contains fops tol (v3 a 1) (f a.(4)) p) (List.rev !verts))
    | "B" -> curbox := Some (box a 1)
    | "Y" -> (match !curbox with
              | Some bx -> (match box_ray fops bx (v3 a 1) (v3 a 4) with
                            | Some t -> Printf.printf "BR 1 %.17g\n" t
                            | None -> print_endline "BR 0 0")
              | None -> print_endline "BR -")
    | "END" -> cert (); print_endline "END"
    | _ -> ()
  done with End_of_file -> ());
  print_endline "DONE"
