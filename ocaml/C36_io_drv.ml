(* C36 file-format part: driver for the extracted readers of coq/C36/C36_io_Model.v.  Commands on stdin:
     BIN <path>                    the bytes of the file go through load_stl_binary (parse + vertex merging)
     ASC <n>  then n lines "kw id id ..."      tokenised significant lines of an ASCII STL file -> parse_ascii, then merge
     OBJ <n>  then n lines "v id id id" | "f i j k ..." | "o"   -> parse_obj
   Output per command: "NV n NF m", "V ..." (12 bytes for BIN, 3 number ids for ASC/OBJ), "F i j k ...", or "THROW". *)
open C36io

let rec nat_of_int n = if n <= 0 then O else S (nat_of_int (n - 1))
let rec int_of_nat = function O -> 0 | S n -> 1 + int_of_nat n
let rec int_of_pos = function XH -> 1 | XO p -> 2 * int_of_pos p | XI p -> 2 * int_of_pos p + 1
let int_of_n = function N0 -> 0 | Npos p -> int_of_pos p
let int_of_z = function Z0 -> 0 | Zpos p -> int_of_pos p | Zneg p -> - (int_of_pos p)
let rec pos_of_int n = if n <= 1 then XH else if n land 1 = 0 then XO (pos_of_int (n / 2)) else XI (pos_of_int (n / 2))
let n_of_int n = if n <= 0 then N0 else Npos (pos_of_int n)
let z_of_int n = if n = 0 then Z0 else if n > 0 then Zpos (pos_of_int n) else Zneg (pos_of_int (- n))
let toks line = List.filter (fun s -> s <> "") (String.split_on_char ' ' line)

let kw_of = function
  | "solid" -> Ksolid | "endsolid" -> Kendsolid | "facet" -> Kfacet | "facetnormal" -> Kfacetnormal | "outer" -> Kouter
  | "outerloop" -> Kouterloop | "vertex" -> Kvertex | "endloop" -> Kendloop | "endfacet" -> Kendfacet | "color" -> Kcolor | _ -> Kother
let idf x = (((x, N0), N0), N0)
let id_vtx ((x, y), z) = ((idf x, idf y), idf z)   (* a number id as a fake bit pattern *)
let pr_f32 (((a, b), c), d) = Printf.sprintf "%d %d %d %d" (int_of_n a) (int_of_n b) (int_of_n c) (int_of_n d)

let () =
  (try while true do
    let line = input_line stdin in
    match toks line with
    | ["BIN"; path] ->
        let ic = open_in_bin path in let len = in_channel_length ic in
        let s = really_input_string ic len in close_in ic;
        let bytes = List.init len (fun k -> n_of_int (Char.code s.[k])) in
        (match load_stl_binary bytes with
         | None -> print_endline "THROW"
         | Some (vs, fs) ->
             Printf.printf "NV %d NF %d\n" (List.length vs) (List.length fs);
             List.iter (fun ((x, y), z) -> Printf.printf "V %s %s %s\n" (pr_f32 x) (pr_f32 y) (pr_f32 z)) vs;
             List.iter (fun f -> print_endline ("F" ^ String.concat "" (List.map (fun i -> " " ^ string_of_int (int_of_nat i)) f))) fs)
    | ["ASC"; n] ->
        let ls = List.init (int_of_string n) (fun _ -> match toks (input_line stdin) with
                   | k :: r -> (kw_of k, List.map (fun t -> n_of_int (int_of_string t)) r) | [] -> (Kother, [])) in
        (match parse_ascii ls with
         | None -> print_endline "THROW"
         | Some faces ->
             let (vs, fs) = merge [] (List.map (List.map id_vtx) faces) in
             Printf.printf "NV %d NF %d\n" (List.length vs) (List.length fs);
             List.iter (fun (((((x, _), _), _), (((y, _), _), _)), (((z, _), _), _)) -> Printf.printf "V %d %d %d\n" (int_of_n x) (int_of_n y) (int_of_n z)) vs;
             List.iter (fun f -> print_endline ("F" ^ String.concat "" (List.map (fun i -> " " ^ string_of_int (int_of_nat i)) f))) fs)
    | ["OBJ"; n] ->
        let ls = List.init (int_of_string n) (fun _ -> match toks (input_line stdin) with
                   | ["v"; x; y; z] -> OV (n_of_int (int_of_string x), n_of_int (int_of_string y), n_of_int (int_of_string z))
                   | "f" :: r -> OF (List.map (fun t -> z_of_int (int_of_string t)) r)
                   | _ -> OOther) in
        let (vs, fs) = parse_obj ls [] [] in
        Printf.printf "NV %d NF %d\n" (List.length vs) (List.length fs);
        List.iter (fun ((x, y), z) -> Printf.printf "V %d %d %d\n" (int_of_n x) (int_of_n y) (int_of_n z)) vs;
        List.iter (fun f -> print_endline ("F" ^ String.concat "" (List.map (fun i -> " " ^ string_of_int (int_of_z i)) f))) fs
    | _ -> ()
  done with End_of_file -> ());
  print_endline "DONE"
