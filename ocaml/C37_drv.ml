(* C37 driver: runs the extracted contact-force model (coq/C37/C37_Model.v) with a float NumOps; std::pow is Float.pow.
   stdin, one case per line (all numbers %h or decimal):
     HC vt nsurf {body k23 c us ud uv}* nbodies {p w v}* ncontacts {s1 s2 point depth n[3] loc[3] radius}*
          -> body forces (6 per body) pe
     SS par[9] Xs[12] Xh[12] bs[9] bh[9] loc[3] frame[12] R   -> x wrench_sphere[6] wrench_halfspace[6] pe
     ES sig d0 d1 d2 cz maxFz kxy cxy mus muk K pP[3] vP[3] p0[3]
          -> fzElas fzDamp fz mu limit elas[3] damp[3] fric[3] p0new[3] forceP[3]
     HZ sig m1[5] m2[5] vtrans depth n[3] origin[3] R e p12[3] w12[3] v12[3]   -> valid pt[3] force[3] pe power
     BK sig mH[5] mB[5] vtrans n[3] pHB[3] w[3] v[3] nverts {vH[3]}*
          -> F[6] pe power nactive {pt[3] f[3] pe power x xdot}*
     AR nb {p[3]}*nb ncf {b1 b2 pt[3] M[3] F[3]}*   -> body forces (6 per body) net moment[3] net force[3]   (CompliantContactSubsystem's application step)
     MU us ud uv v  -> stribeck   ;  HO us ud uv vt vslip -> hollars_mu *)
open C37model
#include "fops.inc"

let rec nat_of_int n = if n <= 0 then O else S (nat_of_int (n-1))
let v3 l = match l with x :: y :: z :: r -> (((x, y), z), r) | _ -> failwith "v3"
let xf l = let (r0, l) = v3 l in let (r1, l) = v3 l in let (r2, l) = v3 l in let (p, l) = v3 l in ((((r0, r1), r2), p), l)
let hd l = match l with x :: r -> (x, r) | [] -> failwith "hd"
let p3 ((a, b), c) = pf a; pf b; pf c
let psv (t, f) = p3 t; p3 f
let bodyp l = let (p, l) = v3 l in let (w, l) = v3 l in let (v, l) = v3 l in ({ b_p = p; b_w = w; b_v = v }, l)
let mat l = match l with k :: c :: us :: ud :: uv :: r -> ({ m_k = k; m_c = c; m_us = us; m_ud = ud; m_uv = uv }, r) | _ -> failwith "mat"
let rec rep n f l = if n <= 0 then ([], l) else let (x, l) = f l in let (xs, l) = rep (n-1) f l in (x :: xs, l)
let ni x = int_of_float x

let run k (a : float list) =
  match k with
  | "HC" ->
    let (vt, a) = hd a in let (ns, a) = hd a in
    let surf l = (match l with b :: k :: c :: us :: ud :: uv :: r ->
      ({ s_body = nat_of_int (ni b); s_par = { h_k = k; h_c = c; h_us = us; h_ud = ud; h_uv = uv } }, r) | _ -> failwith "surf") in
    let (surfs, a) = rep (ni ns) surf a in
    let (nb, a) = hd a in let (bodies, a) = rep (ni nb) bodyp a in
    let (nc, a) = hd a in
    let con l = (match l with s1 :: s2 :: pt :: d :: r -> let (n, r) = v3 r in let (loc, r) = v3 r in let (rad, r) = hd r in
      ({ c_s1 = nat_of_int (ni s1); c_s2 = nat_of_int (ni s2); c_point = (pt <> 0.0); c_depth = d; c_normal = n; c_loc = loc; c_radius = rad }, r)
      | _ -> failwith "contact") in
    let (cs, _) = rep (ni nc) con a in
    let (fs, pe) = hc_calcForce fops surfs bodies vt cs in
    List.iter psv fs; pf pe
  | "SS" ->
    (match a with st :: c :: us :: ud :: uv :: vt :: cf :: bd :: bv :: a ->
      let p = { ss_stiffness = st; ss_dissipation = c; ss_us = us; ss_ud = ud; ss_uv = uv; ss_vt = vt; ss_cf = cf; ss_bd = bd; ss_bv = bv } in
      let (xs, a) = xf a in let (xh, a) = xf a in let (bs, a) = bodyp a in let (bh, a) = bodyp a in
      let (loc, a) = v3 a in let (frame, a) = xf a in let (r, _) = hd a in
      let (((x, ws), wh), pe) = ss_calcForce fops Float.pow p xs xh bs bh loc frame r in
      pf x; psv ws; psv wh; pf pe
     | _ -> failwith "SS")
  | "ES" ->
    (match a with sg :: d0 :: d1 :: d2 :: cz :: mx :: kxy :: cxy :: mus :: muk :: ksl :: a ->
      let p = { e_d0 = d0; e_d1 = d1; e_d2 = d2; e_cz = cz; e_maxFz = mx; e_kxy = kxy; e_cxy = cxy } in
      let (pp, a) = v3 a in let (vp, a) = v3 a in let (p0, _) = v3 a in
      let ((_, _), pz) = pp in let ((_, _), vz) = vp in
      let ((fe, fd), fz) = es_normal fops p pz vz in
      let fr = es_friction fops sg p mus muk ksl fz (v3_setz0 fops pp) (v3_setz0 fops vp) p0 in
      pf fe; pf fd; pf fz; pf fr.f_mu; pf fr.f_limit; p3 fr.f_elas; p3 fr.f_damp; p3 fr.f_fric; p3 fr.f_p0;
      p3 (es_force_P fops sg p mus muk ksl pp vp p0)
     | _ -> failwith "ES")
  | "HZ" ->
    let (sg, a) = hd a in let (m1, a) = mat a in let (m2, a) = mat a in let (vt, a) = hd a in let (d, a) = hd a in
    let (n, a) = v3 a in let (o, a) = v3 a in let (r, a) = hd a in let (e, a) = hd a in
    let (p12, a) = v3 a in let (w12, a) = v3 a in let (v12, _) = v3 a in
    let z = hz_force fops sg m1 m2 vt d n o r e p12 w12 v12 in
    pf (if z.z_valid then 1.0 else 0.0); p3 z.z_pt; p3 z.z_force; pf z.z_pe; pf z.z_power
  | "BK" ->
    let (sg, a) = hd a in let (mh, a) = mat a in let (mb, a) = mat a in let (vt, a) = hd a in
    let (n, a) = v3 a in let (phb, a) = v3 a in let (w, a) = v3 a in let (v, a) = v3 a in
    let (nv, a) = hd a in let (vs, _) = rep (ni nv) v3 a in
    let z3 = ((0.0, 0.0), 0.0) in
    let ((f, pe), pw) = bk_loop fops sg mh mb vt n phb w v vs (((z3, z3), 0.0), 0.0) in
    psv f; pf pe; pf pw;
    let det = List.filter_map (fun vh -> bk_vertex fops sg mh mb vt n phb w v vh) vs in
    pf (float_of_int (List.length det));
    List.iter (fun (((((pt, f), pe), pw), x), xd) -> p3 pt; p3 f; pf pe; pf pw; pf x; pf xd) det
  | "AR" ->
    let (nb, a) = hd a in let bp l = let (p, l) = v3 l in ({ b_p = p; b_w = ((0.0, 0.0), 0.0); b_v = ((0.0, 0.0), 0.0) }, l) in
    let (bodies, a) = rep (ni nb) bp a in let (nc, a) = hd a in
    let cf l = (match l with b1 :: b2 :: r -> let (pt, r) = v3 r in let (m, r) = v3 r in let (f, r) = v3 r in
                  ({ cf_b1 = nat_of_int (ni b1); cf_b2 = nat_of_int (ni b2); cf_pt = pt; cf_m = m; cf_f = f }, r) | _ -> failwith "cf") in
    let (cs, _) = rep (ni nc) cf a in
    List.iter psv (cc_bodyForces fops bodies cs); let (m, f) = net_wrench fops bodies (cc_bodyForces fops bodies cs) in p3 m; p3 f
  | "MU" -> (match a with [us; ud; uv; v] -> pf (stribeck fops us ud uv v) | _ -> failwith "MU")
  | "HO" -> (match a with [us; ud; uv; vt; vs] -> pf (hollars_mu fops us ud uv vt vs) | _ -> failwith "HO")
  | _ -> print_string "?unknown"

let () =
  try
    while true do
      let line = input_line stdin in
      (match toks line with
       | [] -> ()
       | k :: rest -> (try run k (List.map float_of_string rest) with Failure m -> print_string ("!failure " ^ m)));
      print_newline ()
    done
  with End_of_file -> ()
