(* C37 elastic-foundation driver: runs the extracted model (coq/C37/C37_ef_Model.v) with a float NumOps.
   stdin: EF vt nb {p w v}*nb nc { b1 b2 has1 par1[5]? has2 par2[5]? n1 {sp[3] np[3] inside area}*n1 n2 {...}*n2 }*nc
   stdout: body forces (6 per body) pe *)
open C37efmodel
#include "fops.inc"
let rec nat_of_int n = if n <= 0 then O else S (nat_of_int (n-1))
let v3 l = match l with x :: y :: z :: r -> (((x, y), z), r) | _ -> failwith "v3"
let hd l = match l with x :: r -> (x, r) | [] -> failwith "hd"
let p3 ((a, b), c) = pf a; pf b; pf c
let rec rep n f l = if n <= 0 then ([], l) else let (x, l) = f l in let (xs, l) = rep (n-1) f l in (x :: xs, l)
let ni x = int_of_float x
let bodyp l = let (p, l) = v3 l in let (w, l) = v3 l in let (v, l) = v3 l in ({ b_p = p; b_w = w; b_v = v }, l)
let par l = match l with k :: c :: us :: ud :: uv :: r -> ({ ef_k = k; ef_c = c; ef_us = us; ef_ud = ud; ef_uv = uv }, r) | _ -> failwith "par"
let opar l = let (h, l) = hd l in if h <> 0.0 then let (p, l) = par l in (Some p, l) else (None, l)
let face l = let (sp, l) = v3 l in let (np, l) = v3 l in let (ins, l) = hd l in let (a, l) = hd l in
  ({ fa_sp = sp; fa_np = np; fa_inside = (ins <> 0.0); fa_area = a }, l)
let contact l = let (b1, l) = hd l in let (b2, l) = hd l in let (p1, l) = opar l in let (p2, l) = opar l in
  let (n1, l) = hd l in let (f1, l) = rep (ni n1) face l in let (n2, l) = hd l in let (f2, l) = rep (ni n2) face l in
  ({ e_b1 = nat_of_int (ni b1); e_b2 = nat_of_int (ni b2); e_par1 = p1; e_par2 = p2; e_faces1 = f1; e_faces2 = f2 }, l)
let run k a =
  match k with
  | "EF" -> let (vt, a) = hd a in let (nb, a) = hd a in let (bodies, a) = rep (ni nb) bodyp a in
            let (nc, a) = hd a in let (cs, _) = rep (ni nc) contact a in
            let (fs, pe) = ef_calcForce fops bodies vt cs in
            List.iter (fun (t, f) -> p3 t; p3 f) fs; pf pe
  | _ -> print_string "?unknown"
let () =
  try while true do
    let line = input_line stdin in
    (match toks line with [] -> () | k :: rest -> (try run k (List.map float_of_string rest) with Failure m -> print_string ("!failure " ^ m)));
    print_newline ()
  done with End_of_file -> ()
