(* C38 driver: runs the extracted cache/history machine (coq/C38/C38_Model.v, hrun with inv_par = true) over the
   extracted element laws (coq/C13/C13_Model.v) with a float NumOps.
   stdin : <kind> nb nu j nfixed fixed... np p0... ops...     ops:  P n v1..vn | Q n v1..vn | E b | R
   stdout: for every report  mobility forces, body forces, PE  followed by ';'      all %h *)
open C38model
#include "fops.inc"

let rec nat_of_int n = if n <= 0 then O else S (nat_of_int (n-1))
let v3 l = match l with x :: y :: z :: r -> (((x, y), z), r) | _ -> failwith "v3"
let xf l = let (r0, l) = v3 l in let (r1, l) = v3 l in let (r2, l) = v3 l in let (p, l) = v3 l in ((((r0, r1), r2), p), l)
let rec take n l = if n <= 0 then ([], l) else match l with x :: r -> let (a, b) = take (n-1) r in (x :: a, b) | [] -> failwith "take"
let flat ((bf, mf), pe) =
  mf @ List.concat (List.map (fun (((a, b), c), ((d, e), f)) -> [a; b; c; d; e; f]) bf) @ [pe]

let law kind nb nu j fixed (p : float list) (q : float list) : float list =
  let nbn = nat_of_int nb and nun = nat_of_int nu and jn = nat_of_int j in
  match kind, p, q with
  | "MLS", [k; q0], [qq; _; _] -> flat (ev_mspring fops nbn nun jn k q0 qq)
  | "MLD", [c], [_; u; _] -> flat (ev_mdamper fops nbn nun jn c u)
  | "MCF", [f], _ -> flat (ev_mconst fops nbn nun jn f)
  | "MST", [k; d; lo; hi], [qq; _; qd] -> flat (ev_mstop fops nbn nun jn k d lo hi qq qd)
  | "GR", [dx; dy; dz; g; z; e1; e2; e3], _ ->
    let (_, l) = xf q in let (x1, l) = xf l in let (x2, l) = xf l in let (x3, _) = xf l in
    let body x e fx = (match fx with m :: cx :: cy :: cz :: r -> ((((m, ((cx, cy), cz)), x), e <> 0.0), r) | _ -> failwith "fixed") in
    let (b1, f1) = body x1 e1 fixed in let (b2, f2) = body x2 e2 f1 in let (b3, _) = body x3 e3 f2 in
    flat (ev_gravity fops nun ((dx, dy), dz) g z [b1; b2; b3])
  | _ -> failwith "law: bad arguments"

let rec parse_ops toks =
  match toks with
  | [] -> []
  | "R" :: r -> Report :: parse_ops r
  | "E" :: b :: r -> SetEnabled (float_of_string b <> 0.0) :: parse_ops r
  | "P" :: n :: r -> let (vs, r') = take (int_of_string n) r in SetPar (List.map float_of_string vs) :: parse_ops r'
  | "Q" :: n :: r -> let (vs, r') = take (int_of_string n) r in SetPos (List.map float_of_string vs) :: parse_ops r'
  | _ -> failwith "ops"

let () =
  try
    while true do
      let line = input_line stdin in
      (match toks line with
       | kind :: nb :: nu :: j :: nf :: rest ->
         (try
            let nb = int_of_string nb and nu = int_of_string nu and j = int_of_string j in
            let (fixed, rest) = take (int_of_string nf) rest in
            let fixed = List.map float_of_string fixed in
            (match rest with
             | np :: rest ->
               let (p0, rest) = take (int_of_string np) rest in
               let p0 = List.map float_of_string p0 in
               let ops = parse_ops rest in
               let off = List.init (nu + 6 * nb + 1) (fun _ -> 0.0) in
               let outs = hrun (law kind nb nu j fixed) off true { par = p0; pos = []; enabled = true; cache = None } ops in
               List.iter (fun o -> List.iter pf o; print_string "; ") outs
             | [] -> print_string "!short")
          with Failure m -> print_string ("!failure " ^ m))
       | _ -> ());
      print_newline ()
    done
  with End_of_file -> ()
