(* C40 driver for the extracted model (C40_Model.v); same case format as harness/C40_diff.cpp.
   Output: "<estimates, parameter-major> | <arguments of every perturbed call of f> | <per parameter: h, then per function: magnitude of f's terms>" *)
open C40_x
(*FOPS*)
let rec nat_of_int n = if n <= 0 then O else S (nat_of_int (n - 1))
let () = try while true do
  let line = input_line stdin in
  match toks line with [] -> () | io :: rest ->
  let q = ref rest in
  let nx () = match !q with x :: r -> q := r; x | [] -> failwith "args" in
  let nf () = float_of_string (nx ()) in
  let ni () = int_of_string (nx ()) in
  let ms = nx () in
  let _ = nf () in let acc = nf () in let cb = nf () in let _ = ni () in
  let n = ni () in let m = ni () in
  let co = Array.init (m * (1 + 4 * n)) (fun _ -> nf ()) in
  let y0 = List.init n (fun _ -> nf ()) in
  let eval absv j (yl : float list) =
    let y = Array.of_list yl in let ab x = if absv then abs_float x else x in
    let base = j * (1 + 4 * n) in let v = ref (ab co.(base)) in
    for i = 0 to n - 1 do
      let a = ab co.(base+1+4*i) and b = ab co.(base+2+4*i) and e = ab co.(base+3+4*i) and d = ab co.(base+4+4*i) in
      let yi = ab y.(i) in
      v := !v +. ((e *. yi +. b) *. yi +. a) *. yi;
      v := !v +. (d *. yi) *. (ab y.((i+1) mod n))
    done; !v in
  let order = if ms = "C" || ms = "UC" then 2 else 1 in
  let ordn = nat_of_int order in
  (match io.[0] with
   | 'S' -> let y = List.hd y0 in
            pf (diff_scalar fops ordn acc cb (fun t -> eval false 0 [t]) y (eval false 0 [y]))
   | 'G' -> List.iter pf (diff_grad fops ordn acc cb (fun yl -> eval false 0 yl) y0 (eval false 0 y0))
   | _ -> let f yl = List.init m (fun j -> eval false j yl) in
          List.iter (fun col -> List.iter pf col) (diff_jac fops ordn acc cb f y0 (f y0)));
  print_string "| ";
  let pts = eval_points fops ordn acc cb y0 in
  List.iter (fun p -> List.iter pf p) pts;
  print_string "| ";
  List.iteri (fun i yi ->
      let h = dstep fops ordn acc cb yi in pf h;
      let mine = List.filter (fun p -> List.nth p i <> yi || true) pts in
      for j = 0 to (if io.[0] = 'J' then m else 1) - 1 do
        let mag = List.fold_left (fun acc p -> max acc (eval true j p)) (eval true j y0) mine in pf mag
      done) y0;
  print_newline ()
done with End_of_file -> ()
