(* C41 driver for the extracted model (C41_Model.v + Gen/step_gen.v); same case format as harness/C41_func.cpp *)
open C41_x
(*FOPS*)
let rec nat_of_int n = if n <= 0 then O else S (nat_of_int (n - 1))
let () = try while true do
  let line = input_line stdin in
  match toks line with [] -> () | kind :: rest ->
  let q = ref rest in
  let nx () = match !q with x :: r -> q := r; x | [] -> failwith "args" in
  let nf () = float_of_string (nx ()) in
  let ni () = int_of_string (nx ()) in
  let rec many n f = if n <= 0 then [] else let v = f () in v :: many (n - 1) f in
  (match kind with
   | "K" -> let v = nf () in let n = ni () in let k = ni () in let dc = many k (fun () -> nat_of_int (ni ())) in
            let x = many n nf in pf (const_value v x); pf (const_deriv fops v dc x)
   | "L" -> let n = ni () in let c = many (n + 1) nf in let k = ni () in let dc = many k (fun () -> nat_of_int (ni ())) in
            let x = many n nf in pf (lin_value fops c x); pf (lin_deriv fops c dc x)
   | "P" -> let m = ni () in let c = many m nf in let k = ni () in let x = nf () in
            pf (poly_value fops c x); pf (poly_deriv fops c (nat_of_int k) x)
   | "S" -> let a = nf () in let w = nf () in let p = nf () in let k = ni () in let t = nf () in
            pf (sin_value fops a w p t); pf (sin_deriv fops a w p (nat_of_int k) t)
   | "T" -> let y0 = nf () in let y1 = nf () in let x0 = nf () in let x1 = nf () in let k = ni () in let x = nf () in
            if not (step_ok fops x0 x1) then print_string "EXC"
            else begin
              pf (step_value fops y0 y1 x0 x1 x);
              (match step_deriv fops y0 y1 x0 x1 (nat_of_int k) x with Some d -> pf d | None -> print_string "EXC")
            end
   | "A" -> let y0 = nf () in let yr = nf () in let x0 = nf () in let oox = nf () in let x = nf () in
            pf (k_stepAny fops y0 yr x0 oox x); pf (k_dstepAny fops yr x0 oox x);
            pf (k_d2stepAny fops yr x0 oox x); pf (k_d3stepAny fops yr x0 oox x)
   | _ -> print_string "?unknown");
  print_newline ()
done with End_of_file -> ()
