(* C41 spline driver for the extracted evaluator (C41_spline_Model.v).
   Input line:  <degree> <n> x1..xn c1..cn <ne> t1..tne ;  output: for each t the orders 0..degree+1 *)
open C41s_x
(*FOPS*)
let rec pos_of_int n = if n <= 1 then XH else if n land 1 = 0 then XO (pos_of_int (n lsr 1)) else XI (pos_of_int (n lsr 1))
let z_of_int n = if n = 0 then Z0 else if n > 0 then Zpos (pos_of_int n) else Zneg (pos_of_int (-n))
let () = try while true do
  let line = input_line stdin in
  match toks line with [] -> () | rest ->
  let q = ref rest in
  let nx () = match !q with x :: r -> q := r; x | [] -> failwith "args" in
  let nf () = float_of_string (nx ()) in
  let ni () = int_of_string (nx ()) in
  let degree = ni () in let n = ni () in
  let xs = List.init n (fun _ -> nf ()) in let cs = List.init n (fun _ -> nf ()) in
  let x0 = List.hd xs and xl = List.nth xs (n - 1) in
  let ne = ni () in
  for _ = 1 to ne do
    let t = nf () in
    (* GCVSPLUtil::splder: int interval = (int) ceil(n*(t-x[0])/(x[n-1]-x[0])) *)
    let guess = int_of_float (ceil (float_of_int n *. (t -. x0) /. (xl -. x0))) in
    for order = 0 to degree + 1 do
      pf (if order = 0 then spline_value fops (z_of_int degree) xs cs t (z_of_int guess)
          else spline_deriv fops (z_of_int degree) xs cs (z_of_int order) t (z_of_int guess))
    done
  done;
  print_newline ()
done with End_of_file -> ()
