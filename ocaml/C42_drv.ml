(* C42 driver for the extracted model (C42_model.ml): reads the same case lines as harness/C42_probe.cpp
   from stdin and prints the model's result in the same canonical form.
   case line:  nt (dof loopOk)*nt  nbod (mass mustBeBase)*nbod  nj (type parent child mustBeLoop)*nj *)
open C42_model

let rec nat_of_int n = if n <= 0 then O else S (nat_of_int (n-1))
let rec int_of_nat = function O -> 0 | S k -> 1 + int_of_nat k
let rec pos_of_int n = if n <= 1 then XH else if n land 1 = 0 then XO (pos_of_int (n lsr 1)) else XI (pos_of_int (n lsr 1))
let z_of_int n = if n = 0 then Z0 else if n > 0 then Zpos (pos_of_int n) else Zneg (pos_of_int (-n))

let pn b n = Buffer.add_char b ' '; Buffer.add_string b (string_of_int (int_of_nat n))
let pb b x = Buffer.add_string b (if x then " 1" else " 0")

let () =
  let out = Buffer.create (1 lsl 20) in
  (try
    while true do
      let line = input_line stdin in
      if String.length line > 0 then begin
        let toks = Array.of_list (List.filter (fun s -> s <> "") (String.split_on_char ' ' line)) in
        let pos = ref 0 in
        let next () = let v = int_of_string toks.(!pos) in incr pos; v in
        let rec rep n f = if n <= 0 then [] else let x = f () in x :: rep (n-1) f in
        let nt = next () in
        let types = rep nt (fun () -> let d = next () in let l = next () in { tdof = nat_of_int d; tloop = (l <> 0) }) in
        let nbod = next () in
        let bodies = rep nbod (fun () -> let m = next () in let b = next () in { bmass = z_of_int m; bbase = (b <> 0) }) in
        let nj = next () in
        let joints = rep nj (fun () -> let t = next () in let p = next () in let c = next () in let l = next () in
                                { ji_ty = nat_of_int t; ji_par = nat_of_int p; ji_chi = nat_of_int c; ji_loop = (l <> 0) }) in
        let inp = { in_types = types; in_bodies = bodies; in_joints = joints } in
        (match generate (defaultFuel inp) inp with
         | Ok g ->
           Buffer.add_string out "OK"; pn out g.g_nb;
           Buffer.add_string out " |"; pn out (nat_of_int (List.length g.g_joints));
           List.iter (fun j -> pn out j.jty; pn out j.jpar; pn out j.jchi; pb out j.jloop; pb out j.jadded) g.g_joints;
           Buffer.add_string out " |"; pn out (nat_of_int (List.length g.g_mobs));
           List.iter (fun m -> pn out m.mjoint; pn out m.mlevel; pn out m.minb; pn out m.moutb; pb out m.mrev) g.g_mobs;
           Buffer.add_string out " |"; pn out (nat_of_int (List.length g.g_cons));
           List.iter (fun c -> pn out c.cjoint; pn out c.cpar; pn out c.cchi; pn out c.ctype) g.g_cons;
           Buffer.add_string out " |"; pn out (nat_of_int (List.length g.g_slaves));
           List.iter (fun m -> pn out m) g.g_slaves;
           Buffer.add_string out " |";
           List.iter (fun l -> match l with Some k -> pn out k | None -> Buffer.add_string out " -1") g.g_levels
         | Error e ->
           let (k, i) = (match e with
             | EBadDof t -> ("BADDOF", t) | ENegMass b -> ("NEGMASS", b)
             | EBadType j -> ("BADTYPE", j) | EBadParent j -> ("BADPARENT", j) | EBadChild j -> ("BADCHILD", j)
             | EMasslessFree b -> ("MASSLESSFREE", b) | EMasslessDangling b -> ("MASSLESSDANGLING", b)
             | ETerminalMassless b -> ("TERMINALMASSLESS", b)) in
           Buffer.add_string out ("ERR " ^ k); pn out i
         | OutOfFuel -> Buffer.add_string out "OUTOFFUEL");
        Buffer.add_char out '\n';
        if Buffer.length out > (1 lsl 19) then (print_string (Buffer.contents out); Buffer.clear out)
      end
    done
  with End_of_file -> ());
  print_string (Buffer.contents out)
