(* C44 driver for the extracted model (C44_Model.v).  Case lines have the format of harness/C44_probe.cpp:
     PGS maxIters tol m A[m*m] D[m] verrStart[m] verrApplied[m] piExpand[m] nPart part.. nExp exp.. nU {k rows..}* nC {type Nk sign nF Fk.. mu}*
         nB {ix lb ub}* nS {nF Fk.. knownN mu}* nL {nF Fk.. nN Nk.. mu}*
       -> "OK converged its | pi[m] | verr_after[m] | conds in step order | wf"          (model of PGSImpulseSolver::solve, SOR 1.2)
     INV tol <same problem fields, maxIters and tol ignored> pi[m]
       -> "<inv_check tol> <resid_check tol on the unconditional rows> <wf>"               (certificate on a given impulse)   *)
open C44_x
(*FOPS*)
let rec nat_of_int n = if n <= 0 then O else S (nat_of_int (n - 1))
let rec int_of_nat = function O -> 0 | S k -> 1 + int_of_nat k
let rec z_of_pos_int n = if n = 1 then XH else if n land 1 = 0 then XO (z_of_pos_int (n lsr 1)) else XI (z_of_pos_int (n lsr 1))
let () = try while true do
  let line = input_line stdin in
  match toks line with [] -> () | kind :: rest ->
  if kind = "PGSB" || kind = "BIL" then begin
    (* PGSB maxIters tol m A nD D rhs nPart part..   -> model of PGSImpulseSolver::solveBilateral: "OK converged its | pi"
       BIL  tol      m A nD D rhs nPart part.. pi[m] -> "<bilateral_check tol>"  (certificate on a given impulse) *)
    let q = ref rest in
    let nx () = match !q with x :: r -> q := r; x | [] -> failwith "args" in
    let nf () = float_of_string (nx ()) in let ni () = int_of_string (nx ()) in
    let rec many n f = if n <= 0 then [] else let v = f () in v :: many (n - 1) f in
    let maxIters = if kind = "PGSB" then ni () else 0 in
    let tol = nf () in let m = ni () in
    let a = many m (fun () -> many m nf) in
    let nd = ni () in let d0 = many nd nf in let d = if nd = 0 then many m (fun () -> 0.0) else d0 in
    let rhs = many m nf in let part = many (ni ()) (fun () -> nat_of_int (ni ())) in
    if kind = "PGSB" then begin
      let ((((conv, its), pi), _), _) = pgs_bilateral fops (nat_of_int maxIters) part a d rhs tol 1.2 in
      Printf.printf "OK %d %d | " (if conv then 1 else 0) (int_of_nat its); List.iter pf pi
    end else begin
      let pi = many m nf in
      Printf.printf "%d" (if bilateral_check fops tol part a d rhs pi then 1 else 0)
    end;
    print_newline ()
  end else
  let q = ref rest in
  let nx () = match !q with x :: r -> q := r; x | [] -> failwith "args" in
  let nf () = float_of_string (nx ()) in
  let ni () = int_of_string (nx ()) in
  let rec many n f = if n <= 0 then [] else let v = f () in v :: many (n - 1) f in
  let nn () = nat_of_int (ni ()) in
  let invtol = if kind = "INV" then nf () else 0.0 in
  let maxIters = ni () in let tol = nf () in let m = ni () in
  let a = many m (fun () -> many m nf) in
  let d = many m nf in let vs = many m nf in let va = many m nf in let pie = many m nf in
  let part = many (ni ()) nn in let expd = many (ni ()) nn in
  let unconds = many (ni ()) (fun () -> SUncond (many (ni ()) nn)) in
  let contacts = many (ni ()) (fun () -> let ty = ni () in let nk = nn () in let sign = nf () in let fk = many (ni ()) nn in let mu = nf () in (ty, nk, sign, fk, mu)) in
  let bnd = many (ni ()) (fun () -> let ix = nn () in let lb = nf () in let ub = nf () in SBounded (ix, lb, ub)) in
  let stl = many (ni ()) (fun () -> let fk = many (ni ()) nn in let kn = nf () in let mu = nf () in SState (fk, mu, kn)) in
  let cnl = many (ni ()) (fun () -> let fk = many (ni ()) nn in let nk = many (ni ()) nn in let mu = nf () in SCons (fk, nk, mu)) in
  let normals = List.concat (List.map (fun (ty, nk, sign, _, _) -> if ty = 2 then [SNormal (nk, sign)] else []) contacts) in
  let frics = List.concat (List.map (fun (ty, nk, _, fk, mu) -> if ty <> 0 && fk <> [] then [SFric (fk, nk, mu)] else []) contacts) in
  let steps = unconds @ normals @ frics @ bnd @ stl @ cnl in
  let wf = steps_wfb fops (nat_of_int m) steps in
  let rhs = make_rhs fops a d vs va pie expd (nat_of_int m) in
  (match kind with
   | "PGS" ->
       let ((((conv, its), pi), conds), _) = pgs_solve fops (nat_of_int maxIters) part a d vs va pie expd tol 1.2 steps in
       Printf.printf "OK %d %d | " (if conv then 1 else 0) (int_of_nat its);
       List.iter pf pi; print_string "| ";
       List.iter pf (final_verr fops a d rhs pi (nat_of_int m)); print_string "| ";
       List.iter (fun c -> Printf.printf "%d " (int_of_nat c)) (List.rev conds);
       Printf.printf "| %d" (if wf then 1 else 0)
   | "INV" ->
       let pi = many m nf in
       let urows = List.concat (List.map (function SUncond r -> r | _ -> []) unconds) in
       Printf.printf "%d %d %d" (if inv_check fops invtol pie steps pi then 1 else 0)
         (if resid_check fops invtol part a d rhs pi urows then 1 else 0) (if wf then 1 else 0)
   | _ -> print_string "?unknown");
  print_newline ()
done with End_of_file -> ()
