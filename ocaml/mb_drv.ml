(* Driver for the extracted tree-algorithm model (coq/Lib/MBRun.v).  Reads the systems printed by
   harness/mb_probe.cpp (inputs only; OUT lines are ignored) and prints the model's OUT lines.
   Prepended at build time:  open Mbrun  +  ocaml/fops.inc *)
let rec nat_of_int n = if n <= 0 then O else S (nat_of_int (n - 1))
let rec int_of_nat = function O -> 0 | S n -> 1 + int_of_nat n
let fl = float_of_string
let v3 a b c = ((a, b), c)
let sv a b c d e f = (v3 a b c, v3 d e f)
let pr_sv ((((a, b), c), ((d, e), f))) = Printf.printf " %h %h %h %h %h %h" a b c d e f
let pr_list l = List.iter (fun x -> Printf.printf " %h" x) l
let rec take n l = if n = 0 then [] else match l with [] -> [] | x :: r -> x :: take (n - 1) r
let rec drop n l = if n = 0 then l else match l with [] -> [] | _ :: r -> drop (n - 1) r
let slice l a n = take n (drop a l)

type body = { idx : int; par : int; nu : int; u0 : int; l : (float * float) * float;
              m : float; p : (float * float) * float; ine : ((float * float) * float) * ((float * float) * float);
              mutable h : (((float * float) * float) * ((float * float) * float)) list }

let () =
  let bodies = ref [] and u = ref [] and w = ref [] and ud = ref [] and fb = Hashtbl.create 16
  and cor = Hashtbl.create 16 and tasks = ref [] and nu = ref 0 in
  let reset () = bodies := []; u := []; w := []; ud := []; Hashtbl.reset fb; Hashtbl.reset cor; tasks := []; nu := 0 in
  let finish () =
    let bl = List.rev !bodies in
    Printf.printf "SYS %d %d 0\n" (List.length bl + 1) !nu;
    let zero = sv 0. 0. 0. 0. 0. 0. in
    let get tbl i = try Hashtbl.find tbl i with Not_found -> zero in
    let mk b = { b_idx = nat_of_int b.idx; b_par = nat_of_int b.par;
                 b_nd = { n_l = b.l; n_H = List.rev b.h; n_M = ((b.m, b.p), b.ine) };
                 b_u = slice !u b.u0 b.nu; b_w = slice !w b.u0 b.nu; b_ud = slice !ud b.u0 b.nu;
                 b_F = get fb b.idx; b_cor = get cor b.idx } in
    let t = mkTree fops (get fb 0) (List.map mk bl) in
    let byidx l = List.sort (fun (a, _) (b, _) -> compare a b) (List.map (fun (i, x) -> (int_of_nat i, x)) l) in
    let out_sv tag l = List.iter (fun (i, v) -> Printf.printf "OUT %s %d" tag i; pr_sv v; print_newline ()) (byidx l) in
    let out_cat tag l = Printf.printf "OUT %s" tag; List.iter (fun (_, v) -> pr_list v) (byidx l); print_newline () in
    let cat l = List.concat (List.map snd (byidx l)) in
    out_sv "VEL" (out_vel fops t);
    let jw = out_jw fops t in
    out_sv "JW" jw;
    out_cat "JTF" (out_jtf fops t);
    let bias = out_bias fops t in
    out_sv "BIAS" bias;
    out_sv "ACC" (out_acc fops t);
    let jwi = byidx jw in
    let tl = List.rev !tasks in
    List.iter (fun (i, b, p, _, _) -> let (_, lin) = frame_of fops p (List.assoc b jwi) in
                let ((x, y), z) = lin in Printf.printf "OUT STJ %d %h %h %h\n" i x y z) tl;
    let addsv = fun a b -> let ((((a0,a1),a2),((a3,a4),a5))) = a and ((((b0,b1),b2),((b3,b4),b5))) = b in
                sv (a0+.b0) (a1+.b1) (a2+.b2) (a3+.b3) (a4+.b4) (a5+.b5) in
    let force_of f = fun (x : float bx) -> let i = int_of_nat x.b_idx in
        List.fold_left (fun acc (ti, b, p, fv, fF) -> if b = i then addsv acc (f p fv fF) else acc) zero tl in
    out_cat "STJT" (out_jt_custom fops (force_of (fun p fv _ -> station_force fops p fv)) t);
    List.iter (fun (i, b, p, _, _) -> Printf.printf "OUT FRJ %d" i; pr_sv (frame_of fops p (List.assoc b jwi)); print_newline ()) tl;
    out_cat "FRJT" (out_jt_custom fops (force_of (fun p _ fF -> frame_force fops p fF)) t);
    (* station / frame bias: the task acceleration expression at the body's bias acceleration and current velocity *)
    let veli = byidx (out_vel fops t) and biasi = byidx bias in
    List.iter (fun (i, b, p, _, _) -> let fa = frame_acc fops p (List.assoc b veli) (List.assoc b biasi) in
                let (_, ((x, y), z)) = fa in Printf.printf "OUT STB %d %h %h %h\n" i x y z;
                Printf.printf "OUT FRB %d" i; pr_sv fa; print_newline ()) tl;
    out_sv "JMATW" jw;
    let mw = cat (out_mw fops t) in
    Printf.printf "OUT MW"; pr_list mw; print_newline ();
    (* columns of M from the operator applied to unit vectors *)
    let n = !nu in
    let tbl = Hashtbl.create 16 in List.iter (fun b -> Hashtbl.replace tbl b.idx (b.u0, b.nu)) bl;
    let col k = cat (out_mcol fops (fun (x : float bx) -> let i = int_of_nat x.b_idx in
                  match Hashtbl.find_opt tbl i with None -> [] | Some (u0, nn) -> List.init nn (fun j -> if u0 + j = k then 1.0 else 0.0)) t) in
    let cols = Array.init n col in
    let wv = Array.of_list !w in
    Printf.printf "OUT MMATW"; for i = 0 to n - 1 do
      let s = ref 0.0 in for k = 0 to n - 1 do s := !s +. (List.nth cols.(k) i) *. wv.(k) done; Printf.printf " %h" !s done; print_newline ();
    for i = 0 to n - 1 do Printf.printf "OUT MROW %d" i; for k = 0 to n - 1 do Printf.printf " %h" (List.nth cols.(k) i) done; print_newline () done;
    Printf.printf "OUT KE %h\n" (0.5 *. out_ke2 fops t);
    print_endline "END" in
  try while true do
    let line = input_line stdin in
    match toks line with
    | "SYS" :: _ :: n :: _ -> reset (); nu := int_of_string n
    | "BODY" :: i :: p :: n :: u0 :: _ :: _ :: r ->
        let f = Array.of_list (List.map fl r) in
        bodies := { idx = int_of_string i; par = int_of_string p; nu = int_of_string n; u0 = int_of_string u0;
                    l = v3 f.(0) f.(1) f.(2); m = f.(3); p = v3 f.(4) f.(5) f.(6);
                    ine = (v3 f.(7) f.(8) f.(9), v3 f.(10) f.(11) f.(12)); h = [] } :: !bodies
    | "H" :: _ :: _ :: r -> let f = Array.of_list (List.map fl r) in
        (match !bodies with b :: _ -> b.h <- sv f.(0) f.(1) f.(2) f.(3) f.(4) f.(5) :: b.h | [] -> ())
    | "U" :: r -> u := List.map fl r
    | "W" :: r -> w := List.map fl r
    | "UD" :: r -> ud := List.map fl r
    | "FB" :: i :: r -> let f = Array.of_list (List.map fl r) in Hashtbl.replace fb (int_of_string i) (sv f.(0) f.(1) f.(2) f.(3) f.(4) f.(5))
    | "COR" :: i :: r -> let f = Array.of_list (List.map fl r) in Hashtbl.replace cor (int_of_string i) (sv f.(0) f.(1) f.(2) f.(3) f.(4) f.(5))
    | "TASK" :: i :: b :: r -> let f = Array.of_list (List.map fl r) in
        tasks := (int_of_string i, int_of_string b, v3 f.(0) f.(1) f.(2), v3 f.(3) f.(4) f.(5), sv f.(6) f.(7) f.(8) f.(9) f.(10) f.(11)) :: !tasks
    | "END" :: _ -> finish ()
    | "SKIP" :: _ -> print_endline "SKIP"
    | _ -> ()
  done with End_of_file -> ()
