#!/usr/bin/env python3
"""C16: scan the force-element / force-subsystem / matter-subsystem sources of the tree under test and regenerate the
per-class dependency facts used by the C16 model (coq/Gen/C16_table_gen.v, coq/Gen/C16_table.json).

Careful textual scan (no clang): for every built-in force element class
  * dependsOnlyOnPositions(): the `return true/false` of the override inside the Impl class body (default false),
  * the invalidated stage of every discrete variable allocated by the class (allocateDiscreteVariable(s, Stage::X, ...)),
  * which state quantities calcForce reads (accessor names for q-, u-, time-, z-dependent quantities),
for Force::Gravity the stage of its Parameters variable, the depends-on stage of its lazy force cache and, per setter,
whether it calls invalidateForceCache (directly or through setMobodIsImmune) and whether it is guarded by a != test,
for GeneralForceSubsystem the stage of the force-enabled flags, the stages whose realization resets
cachedForcesAreValid and the stage that fills the cache, and for SimbodyMatterSubsystem the stages of the Model /
Instance variables and the five allocateCacheEntryWithPrerequisites declarations.
Anything that cannot be found is reported as a failure (exit 3): the table is then "no longer shown".
"""
import os, re, sys, json
REPO = os.environ.get('VERIF_REPO', '/repo')
OUT = '/verif/coq/Gen'
STAGE = {'Empty': 0, 'Topology': 1, 'Model': 2, 'Instance': 3, 'Time': 4, 'Position': 5, 'Velocity': 6, 'Dynamics': 7,
         'Acceleration': 8, 'Report': 9, 'Infinity': 10}
src = lambda p: open(os.path.join(REPO, 'Simbody', 'src', p)).read()

def strip_comments(t):
    t = re.sub(r'/\*.*?\*/', lambda m: re.sub(r'[^\n]', ' ', m.group(0)), t, flags=re.S)
    return re.sub(r'//[^\n]*', '', t)

def block_from(t, start):
    """text of the brace block whose '{' is the first one at or after index start"""
    i = t.index('{', start); d = 0
    for j in range(i, len(t)):
        if t[j] == '{': d += 1
        elif t[j] == '}':
            d -= 1
            if d == 0: return t[i:j + 1]
    raise ValueError('unbalanced braces')

Q_ACC = r'getOneQ\b|getBodyTransform|getBodyRotation|getBodyOriginLocation|findStationLocationInGround|getMobilizerTransform|\bgetQ\s*\(|getBodyMassCenterStation|findBodyTransformInAnotherBody|findStationLocationInAnotherBody|expressVectorInGroundFrame|getPositionCache|ensurePositionCacheValid'
U_ACC = r'getOneU\b|getOneQDot|getBodyVelocity|getBodyAngularVelocity|getBodyOriginVelocity|findStationVelocityInGround|getMobilizerVelocity|\bgetU\s*\(|\bgetQDot\s*\(|findBodyVelocityInAnotherBody|getVelocityCache|ensureVelocityCacheValid|ensureForceCacheValid'
T_ACC = r'getTime\s*\('
Z_ACC = r'\bgetZ\s*\(|getDissipatedEnergyVar'

# (class id, name, file with the Impl class, file with calcForce)
CLASSES = [
    (0, 'TwoPointLinearSpring', 'ForceImpl.h', 'Force.cpp'),
    (1, 'TwoPointLinearDamper', 'ForceImpl.h', 'Force.cpp'),
    (2, 'TwoPointConstantForce', 'ForceImpl.h', 'Force.cpp'),
    (3, 'MobilityLinearSpring', 'ForceImpl.h', 'Force.cpp'),
    (4, 'MobilityLinearDamper', 'ForceImpl.h', 'Force.cpp'),
    (5, 'MobilityConstantForce', 'ForceImpl.h', 'Force.cpp'),
    (6, 'MobilityLinearStop', 'ForceImpl.h', 'Force.cpp'),
    (7, 'MobilityDiscreteForce', 'ForceImpl.h', 'Force.cpp'),
    (8, 'DiscreteForces', 'ForceImpl.h', 'Force.cpp'),
    (9, 'ConstantForce', 'ForceImpl.h', 'Force.cpp'),
    (10, 'ConstantTorque', 'ForceImpl.h', 'Force.cpp'),
    (11, 'GlobalDamper', 'ForceImpl.h', 'Force.cpp'),
    (12, 'UniformGravity', 'ForceImpl.h', 'Force.cpp'),
    (13, 'LinearBushing', 'Force_LinearBushing.cpp', 'Force_LinearBushing.cpp'),
]
# ids 14, 15: the harness's own Custom elements (position-only counter / velocity-dependent counter): by construction
CUSTOM = {14: dict(name='Custom(position-only)', pos=True, par=[], rq=True, ru=False, rt=False, rz=False, zd=False),
          15: dict(name='Custom(velocity-dependent)', pos=False, par=[], rq=True, ru=True, rt=False, rz=False, zd=False)}

def scan_class(cid, name, hfile, cfile, fails):
    h = strip_comments(src(hfile)); c = strip_comments(src(cfile))
    m = re.search(r'class\s+(?:Force::)?%sImpl\b[^;{]*\{' % name, h)
    if not m: fails.append((name, 'Impl class not found in ' + hfile)); return None
    body = block_from(h, m.start())
    pm = re.search(r'bool\s+dependsOnlyOnPositions\s*\(\s*\)\s*const\s*(?:override)?\s*\{\s*return\s+(true|false)\s*;\s*\}', body)
    if 'dependsOnlyOnPositions' in body and not pm:
        fails.append((name, 'dependsOnlyOnPositions override not of the form { return true/false; }')); return None
    pos = bool(pm and pm.group(1) == 'true')
    # discrete variables: in the class body and in an out-of-line realizeTopology
    texts = [body]
    rm = re.search(r'%sImpl::\s*realizeTopology\s*\(' % name, c)
    if rm: texts.append(block_from(c, rm.start()))
    par = []
    for t in texts:
        for mm in re.finditer(r'allocate(AutoUpdate)?DiscreteVariable\s*\(\s*\w+\s*,\s*Stage::(\w+)', t):
            par.append(STAGE[mm.group(2)])
    cm = re.search(r'%sImpl::\s*calcForce\s*\(' % name, c)
    if not cm: fails.append((name, 'calcForce definition not found in ' + cfile)); return None
    cf = block_from(c, cm.start())
    # one level of same-class helpers called from calcForce
    for hm in set(re.findall(r'\b(ensure\w+|calc\w+Cache\w*)\s*\(', cf)):
        dm = re.search(r'%sImpl::\s*%s\s*\(' % (name, hm), c)
        if dm: cf += block_from(c, dm.start())
    # does one of its own realize methods write a z-derivative?
    zd = False
    for meth in ('realizeDynamics', 'realizeAcceleration'):
        for t in (body, c):
            for mm in re.finditer(r'(?:%sImpl::\s*)?\b%s\s*\(\s*const\s+State' % (name, meth), t):
                try: b = block_from(t, mm.start())
                except ValueError: continue
                if t is c and not re.search(r'%sImpl::\s*%s' % (name, meth), t[max(0, mm.start() - 80):mm.end()]) and hfile != cfile: continue
                if re.search(r'updZDot|ZDot\s*\(|EnergyDeriv\s*\(', b): zd = True
    return dict(name=name, pos=pos, par=par, rq=bool(re.search(Q_ACC, cf)), ru=bool(re.search(U_ACC, cf)),
                rt=bool(re.search(T_ACC, cf)), rz=bool(re.search(Z_ACC, cf)), zd=zd)

def scan_gravity(fails):
    t = strip_comments(src('Force_Gravity.cpp'))
    m = re.search(r'allocateDiscreteVariable\s*\(\s*s\s*,\s*Stage::(\w+)\s*,\s*new\s+Value<Parameters>', t)
    c = re.search(r'forceCacheIx\s*=\s*getForceSubsystem\(\)\s*\.\s*allocateLazyCacheEntry\s*\(\s*s\s*,\s*Stage::(\w+)', t)
    if not m or not c: fails.append(('Gravity', 'parameter variable / lazy force cache allocation not found')); return None
    imm = re.search(r'void\s+setMobodIsImmune\s*\(State&', t)
    imm_inval = bool(imm and 'invalidateForceCache' in block_from(t, imm.start()))
    sets = []
    for s in ('setBodyIsExcluded', 'setMagnitude', 'setDownDirection', 'setZeroHeight'):
        sm = re.search(r'Force::Gravity::\s*%s\s*\(\s*State&' % s, t)
        if not sm: fails.append(('Gravity', s + ' not found')); return None
        b = block_from(t, sm.start())
        inval = 'invalidateForceCache' in b or ('setMobodIsImmune' in b and imm_inval)
        # guarded: every write of the parameters is inside an `if (get...(state...) != ...)`
        guarded = bool(re.search(r'if\s*\(\s*get\w+\(state[^)]*\)\s*!=', b))
        sets.append((inval, guarded))
    return dict(inv=STAGE[m.group(1)], dep=STAGE[c.group(1)], sets=sets)

def scan_fsub(fails):
    t = strip_comments(src('GeneralForceSubsystem.cpp'))
    m = re.search(r'forceEnabledIndex\s*=\s*allocateDiscreteVariable\s*\(\s*s\s*,\s*Stage::(\w+)', t)
    if not m: fails.append(('GeneralForceSubsystem', 'forceEnabledIndex allocation not found')); return None
    resets = []; fills = []
    for g in ('Instance', 'Time', 'Position', 'Velocity', 'Dynamics', 'Acceleration', 'Report'):
        rm = re.search(r'int\s+realizeSubsystem%sImpl\s*\(' % g, t)
        if not rm: fails.append(('GeneralForceSubsystem', 'realizeSubsystem%sImpl not found' % g)); return None
        b = block_from(t, rm.start())
        if re.search(r'updCacheEntry\s*\(\s*s\s*,\s*cachedForcesAreValidCacheIndex\s*\)\s*\)\s*=\s*false', b): resets.append(STAGE[g])
        if re.search(r'cachedForcesAreValid\s*=\s*true', b): fills.append(STAGE[g])
    if len(fills) != 1: fails.append(('GeneralForceSubsystem', 'stage filling the position-only cache not unique: %s' % fills)); return None
    # are the subsystem's z-derivatives cleared in realizeSubsystemDynamicsImpl before any element is realized / evaluated?
    db = block_from(t, re.search(r'int\s+realizeSubsystemDynamicsImpl\s*\(', t).start())
    zc = re.search(r'updZDot\s*\(\s*s\s*\)\s*(\.\s*setToZero\s*\(\s*\)|=\s*(Real\s*\(\s*)?0)', db)
    first_use = re.search(r'calcForcesTask|realizeDynamics\s*\(', db)
    zdot_cleared = bool(zc and (first_use is None or zc.start() < first_use.start()))
    return dict(en_inv=STAGE[m.group(1)], flag_dep=max(resets) if resets else 10, flag_by=fills[0], resets=resets, zdot_cleared=zdot_cleared)

def scan_matter(fails):
    t = strip_comments(src('SimbodyMatterSubsystemRep.cpp'))
    mv = re.search(r'allocateDiscreteVariable\s*\(\s*s\s*,\s*Stage::(\w+)\s*,\s*new\s+Value<SBModelVars>', t)
    iv = re.search(r'allocateDiscreteVariable\s*\(\s*s\s*,\s*Stage::(\w+)\s*,\s*new\s+Value<SBInstanceVars>', t)
    if not mv or not iv: fails.append(('SimbodyMatterSubsystem', 'SBModelVars / SBInstanceVars allocation not found')); return None
    names = ['treePosition', 'treeVelocity', 'compositeBodyInertia', 'articulatedBodyInertia', 'articulatedBodyVelocity']
    caches = []
    for n in names:
        m = re.search(r'tc\.%sCacheIndex\s*=\s*s\.allocateCacheEntryWithPrerequisites\s*\(\s*getMySubsystemIndex\(\)\s*,\s*Stage::(\w+)\s*,\s*Stage::(\w+)\s*,'
                      r'\s*(true|false)\s*,\s*(true|false)\s*,\s*(true|false)\s*,\s*\{\s*\}\s*,\s*\{(.*?)\}\s*,\s*new' % n, t, re.S)
        if not m: fails.append(('SimbodyMatterSubsystem', n + 'Cache allocation not of the expected form')); return None
        ces = [names.index(x) for x in re.findall(r'tc\.(\w+)CacheIndex', m.group(6))]
        caches.append(dict(name=n, dep=STAGE[m.group(1)], by=STAGE[m.group(2)], q=m.group(3) == 'true', u=m.group(4) == 'true',
                           z=m.group(5) == 'true', ces=ces))
    return dict(opt_inv=STAGE[mv.group(1)], inst_inv=STAGE[iv.group(1)], caches=caches)

def scan_state(fails):
    """stages invalidated by updTime / updQ / updU / updZ (StateImpl.h)"""
    t = strip_comments(open(os.path.join(REPO, 'SimTKcommon/Simulation/include/SimTKcommon/internal/StateImpl.h')).read())
    out = {}
    for nm, fn in (('t', 'updTime'), ('q', 'updQ'), ('u', 'updU'), ('z', 'updZ')):
        m = re.search(r'\b%s\s*\(\s*\)\s*\{' % fn, t)
        if not m: fails.append(('State', fn + ' not found')); return None
        b = block_from(t, m.start())
        g = re.search(r'invalidateAll\s*\(\s*Stage::(\w+)\s*\)', b)
        if not g: fails.append(('State', fn + ': invalidateAll(Stage::X) not found')); return None
        out[nm] = STAGE[g.group(1)]
    return out

def coq_bool(b): return 'true' if b else 'false'
def coq_list(l): return '[' + '; '.join(str(x) for x in l) + ']'

def main():
    fails = []
    classes = {}
    for cid, name, hf, cf in CLASSES:
        try: r = scan_class(cid, name, hf, cf, fails)
        except Exception as e: fails.append((name, 'scan error: %r' % e)); r = None
        if r: classes[cid] = r
    classes.update(CUSTOM)
    try: grav = scan_gravity(fails); fs = scan_fsub(fails); mat = scan_matter(fails); stv = scan_state(fails)
    except Exception as e: fails.append(('scan', repr(e))); grav = fs = mat = stv = None
    os.makedirs(OUT, exist_ok=True)
    meta = dict(source=REPO, classes={str(k): v for k, v in classes.items()}, gravity=grav, fsub=fs, matter=mat, state=stv,
                failed=[list(f) for f in fails])
    json.dump(meta, open(os.path.join(OUT, 'C16_table.json'), 'w'), indent=1, sort_keys=True)
    if fails or len(classes) != len(CLASSES) + len(CUSTOM):
        # leave a file that does not define code_now, so the theorems about the code's table cannot build
        open(os.path.join(OUT, 'C16_table_gen.v'), 'w').write('(* C16 table scan FAILED: %s *)\n' % '; '.join('%s: %s' % tuple(f) for f in fails).replace('*)', '* )'))
        print('C16_table: FAILED', fails); sys.exit(3)
    L = ['(* GENERATED by translate/C16_table.py from %s -- do not edit *)' % REPO,
         'From Coq Require Import List.', 'Import ListNotations.', 'Require Import C16_Model.', '',
         'Definition code_classes : list eclass := [']
    ids = sorted(classes)
    assert ids == list(range(len(ids)))
    for k in ids:
        c = classes[k]
        L.append('  mkE %s %s %s %s %s %s %s%s   (* %d %s *)' % (coq_bool(c['pos']), coq_list(c['par']), coq_bool(c['rq']), coq_bool(c['ru']),
                                                              coq_bool(c['rt']), coq_bool(c['rz']), coq_bool(c['zd']), ';' if k != ids[-1] else ' ', k, c['name']))
    L.append('].')
    L.append('Definition code_grav : gravdesc := mkG %d %d [%s].' % (grav['inv'], grav['dep'], '; '.join('(%s,%s)' % (coq_bool(a), coq_bool(b)) for a, b in grav['sets'])))
    L.append('Definition code_fsub : fsdesc := mkF %d %d %d %s.' % (fs['en_inv'], fs['flag_dep'], fs['flag_by'], coq_bool(fs['zdot_cleared'])))
    L.append('Definition code_matter : mdesc := mkMD %d %d [%s].' % (mat['opt_inv'], mat['inst_inv'], '; '.join(
        'mkMC %d %d %s %s %s %s' % (c['dep'], c['by'], coq_bool(c['q']), coq_bool(c['u']), coq_bool(c['z']), coq_list(c['ces'])) for c in mat['caches'])))
    L.append('Definition code_now : code := mkCode code_classes code_grav code_fsub code_matter %d %d %d %d.' % (stv['t'], stv['q'], stv['u'], stv['z']))
    txt = '\n'.join(L) + '\n'; gen = os.path.join(OUT, 'C16_table_gen.v')
    if not (os.path.exists(gen) and open(gen).read() == txt):   # keep the time stamp when nothing changed: no re-proving
        open(gen, 'w').write(txt)
    print('C16_table: %d classes, gravity %s, fsub %s' % (len(classes), grav, fs))

if __name__ == '__main__':
    main()
