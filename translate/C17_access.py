#!/usr/bin/env python3
"""C17: extract the memory-access table of the force-calculation tasks from the source of the tree under test
(Simbody/src/GeneralForceSubsystem.cpp) and regenerate coq/Gen/C17_access_gen.v and coq/Gen/C17_access.json.

For each of the two task classes (CalcForcesParallelTask, CalcForcesNonParallelTask), each mode of `switch (m_mode)` in
execute() (All, CachedAndNonCached, NonCached), each role (`threadIndex == NonParallelForcesIndex` branch = task 0, the
else branch = one parallel element) and each element class (dependsOnlyOnPositions() true / false) the array the
element's calcForce() accumulates into:
    LocalF  (m_rigidBodyForcesLocal[Static])      LocalC  (m_rigidBodyForceCacheLocal[Static])
    SharedF (*m_rigidBodyForces)                  SharedC (*m_rigidBodyForceCache)            or no call at all;
from finish() which local arrays are added to which shared arrays (always / only in mode CachedAndNonCached); from
initialize() which local arrays are zeroed; whether the local arrays are `static thread_local`; and from
realizeSubsystemTopologyImpl whether the non-parallel task forces a single-threaded executor, and from
setNumberOfThreads whether it can replace that executor afterwards without invalidating the topology.
Careful textual scan; anything not of the expected shape is a failure (exit 3) and leaves no usable table."""
import os, re, sys, json
REPO = os.environ.get('VERIF_REPO', '/repo')
OUT = '/verif/coq/Gen'
SRC = os.path.join(REPO, 'Simbody', 'src', 'GeneralForceSubsystem.cpp')

def strip_comments(t):
    t = re.sub(r'/\*.*?\*/', lambda m: re.sub(r'[^\n]', ' ', m.group(0)), t, flags=re.S)
    return re.sub(r'//[^\n]*', '', t)
def block_from(t, start):
    i = t.index('{', start); d = 0
    for j in range(i, len(t)):
        if t[j] == '{': d += 1
        elif t[j] == '}':
            d -= 1
            if d == 0: return t[i:j + 1], j + 1
    raise ValueError('unbalanced braces')

TARGET = [(r'\*\s*m_rigidBodyForceCache\b', 'SharedC'), (r'\*\s*m_rigidBodyForces\b', 'SharedF'),
          (r'\bm_rigidBodyForceCacheLocal(Static)?\b', 'LocalC'), (r'\bm_rigidBodyForcesLocal(Static)?\b', 'LocalF')]
def target_of(args):
    """classify the array triple passed to calcForce by its first (rigid body) array; the three arrays must be of the same kind"""
    parts = [a.strip() for a in args.split(',')]
    if len(parts) != 4: raise ValueError('calcForce call with %d arguments' % len(parts))
    kinds = []
    for a, names in zip(parts[1:], (('rigidBody',), ('particle',), ('mobility',))):
        k = None
        for rx, nm in TARGET:
            if re.fullmatch(rx.replace('rigidBody', names[0]), a): k = nm; break
        if k is None: raise ValueError('unrecognised calcForce target "%s"' % a)
        kinds.append(k)
    if len(set(kinds)) != 1: raise ValueError('calcForce arrays of mixed kinds %s' % kinds)
    return kinds[0]

def calls_in(branch):
    """{pos(True/False): target or None} for one role branch of one mode"""
    res = {True: None, False: None}
    t = branch
    # guarded calls
    pos_if = re.search(r'if\s*\(\s*(!?)\s*impl\s*\.\s*dependsOnlyOnPositions\s*\(\s*\)\s*\)', t)
    def call_target(txt):
        m = re.search(r'calcForce\s*\(([^;]*?)\)\s*;', txt, re.S)
        return target_of(m.group(1)) if m else None
    if not pos_if:
        k = call_target(t)
        if len(re.findall(r'calcForce\s*\(', t)) > 1: raise ValueError('several unguarded calcForce calls')
        res[True] = res[False] = k
        return res
    neg = pos_if.group(1) == '!'
    thenb, endp = block_from(t, pos_if.end())
    rest = t[endp:]
    em = re.match(r'\s*else\b', rest)
    elseb = block_from(rest, em.end())[0] if em else ''
    if len(re.findall(r'calcForce\s*\(', t)) != len(re.findall(r'calcForce\s*\(', thenb + elseb)): raise ValueError('calcForce call outside the guarded blocks')
    res[not neg] = call_target(thenb)
    res[neg] = call_target(elseb) if elseb else None
    return res

def scan_task(t, cls, fails):
    m = re.search(r'class\s+%s\b[^{;]*\{' % cls, t)
    if not m: fails.append((cls, 'class not found')); return None
    body, _ = block_from(t, m.start())
    em = re.search(r'void\s+execute\s*\(\s*int\s+threadIndex\s*\)\s*override', body)
    fm = re.search(r'void\s+finish\s*\(\s*\)\s*override', body)
    im = re.search(r'void\s+initialize\s*\(\s*\)\s*override', body)
    if not (em and fm and im): fails.append((cls, 'execute/finish/initialize not found')); return None
    ex, _ = block_from(body, em.end()); fi, _ = block_from(body, fm.end()); ini, _ = block_from(body, im.end())
    sw = re.search(r'switch\s*\(\s*m_mode\s*\)', ex)
    if not sw: fails.append((cls, 'switch (m_mode) not found in execute')); return None
    swb, _ = block_from(ex, sw.end())
    table = {}
    cases = list(re.finditer(r'case\s+(All|CachedAndNonCached|NonCached)\s*:', swb))
    if [c.group(1) for c in cases] != ['All', 'CachedAndNonCached', 'NonCached']: fails.append((cls, 'cases of switch (m_mode) are not All, CachedAndNonCached, NonCached')); return None
    for k, c in enumerate(cases):
        seg = swb[c.end(): cases[k + 1].start() if k + 1 < len(cases) else len(swb) - 1]
        rm = re.search(r'if\s*\(\s*threadIndex\s*==\s*NonParallelForcesIndex\s*\)', seg)
        if not rm: fails.append((cls, 'role test not found in case ' + c.group(1))); return None
        t0, endp = block_from(seg, rm.end())
        rest = seg[endp:]; e2 = re.match(r'\s*else\b', rest)
        wk = block_from(rest, e2.end())[0] if e2 else ''
        if re.search(r'calcForce\s*\(', rest[len(wk) + (e2.end() if e2 else 0):]) if e2 else re.search(r'calcForce\s*\(', rest):
            fails.append((cls, 'calcForce call outside the role branches in case ' + c.group(1))); return None
        try:
            table[c.group(1)] = {'task0': calls_in(t0), 'worker': calls_in(wk) if wk else {True: None, False: None}}
        except ValueError as e:
            fails.append((cls, 'case %s: %s' % (c.group(1), e))); return None
    # finish: unconditional adds and adds under if (m_mode == CachedAndNonCached)
    def adds(txt):
        out = []
        for mm in re.finditer(r'(\*\s*m_(\w+?)\s*)\+=\s*(m_\w+)\s*;', txt):
            dst = 'SharedC' if 'Cache' in mm.group(2) else 'SharedF'; srcn = mm.group(3)
            src = 'LocalC' if 'CacheLocal' in srcn else 'LocalF' if 'ForcesLocal' in srcn else None
            if src is None: raise ValueError('finish adds unknown array ' + srcn)
            out.append((src, dst))
        return sorted(set(out))
    try:
        cm = re.search(r'if\s*\(\s*m_mode\s*==\s*CachedAndNonCached\s*\)', fi)
        cnc = adds(block_from(fi, cm.end())[0]) if cm else []
        always = adds(fi[:cm.start()] if cm else fi)
        if len(re.findall(r'\+=', fi)) != 3 * (len(always) + len(cnc)): raise ValueError('finish(): unexpected accumulation statements')
        cm2 = re.search(r'if\s*\(\s*m_mode\s*==\s*CachedAndNonCached\s*\)', ini)
        zero_always = sorted(set('LocalC' if 'CacheLocal' in z else 'LocalF' for z in re.findall(r'(m_\w+Local\w*)\s*\.\s*setToZero', ini[:cm2.start()] if cm2 else ini)))
        zero_cnc = sorted(set('LocalC' if 'CacheLocal' in z else 'LocalF' for z in re.findall(r'(m_\w+Local\w*)\s*\.\s*setToZero', block_from(ini, cm2.end())[0]))) if cm2 else []
    except ValueError as e:
        fails.append((cls, str(e))); return None
    tl = bool(re.search(r'static\s+thread_local\s+Vector_<SpatialVec>\s+m_rigidBodyForcesLocal', body))
    return dict(table=table, finish_always=always, finish_cnc=cnc, zero_always=zero_always, zero_cnc=zero_cnc, thread_local=tl)

def scan_subsystem(t, fails):
    rt = re.search(r'int\s+realizeSubsystemTopologyImpl\s*\(', t)
    b, _ = block_from(t, rt.start())
    m = re.search(r'calcForcesTask\s*=\s*new\s+CalcForcesNonParallelTask\s*\(\s*\)\s*;(.*?)\}', b, re.S)
    forced = bool(m and re.search(r'calcForcesExecutor\s*=\s*new\s+ParallelExecutor\s*\(\s*1\s*\)', m.group(1)))
    sn = re.search(r'void\s+setNumberOfThreads\s*\(\s*unsigned\s+numThreads\s*\)', t)
    sb, _ = block_from(t, sn.end())
    replaces = bool(re.search(r'calcForcesExecutor\s*=\s*new\s+ParallelExecutor\s*\(\s*numThreads\s*\)', sb))
    guarded = bool(re.search(r'invalidateSubsystemTopologyCache|CalcForcesNonParallelTask|hasParallel', sb))
    return dict(nonparallel_forced_single=forced, set_threads_can_override=replaces and not guarded)

TG = {'LocalF': 'LocalF', 'LocalC': 'LocalC', 'SharedF': 'SharedF', 'SharedC': 'SharedC', None: None}
def coq_opt(x): return 'None' if x is None else '(Some %s)' % x
def coq_pairs(l): return '[' + '; '.join('(%s,%s)' % p for p in l) + ']'
def coq_task(name, d):
    rows = []
    for mode in ('All', 'CachedAndNonCached', 'NonCached'):
        for role in ('task0', 'worker'):
            for pos in (True, False):
                rows.append(coq_opt(d['table'][mode][role][pos]))
    return ('Definition %s : taskdesc := mkTask [%s] %s %s [%s] [%s] %s.' %
            (name, '; '.join(rows), coq_pairs(d['finish_always']), coq_pairs(d['finish_cnc']), '; '.join(d['zero_always']), '; '.join(d['zero_cnc']),
             'true' if d['thread_local'] else 'false'))

def main():
    t = strip_comments(open(SRC).read()); fails = []
    par = npar = sub = None
    try:
        par = scan_task(t, 'CalcForcesParallelTask', fails); npar = scan_task(t, 'CalcForcesNonParallelTask', fails); sub = scan_subsystem(t, fails)
    except Exception as e:
        fails.append(('scan', repr(e)))
    os.makedirs(OUT, exist_ok=True)
    def js(d):
        if d is None: return None
        d = dict(d); d['table'] = {m: {r: {('pos' if p else 'vel'): v for p, v in x.items()} for r, x in rr.items()} for m, rr in d['table'].items()}; return d
    json.dump(dict(source=SRC, parallel=js(par), nonparallel=js(npar), subsystem=sub, failed=[list(f) for f in fails]),
              open(os.path.join(OUT, 'C17_access.json'), 'w'), indent=1, sort_keys=True)
    gen = os.path.join(OUT, 'C17_access_gen.v')
    if fails or par is None or npar is None or sub is None:
        open(gen, 'w').write('(* C17 access table scan FAILED: %s *)\n' % '; '.join('%s: %s' % tuple(f) for f in fails).replace('*)', '* )'))
        print('C17_access: FAILED', fails); sys.exit(3)
    L = ['(* GENERATED by translate/C17_access.py from %s -- do not edit *)' % SRC, 'From Coq Require Import List.', 'Import ListNotations.',
         'Require Import C17_Model.', '',
         '(* rows: mode All / CachedAndNonCached / NonCached x role task0 / worker x element position-only / velocity-dependent *)',
         coq_task('code_parallel', par), coq_task('code_nonparallel', npar),
         'Definition code_nonparallel_forced_single : bool := %s.' % ('true' if sub['nonparallel_forced_single'] else 'false'),
         'Definition code_set_threads_can_override : bool := %s.' % ('true' if sub['set_threads_can_override'] else 'false')]
    txt = '\n'.join(L) + '\n'
    if not (os.path.exists(gen) and open(gen).read() == txt): open(gen, 'w').write(txt)
    print('C17_access: parallel %s' % json.dumps(js(par)['table']))
    print('C17_access: nonparallel %s' % json.dumps(js(npar)['table']))
    print('C17_access: subsystem %s' % sub)

if __name__ == '__main__':
    main()
