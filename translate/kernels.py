"""Kernel groups translated by sk2coq.py.  Each group names the TU to parse, the clang
ast-dump filter, where the functions live, and per kernel: C++ name, number of parameters
(overload selection), Coq name, and the C++ call expression used by the generated
translator-validation harness ({0},{1},... are the arguments)."""

ROT_H = 'SimTKcommon/Mechanics/include/SimTKcommon/internal/Rotation.h'
def R(name, n, coq, **kw):
    args = ','.join('{%d}' % i for i in range(n))
    d = dict(name=name, nparams=n, coq=coq, cxx='Rotation::%s(%s)' % (name, args)); d.update(kw); return d

GROUPS = {
 'rot': dict(
    source=ROT_H, tu='#include "SimTKcommon.h"', filter='Rotation_', container=('classtemplate', 'Rotation_'),
    kernels=[
      R('calcNForBodyXYZInBodyFrame', 2, 'cNB'), R('calcNForBodyXYZInParentFrame', 2, 'cNP'),
      R('calcNDotForBodyXYZInBodyFrame', 3, 'cNDotB'), R('calcNDotForBodyXYZInParentFrame', 4, 'cNDotP'),
      R('calcNInvForBodyXYZInBodyFrame', 2, 'cNInvB'), R('calcNInvForBodyXYZInParentFrame', 2, 'cNInvP'),
      R('calcUnnormalizedNForQuaternion', 1, 'cNQ'), R('calcUnnormalizedNDotForQuaternion', 1, 'cNDotQ'),
      R('calcUnnormalizedNInvForQuaternion', 1, 'cNInvQ'),
      R('multiplyByBodyXYZ_N_P', 4, 'mulNP'), R('multiplyByBodyXYZ_NT_P', 4, 'mulNTP'),
      R('multiplyByBodyXYZ_NInv_P', 3, 'mulNInvP'), R('multiplyByBodyXYZ_NInvT_P', 3, 'mulNInvTP'),
      R('convertAngVelInBodyFrameToBodyXYZDot', 3, 'angVelB2qdot'), R('convertBodyXYZDotToAngVelInBodyFrame', 3, 'qdot2angVelB'),
      R('convertAngVelDotInBodyFrameToBodyXYZDotDot', 4, 'angAccB2qdd'),
      R('convertAngVelToQuaternionDot', 2, 'angVel2qdotQ'), R('convertQuaternionDotToAngVel', 2, 'qdotQ2angVel'),
      R('convertAngVelDotToQuaternionDotDot', 3, 'angAcc2qddQ'),
      R('convertAngVelInParentToBodyXYZDot', 4, 'angVelP2qdot'), R('convertAngAccInParentToBodyXYZDotDot', 5, 'angAccP2qdd'),
      # overloads taking the angles themselves (they compute sin/cos and call the above)
      R('calcNForBodyXYZInBodyFrame', 1, 'cNB_q'), R('calcNForBodyXYZInParentFrame', 1, 'cNP_q'),
      R('calcNDotForBodyXYZInBodyFrame', 2, 'cNDotB_q'), R('calcNDotForBodyXYZInParentFrame', 2, 'cNDotP_q'),
      R('calcNInvForBodyXYZInBodyFrame', 1, 'cNInvB_q'), R('calcNInvForBodyXYZInParentFrame', 1, 'cNInvP_q'),
      R('convertAngVelInBodyFrameToBodyXYZDot', 2, 'angVelB2qdot_q'), R('convertBodyXYZDotToAngVelInBodyFrame', 2, 'qdot2angVelB_q'),
      R('convertAngVelDotInBodyFrameToBodyXYZDotDot', 3, 'angAccB2qdd_q'),
      # body-fixed 3-2-1 helpers
      R('convertAngVelToBodyFixed321Dot', 2, 'angVel2qdot321'), R('convertBodyFixed321DotToAngVel', 2, 'qdot3212angVel'),
      R('convertAngVelDotToBodyFixed321DotDot', 3, 'angAcc2qdd321'),
    ]),
}
