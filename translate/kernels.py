"""Kernel groups translated by sk2coq.py.  Each group names the TU to parse, the clang
ast-dump filter, where the functions live, and per kernel: C++ name, number of parameters
(overload selection), Coq name, and the C++ call expression used by the generated
translator-validation harness ({0},{1},... are the arguments)."""

ROT_H = 'SimTKcommon/Mechanics/include/SimTKcommon/internal/Rotation.h'
def R(name, n, coq, **kw):
    args = ','.join('{%d}' % i for i in range(n))
    d = dict(name=name, nparams=n, coq=coq, cxx='Rotation::%s(%s)' % (name, args)); d.update(kw); return d

GROUPS = {
 'rot': dict(
    source=ROT_H, tu='#include "SimTKcommon.h"', filter='Rotation_', container=('classtemplate', 'Rotation_'),
    kernels=[
      R('calcNForBodyXYZInBodyFrame', 2, 'cNB'), R('calcNForBodyXYZInParentFrame', 2, 'cNP'),
      R('calcNDotForBodyXYZInBodyFrame', 3, 'cNDotB'), R('calcNDotForBodyXYZInParentFrame', 4, 'cNDotP'),
      R('calcNInvForBodyXYZInBodyFrame', 2, 'cNInvB'), R('calcNInvForBodyXYZInParentFrame', 2, 'cNInvP'),
      R('calcUnnormalizedNForQuaternion', 1, 'cNQ'), R('calcUnnormalizedNDotForQuaternion', 1, 'cNDotQ'),
      R('calcUnnormalizedNInvForQuaternion', 1, 'cNInvQ'),
      R('multiplyByBodyXYZ_N_P', 4, 'mulNP'), R('multiplyByBodyXYZ_NT_P', 4, 'mulNTP'),
      R('multiplyByBodyXYZ_NInv_P', 3, 'mulNInvP'), R('multiplyByBodyXYZ_NInvT_P', 3, 'mulNInvTP'),
      R('convertAngVelInBodyFrameToBodyXYZDot', 3, 'angVelB2qdot'), R('convertBodyXYZDotToAngVelInBodyFrame', 3, 'qdot2angVelB'),
      R('convertAngVelDotInBodyFrameToBodyXYZDotDot', 4, 'angAccB2qdd'),
      R('convertAngVelToQuaternionDot', 2, 'angVel2qdotQ'), R('convertQuaternionDotToAngVel', 2, 'qdotQ2angVel'),
      R('convertAngVelDotToQuaternionDotDot', 3, 'angAcc2qddQ'),
      R('convertAngVelInParentToBodyXYZDot', 4, 'angVelP2qdot'), R('convertAngAccInParentToBodyXYZDotDot', 5, 'angAccP2qdd'),
      # overloads taking the angles themselves (they compute sin/cos and call the above)
      R('calcNForBodyXYZInBodyFrame', 1, 'cNB_q'), R('calcNForBodyXYZInParentFrame', 1, 'cNP_q'),
      R('calcNDotForBodyXYZInBodyFrame', 2, 'cNDotB_q'), R('calcNDotForBodyXYZInParentFrame', 2, 'cNDotP_q'),
      R('calcNInvForBodyXYZInBodyFrame', 1, 'cNInvB_q'), R('calcNInvForBodyXYZInParentFrame', 1, 'cNInvP_q'),
      R('convertAngVelInBodyFrameToBodyXYZDot', 2, 'angVelB2qdot_q'), R('convertBodyXYZDotToAngVelInBodyFrame', 2, 'qdot2angVelB_q'),
      R('convertAngVelDotInBodyFrameToBodyXYZDotDot', 3, 'angAccB2qdd_q'),
      # body-fixed 3-2-1 helpers
      R('convertAngVelToBodyFixed321Dot', 2, 'angVel2qdot321'), R('convertBodyFixed321DotToAngVel', 2, 'qdot3212angVel'),
      R('convertAngVelDotToBodyFixed321DotDot', 3, 'angAcc2qdd321'),
    ]),
}

# ---- C41: smooth step helpers of Scalar.h (free inline functions; the double overloads) -------------------
SCALAR_H = 'SimTKcommon/Scalar/include/SimTKcommon/Scalar.h'
def STEP(name, n, sig):
    args = ','.join('{%d}' % i for i in range(n))
    return dict(name=name, nparams=n, coq='k_' + name, cxx='SimTK::%s(%s)' % (name, args), sig=sig)
GROUPS['step'] = dict(
    source=SCALAR_H, tu='#include "SimTKcommon.h"', filter='step', container=('free', None),
    kernels=[STEP('stepUp', 1, 'double (double)'), STEP('dstepUp', 1, 'double (double)'),
             STEP('d2stepUp', 1, 'double (double)'), STEP('d3stepUp', 1, 'double (double)'),
             STEP('stepDown', 1, 'double (double)'), STEP('dstepDown', 1, 'double (double)'),
             STEP('d2stepDown', 1, 'double (double)'), STEP('d3stepDown', 1, 'double (double)'),
             STEP('stepAny', 5, 'double (double'), STEP('dstepAny', 4, 'double (double'),
             STEP('d2stepAny', 4, 'double (double'), STEP('d3stepAny', 4, 'double (double')])

# ---- C27: straight-line Rotation_ setters (members that write the rotation's own Mat33: kernel key self='M33') ---------
import os as _os27
_ROT_CPP27 = 'SimTKcommon/Mechanics/src/Rotation.cpp'
_TU27 = '#include "SimTKcommon.h"\n#include "%s/%s"' % (_os27.environ.get('VERIF_REPO', '/repo'), _ROT_CPP27)
def M27(name, n, coq, **kw):
    args = ','.join('{%d}' % i for i in range(n + 1))       # argument 0 is the object itself
    d = dict(name=name, nparams=n, coq=coq, cxx='k27::%s(%s)' % (coq, args), self='M33', ret='M33'); d.update(kw); return d
GROUPS['rot27'] = dict(
    source=ROT_H + ' + ' + _ROT_CPP27, tu=_TU27, filter='setRotation', container=('class', 'Rotation_'),
    kernels=[M27('setRotationFromAngleAboutX', 2, 'k27_setX'), M27('setRotationFromAngleAboutY', 2, 'k27_setY'),
             M27('setRotationFromAngleAboutZ', 2, 'k27_setZ'),
             M27('setRotationToBodyFixedXYZ', 2, 'k27_bodyXYZ'),
             M27('setRotationFromQuaternion', 1, 'k27_fromQuat', sig='Quaternion_<P>'),
             M27('setRotationFromMat33TrustMe', 1, 'k27_trustMe')])

# ---- C29: mass-property and spatial-algebra kernels (MassProperties.h class templates, SpatialAlgebra.h free functions) -----
_MP_H29 = 'SimTKcommon/Mechanics/include/SimTKcommon/internal/MassProperties.h'
_SA_H29 = 'SimTKcommon/Mechanics/include/SimTKcommon/internal/SpatialAlgebra.h'
# NTraits<double>::getSignificant() = pow(2^-52, 0.875) = 0x1.6a09e667f3bcdp-46 as an exact dyadic rational (checked against the
# compiled value by checks/C29.py on every run)
_SIG29 = '(ndiv K (nofZ K (6369051672525773)%Z) (nofZ K (316912650057057350374175801344)%Z))'
def K29(name, n, coq, cxx, **kw):
    d = dict(name=name, nparams=n, coq=coq, cxx=cxx); d.update(kw); return d
GROUPS['c29in'] = dict(
    source=_MP_H29, tu='#include "SimTKcommon.h"', filter='Inertia_', container=('classtemplate', 'Inertia_'),
    consts={'getSignificant': _SIG29},
    kernels=[K29('pointMassAt', 2, 'in_pointMassAt', 'Inertia::pointMassAt({0},{1}).asSymMat33()'),
             K29('isValidInertiaMatrix', 1, 'in_isValid', 'Inertia::isValidInertiaMatrix({0})'),
             K29('shiftToMassCenter', 2, 'in_shiftToMassCenter', 'Inertia({0}).shiftToMassCenter({1},{2}).asSymMat33()', self='SYM'),
             K29('shiftFromMassCenter', 2, 'in_shiftFromMassCenter', 'Inertia({0}).shiftFromMassCenter({1},{2}).asSymMat33()', self='SYM')])
GROUPS['c29si'] = dict(
    source=_MP_H29, tu='#include "SimTKcommon.h"', filter='SpatialInertia_', container=('classtemplate', 'SpatialInertia_'),
    kernels=[K29('calcMassMoment', 0, 'si_calcMassMoment', 'SpatialInertia({0},{1},UnitInertia({2})).calcMassMoment()',
                 members=[('m', 'S'), ('p', 'V3'), ('G', 'SYM')]),
             K29('operator*', 1, 'si_mulSV', '(SpatialInertia({0},{1},UnitInertia({2}))*{3})',
                 members=[('m', 'S'), ('p', 'V3'), ('G', 'SYM')])])
GROUPS['c29sa'] = dict(
    source=_SA_H29, tu='#include "SimTKcommon.h"', filter='shift', more_filters=['findRelative'], container=('free', None),
    kernels=[K29('shiftVelocityBy', 2, 'sa_shiftVelocityBy', 'shiftVelocityBy({0},{1})'),
             K29('shiftVelocityFromTo', 3, 'sa_shiftVelocityFromTo', 'shiftVelocityFromTo({0},{1},{2})'),
             K29('shiftForceBy', 2, 'sa_shiftForceBy', 'shiftForceBy({0},{1})'),
             K29('shiftForceFromTo', 3, 'sa_shiftForceFromTo', 'shiftForceFromTo({0},{1},{2})'),
             K29('shiftAccelerationBy', 3, 'sa_shiftAccelerationBy', 'shiftAccelerationBy({0},{1},{2})'),
             K29('shiftAccelerationFromTo', 4, 'sa_shiftAccelerationFromTo', 'shiftAccelerationFromTo({0},{1},{2},{3})'),
             K29('findRelativeVelocityInF', 3, 'sa_findRelativeVelocityInF', 'findRelativeVelocityInF({0},{1},{2})'),
             K29('findRelativeAccelerationInF', 5, 'sa_findRelativeAccelerationInF', 'findRelativeAccelerationInF({0},{1},{2},{3},{4})')])
# the float overloads of the same helpers (C41 proves them textually identical to the double ones; not run)
def STEPF(name, n, sig):
    return dict(name=name, nparams=n, coq='k_' + name, cxx=None, sig=sig)
GROUPS['stepf'] = dict(
    source=SCALAR_H, tu='#include "SimTKcommon.h"', filter='step', container=('free', None),
    kernels=[STEPF('stepUp', 1, 'float (float)'), STEPF('dstepUp', 1, 'float (float)'),
             STEPF('d2stepUp', 1, 'float (float)'), STEPF('d3stepUp', 1, 'float (float)'),
             STEPF('stepDown', 1, 'float (float)'), STEPF('dstepDown', 1, 'float (float)'),
             STEPF('d2stepDown', 1, 'float (float)'), STEPF('d3stepDown', 1, 'float (float)'),
             STEPF('stepAny', 5, 'float (float'), STEPF('dstepAny', 4, 'float (float'),
             STEPF('d2stepAny', 4, 'float (float'), STEPF('d3stepAny', 4, 'float (float')])
# C29: unit-inertia shape factories (static members of UnitInertia_)
GROUPS['c29ui'] = dict(
    source=_MP_H29, tu='#include "SimTKcommon.h"', filter='UnitInertia_', container=('classtemplate', 'UnitInertia_'),
    kernels=[K29('sphere', 1, 'ui_sphere', 'UnitInertia::sphere({0}).asSymMat33()'),
             K29('cylinderAlongZ', 2, 'ui_cylinderAlongZ', 'UnitInertia::cylinderAlongZ({0},{1}).asSymMat33()'),
             K29('cylinderAlongY', 2, 'ui_cylinderAlongY', 'UnitInertia::cylinderAlongY({0},{1}).asSymMat33()'),
             K29('cylinderAlongX', 2, 'ui_cylinderAlongX', 'UnitInertia::cylinderAlongX({0},{1}).asSymMat33()'),
             K29('brick', 3, 'ui_brick', 'UnitInertia::brick({0},{1},{2}).asSymMat33()'),
             K29('ellipsoid', 3, 'ui_ellipsoid', 'UnitInertia::ellipsoid({0},{1},{2}).asSymMat33()')])
# ---- C37: friction-coefficient helpers of CompliantContactSubsystem.cpp (file-static inline functions; the TU includes the .cpp) ----
import os as _os37
_CCS_CPP37 = 'Simbody/src/CompliantContactSubsystem.cpp'
_TU37 = '#include "Simbody.h"\n#include "%s/%s"' % (_os37.environ.get('VERIF_REPO', '/repo'), _CCS_CPP37)
def K37(name, n, coq):
    args = ','.join('{%d}' % i for i in range(n))
    return dict(name=name, nparams=n, coq=coq, cxx='SimTK::%s(%s)' % (name, args))
GROUPS['c37'] = dict(
    source=_CCS_CPP37, tu=_TU37, filter='step5', more_filters=['hollars'], container=('free', None),
    kernels=[K37('step5', 1, 'k37_step5'), K37('step5d', 3, 'k37_step5d'), K37('hollars', 4, 'k37_hollars')])

# ---- C25 (fixed-size part): SmallMatrixMixed.h free function templates: 3x3 det / inverse (Mat and SymMat), cross products ----
SMM_H = 'SimTKcommon/SmallMatrix/include/SimTKcommon/internal/SmallMatrixMixed.h'
def K25(name, n, coq, sig, cxx, **kw):
    d = dict(name=name, nparams=n, coq=coq, sig=sig, cxx=cxx); d.update(kw); return d
GROUPS['sm25c'] = dict(
    source=SMM_H, tu='#include "SimTKcommon.h"', filter='SimTK::cross', container=('free', None),
    kernels=[K25('cross', 2, 'k25_cross', '(const Vec<3, E1, S1> &, const Vec<3, E2, S2> &)', 'SimTK::cross({0},{1})'),
             K25('cross', 2, 'k25_cross_vs', '(const Vec<3, EV, SV> &, const SymMat<3, EM, RS> &)', 'SimTK::cross({0},{1})'),
             K25('cross', 2, 'k25_cross_sv', '(const SymMat<3, EM, RS> &, const Vec<3, EV, SV> &)', 'SimTK::cross({0},{1})'),
             K25('cross', 2, 'k25_cross2', 'Mul (const Vec<2, E1, S1> &, const Vec<2, E2, S2> &)', 'SimTK::cross({0},{1})'),
             K25('crossMat', 1, 'k25_crossMat', 'Mat<3, 3, E> (const Vec<3, E, S> &)', 'SimTK::crossMat({0})'),
             K25('crossMatSq', 1, 'k25_crossMatSq', 'SymMat<3, E> (const Vec<3, E, S> &)', 'SimTK::crossMatSq({0})')])
GROUPS['sm25d'] = dict(
    source=SMM_H, tu='#include "SimTKcommon.h"', filter='SimTK::det', container=('free', None),
    kernels=[K25('det', 1, 'k25_det33', 'E (const Mat<3, 3, E, CS, RS> &)', 'SimTK::det({0})'),
             K25('det', 1, 'k25_detSym33', 'E (const SymMat<3, E, RS> &)', 'SimTK::det({0})')])
GROUPS['sm25i'] = dict(
    source=SMM_H, tu='#include "SimTKcommon.h"', filter='SimTK::inverse', container=('free', None),
    kernels=[K25('inverse', 1, 'k25_inv33', 'TInvert (const Mat<3, 3, E, CS, RS> &)', 'Mat33(SimTK::inverse({0}))', ret='M33'),
             K25('inverse', 1, 'k25_invSym33', 'TInvert (const SymMat<3, E, RS> &)', 'SymMat33(SimTK::inverse({0}))', ret='SYM')])
