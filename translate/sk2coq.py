#!/usr/bin/env python3
"""sk2coq: translate straight-line SimTK numeric kernels (clang JSON AST) to Gallina.

The model files under coq/Gen/ are regenerated from /repo's *current* source on every
check run by this script, so the theorems in coq/Cnn/*_Proofs.v are re-checked against
what the code says now (DESIGN 1.1).

  sk2coq.py <group>        regenerates coq/Gen/<group>_gen.v and coq/Gen/<group>.json
                           exit 0 = all kernels translated; exit 3 = some kernel is outside
                           the translatable subset (listed in the .json under "failed")

Subset: function bodies made of `const T x = e;` / `T x(e...);` declarations, `return e;`,
ternaries, where T is Real/double/float/int, Vec2/3/4, UnitVec3, Mat33/43/34, SymMat33,
SpatialVec, and e uses + - * / unary-, literals, [] with literal index, constructors from
scalars, sin/cos/sqrt/abs/exp/tanh, dot/cross/~, .norm()/.normSqr(), calls to other kernels.
Anything else raises Untranslatable with the offending AST node kind.
"""
import json, sys, re, os, subprocess, hashlib
from fractions import Fraction

VERIF = os.path.dirname(os.path.dirname(os.path.abspath(__file__)))
REPO = os.environ.get('VERIF_REPO', '/repo')

def include_flags():
    out = []
    for top in ('SimTKcommon', 'SimTKmath', 'Simbody'):
        for root, dirs, files in os.walk(os.path.join(REPO, top)):
            if os.path.basename(root) == 'include':
                out.append('-I' + root)
                dirs[:] = []
    return sorted(out)

def clang_ast(tu_text, filt, extra_inc=()):
    """Dump the JSON AST of declarations named `filt` in a TU with text `tu_text`."""
    bdir = os.path.join(VERIF, 'build', 'ast'); os.makedirs(bdir, exist_ok=True)
    h = hashlib.sha1((tu_text + filt).encode()).hexdigest()[:12]
    src = os.path.join(bdir, 'tu_%s.cpp' % h)
    open(src, 'w').write(tu_text + '\n')
    cmd = ['clang++', '-std=c++17', '-fsyntax-only', '-w', '-DSIMBODY_VERIF'] + include_flags() + \
          ['-I' + p for p in extra_inc] + ['-Xclang', '-ast-dump=json', '-Xclang', '-ast-dump-filter=' + filt, src]
    r = subprocess.run(cmd, capture_output=True, text=True)
    if r.returncode != 0:
        raise SystemExit('clang failed on %s:\n%s' % (src, r.stderr[-2000:]))
    return load_docs(r.stdout)

def load_docs(s):
    dec = json.JSONDecoder(); i = 0; docs = []
    while i < len(s):
        while i < len(s) and s[i].isspace(): i += 1
        if i >= len(s): break
        d, j = dec.raw_decode(s, i); docs.append(d); i = j
    return docs

def walk(n):
    yield n
    for c in n.get('inner', []):
        yield from walk(c)

# ---- types -----------------------------------------------------------------
TYPEMAP = [
    (r'\bSpatialVecP?\b|Vec<2, ?Vec<3', 'SV'),
    (r'\bSymMat33P?\b|SymMat<3', 'SYM'),
    (r'\b(Unit)?Inertia(P|_)?\b', 'SYM'),     # (C29) Inertia_/UnitInertia_ wrap one SymMat33 (not SpatialInertia/ArticulatedInertia)
    (r'\bMat33P?\b|Mat<3, ?3', 'M33'), (r'\bMat43P?\b|Mat<4, ?3', 'M43'), (r'\bMat34P?\b|Mat<3, ?4', 'M34'),
    (r'\bRotation(P|_)?\b', 'M33'),
    (r'\bVec2P?\b|Vec<2', 'V2'), (r'\bVec3P?\b|Vec<3|\bUnitVec3P?\b|UnitVec<', 'V3'), (r'\bVec4P?\b|Vec<4|\bQuaternion', 'V4'),
    (r'\bbool\b', 'B'),
    (r'\bRealP?\b|\bdouble\b|\bfloat\b|\bP\b|\bint\b|\bT\b|\bE\b', 'S'),
]
TYPEMAP.insert(0, (r'^(const )?Row<3, ?E>', 'V3'))      # (C25) a Row<3,E> used as a row initialiser of Mat<3,3,E>
TYPEMAP.append((r'\bE[12VMR]\b|\bEResult\b|\bTInvert\b|\bStdNumber\b|\bMul\b', 'S'))   # (C25) element-type names of the SmallMatrix templates
def ctype(q):
    m25 = re.search(r'\b(Sym)?Mat<3,(?: ?3,)?[^<>]*>::TInvert\b', q)     # (C25) the inverse type of a 3x3 Mat / SymMat is again one
    if m25: return 'SYM' if m25.group(1) else 'M33'
    q = re.sub(r'(typename\s+)?(\w+(<[^<>]*>)?::)+', '', q)     # drop scope qualifiers (Rotation_<P>::RealP -> RealP)
    for pat, t in TYPEMAP:
        if re.search(pat, q): return t
    raise Untranslatable('type ' + q)

DIM = {'V2': 2, 'V3': 3, 'V4': 4}
VOFDIM = {2: 'V2', 3: 'V3', 4: 'V4'}
MDIM = {'M33': (3, 3), 'M43': (4, 3), 'M34': (3, 4)}
COQTY = {'S': 'T', 'B': 'bool', 'V2': 'Vec2 T', 'V3': 'Vec3 T', 'V4': 'Vec4 T', 'M33': 'Mat33 T', 'M43': 'Mat43 T',
         'M34': 'Mat34 T', 'SYM': 'SymMat33 T', 'SV': 'SpatialVec T'}
NSCAL = {'S': 1, 'V2': 2, 'V3': 3, 'V4': 4, 'M33': 9, 'M43': 12, 'M34': 12, 'SYM': 6, 'SV': 6, 'B': 1}

class Untranslatable(Exception): pass

SKIP = ('ImplicitCastExpr', 'MaterializeTemporaryExpr', 'ExprWithCleanups', 'CXXBindTemporaryExpr', 'ConstantExpr',
        'SubstNonTypeTemplateParmExpr')

def strip(n):
    while n['kind'] in SKIP: n = n['inner'][0]
    return n

class Fn:
    def __init__(self, node, coqname, ret=None, params=None):
        self.node = node; self.coqname = coqname
        self.params = [(p['name'], ctype(p['type']['qualType'])) for p in node.get('inner', []) if p['kind'] == 'ParmVarDecl']
        if params:   # override roles, e.g. {'x':'S'}
            self.params = [(n, params.get(n, t)) for n, t in self.params]
        q = node['type']['qualType']
        self.ret = ret or ctype(q.split('(')[0])
        self.body = [c for c in node.get('inner', []) if c['kind'] == 'CompoundStmt'][0]

def opname(n):
    c = n['inner'][0]
    while c['kind'] in SKIP: c = c['inner'][0]
    nm = c.get('name') or c.get('referencedDecl', {}).get('name')
    if nm is None and c.get('lookups'): nm = c['lookups'][0].get('name')
    return nm.replace('operator', '')

UNARY_CALLS = {'sin': 'nsin', 'cos': 'ncos', 'sqrt': 'nsqrt', 'abs': 'nabs', 'fabs': 'nabs', 'exp': 'nexp', 'tanh': 'ntanh'}

class Tr:
    def __init__(self, fns_by_key, consts=None):
        self.fns = fns_by_key   # (name, nparams) -> Fn
        self.consts = consts or {}
    def lit(self, v):
        s = str(v)
        if re.fullmatch(r'-?\d+', s): return '(nofZ K (%s)%%Z)' % s
        f = Fraction(s)
        return '(ndiv K (nofZ K (%d)%%Z) (nofZ K (%d)%%Z))' % (f.numerator, f.denominator)
    def expr(self, n, env):
        k = n['kind']
        if k in SKIP:
            return self.expr(n['inner'][0], env)
        if k == 'ParenExpr':
            e, t = self.expr(n['inner'][0], env); return e, t
        if k == 'IntegerLiteral': return self.lit(n['value']), 'S'
        if k == 'FloatingLiteral': return self.lit(n['value']), 'S'
        if k == 'CXXBoolLiteralExpr': return ('true' if n['value'] else 'false'), 'B'
        if k == 'DeclRefExpr':
            nm = n['referencedDecl']['name']
            if nm in env: return nm, env[nm]
            if nm in self.consts: return self.consts[nm], 'S'
            raise Untranslatable('unknown variable ' + nm)
        if k == 'ArraySubscriptExpr':
            b, bt = self.expr(n['inner'][0], env); idx = strip(n['inner'][1])
            return self.index(b, bt, idx)
        if k in ('CXXFunctionalCastExpr', 'CStyleCastExpr', 'CXXStaticCastExpr'):
            t = ctype(n['type']['qualType']); e, et = self.expr(n['inner'][0], env)
            if t == et: return e, t
            raise Untranslatable('cast %s->%s' % (et, t))
        if k in ('CXXUnresolvedConstructExpr', 'CXXTemporaryObjectExpr', 'CXXConstructExpr', 'InitListExpr'):
            tq = n.get('typeAsWritten', n['type'])
            t = ctype(tq['qualType'] if isinstance(tq, dict) else n['type']['qualType'])
            args = [self.expr(a, env) for a in n.get('inner', []) if a['kind'] != 'CXXDefaultArgExpr']
            if t == 'SYM' and len(args) == 6 and re.search(r'\b(Unit)?Inertia(P|_)?\b', tq['qualType'] if isinstance(tq, dict) else n['type']['qualType']):
                xx, yy, zz, xy, xz, yz = args; args = [xx, xy, yy, xz, yz, zz]    # (C29) Inertia_(xx,yy,zz, xy,xz,yz): moments first, then products
            return self.construct(t, args)
        if k in ('MemberExpr', 'CXXDependentScopeMemberExpr') and (n.get('name') or n.get('member')) in env and \
           (not n.get('inner') or strip(n['inner'][0])['kind'] == 'CXXThisExpr'):
            nm = n.get('name') or n.get('member'); return nm, env[nm]     # (C29) data member of *this declared with members=[(name,type)..]
        if k == 'UnaryOperator' and n['opcode'] == '*' and strip(n['inner'][0])['kind'] == 'CXXThisExpr' and 'self' in env:
            return 'self', env['self']        # `*this` of a kernel declared with self=<type> (C27)
        if k == 'UnaryOperator':
            e, t = self.expr(n['inner'][0], env)
            if n['opcode'] == '-': return self.neg(e, t), t
            if n['opcode'] == '+': return e, t
            if n['opcode'] == '!' and t == 'B': return '(negb %s)' % e, 'B'
            raise Untranslatable('unary ' + n['opcode'])
        if k == 'BinaryOperator' and n['opcode'] == '=':
            return self.assign(n['inner'][0], n['inner'][1], env)    # element/whole assignment to the self matrix (C27)
        if k == 'BinaryOperator':
            a, at = self.expr(n['inner'][0], env); b, bt = self.expr(n['inner'][1], env)
            return self.binop(n['opcode'], a, at, b, bt)
        if k == 'ConditionalOperator':
            c, ct = self.expr(n['inner'][0], env)
            a, at = self.expr(n['inner'][1], env); b, bt = self.expr(n['inner'][2], env)
            if ct != 'B' or at != bt: raise Untranslatable('conditional')
            return '(if %s then %s else %s)' % (c, a, b), at
        if k == 'CXXOperatorCallExpr':
            op = opname(n); args = n['inner'][1:]
            if len(args) == 1:
                if op == '*' and strip(args[0])['kind'] == 'CXXThisExpr' and 'self' in env: return 'self', env['self']   # (C29) `*this` in a class template (dependent form)
                e, t = self.expr(args[0], env)
                if op == '-': return self.neg(e, t), t
                if op == '~':
                    if t == 'M33': return '(m33_T %s)' % e, 'M33'
                    if t in DIM: return e, 'ROW' + t
                    raise Untranslatable('~ on ' + t)
                raise Untranslatable('unary op ' + op)
            if op == '=' and len(args) == 2: return self.assign(args[0], args[1], env)    # (C27) self matrix
            a, at = self.expr(args[0], env)
            if op == '[]' or op == '()':
                if len(args) == 2:
                    return self.index(a, at, strip(args[1]), col=(op == '()'))
                if len(args) == 3:
                    i, j = strip(args[1]), strip(args[2])
                    if at == 'M33' and i['kind'] == j['kind'] == 'IntegerLiteral':
                        return '(m33_e %s %s %s)' % (a, i['value'], j['value']), 'S'
                raise Untranslatable('operator%s arity' % op)
            b, bt = self.expr(args[1], env)
            return self.binop(op, a, at, b, bt)
        if k == 'CallExpr' or k == 'CXXMemberCallExpr':
            callee = n['inner'][0]
            while callee['kind'] in SKIP: callee = callee['inner'][0]
            args = [self.expr(a, env) for a in n['inner'][1:] if a['kind'] != 'CXXDefaultArgExpr']
            if callee['kind'] == 'DeclRefExpr' and callee['referencedDecl'].get('name') in env:   # (C25) m(i,j) / s(i,j) / v(i) / m(j): operator() on a variable in a template pattern
                return self.paren_index(callee['referencedDecl']['name'], env[callee['referencedDecl']['name']], [strip(a) for a in n['inner'][1:]])
            if callee['kind'] in ('UnresolvedLookupExpr', 'DeclRefExpr'):
                nm = callee.get('name') or callee['referencedDecl']['name']
                return self.call(nm, args)
            if callee['kind'] in ('CXXDependentScopeMemberExpr', 'MemberExpr', 'UnresolvedMemberExpr'):
                mem = callee.get('member') or callee.get('name')
                if not callee.get('inner'):   # implicit this->f(...)
                    return self.call(mem, args)
                inner0 = callee['inner'][0]
                if strip(inner0)['kind'] == 'CXXThisExpr':
                    return self.call(mem, args)
                obj, ot = self.expr(inner0, env)
                return self.member(mem, obj, ot, args)
            if callee['kind'] == 'DependentScopeDeclRefExpr' and not args and getattr(self, 'srctext', None):
                # (C29) `NTraits<P>::getX()`: clang's JSON has no name for this node; read the identifier at its end token from the source
                e = callee.get('range', {}).get('end', {}); e = e.get('spellingLoc', e)
                nm = self.srctext[e.get('offset', 0): e.get('offset', 0) + e.get('tokLen', 0)]
                if re.fullmatch(r'[A-Za-z_]\w*', nm) and nm in self.consts: return self.consts[nm], 'S'
                raise Untranslatable('dependent-scope call %r' % nm)
            raise Untranslatable('callee ' + callee['kind'])
        raise Untranslatable('node ' + k)
    def call(self, nm, args):
        if nm in UNARY_CALLS and len(args) == 1 and args[0][1] == 'S':
            return '(%s K %s)' % (UNARY_CALLS[nm], args[0][0]), 'S'
        if nm == 'square' and len(args) == 1 and args[0][1] == 'S':
            return '(nmul K %s %s)' % (args[0][0], args[0][0]), 'S'
        if nm == 'cube' and len(args) == 1 and args[0][1] == 'S':
            return '(nmul K %s (nmul K %s %s))' % (args[0][0], args[0][0], args[0][0]), 'S'
        if nm == 'dot' and len(args) == 2 and args[0][1] == args[1][1] and args[0][1] in DIM:
            return '(v%d_dot K %s %s)' % (DIM[args[0][1]], args[0][0], args[1][0]), 'S'
        if nm == 'cross' and len(args) == 2 and args[0][1] == args[1][1] == 'V3':
            return '(v3_cross K %s %s)' % (args[0][0], args[1][0]), 'V3'
        if nm == 'crossMat' and len(args) == 1 and args[0][1] == 'V3':
            return '(m33_crossMat K %s)' % args[0][0], 'M33'
        if nm == 'atan2' and len(args) == 2:
            return '(natan2 K %s %s)' % (args[0][0], args[1][0]), 'S'
        if nm in ('min', 'max') and len(args) == 2 and args[0][1] == args[1][1] == 'S':
            a, b = args[0][0], args[1][0]
            if nm == 'min': return '(if nleb K %s %s then %s else %s)' % (a, b, a, b), 'S'
            return '(if nleb K %s %s then %s else %s)' % (a, b, b, a), 'S'
        if nm == 'operator=' and len(args) == 1 and getattr(self, '_sink', None) and args[0][1] == 'M33':   # Mat33P::operator=(m) on *this (C27)
            self._sink[0].append('%slet self : %s := %s in' % (self._sink[1], COQTY['M33'], args[0][0])); return 'self', 'M33'
        if nm in ('asMat33', 'toMat33') and not args and getattr(self, '_selfty', None) == 'M33': return 'self', 'M33'   # (C27)
        key = (nm, len(args))
        if key in self.fns:
            f = self.fns[key]
            for (pn, pt), (_, at) in zip(f.params, args):
                if pt != at: raise Untranslatable('arg type mismatch calling %s: %s vs %s' % (nm, pt, at))
            return '(%s K %s)' % (f.coqname, ' '.join(a for a, _ in args)), f.ret
        raise Untranslatable('call to %s/%d' % (nm, len(args)))
    def member(self, mem, obj, ot, args):
        if mem == 'normSqr' and ot in DIM: return '(v%d_normSqr K %s)' % (DIM[ot], obj), 'S'
        if mem == 'isNaN' and ot in ('SYM', 'V3', 'S') and not args: return 'false', 'B'    # (C29) the numeric structures have no NaN
        if mem in ('diag', 'getDiag') and ot == 'SYM' and not args: return '(fst %s)' % obj, 'V3'     # (C29)
        if mem == 'getLower' and ot == 'SYM' and not args: return '(snd %s)' % obj, 'V3'              # (C29) (xy,xz,yz)
        if mem == 'sum' and ot == 'V3' and not args:                                                   # (C29) Vec::sum(): ((0+a)+b)+c
            return '(nadd K (nadd K (v3_0 %s) (v3_1 %s)) (v3_2 %s))' % (obj, obj, obj), 'S'
        if mem == 'asSymMat33' and ot == 'SYM' and not args: return obj, ot                            # (C29)
        if mem == 'norm' and ot == 'V3': return '(v3_norm K %s)' % obj, 'S'
        if mem in ('transpose',) and ot == 'M33': return '(m33_T %s)' % obj, 'M33'
        if mem in ('asVec3', 'asVec4') and ot in DIM: return obj, ot
        if mem in ('asMat33', 'toMat33') and ot == 'M33' and not args: return obj, ot
        if mem in ('getEltDiag', 'getEltUpper', 'getEltLower') and ot == 'SYM':     # (C25) SymMat element accessors with literal indices
            ix = [re.fullmatch(r'\(nofZ K \((\d+)\)%Z\)', a) for a, _ in args]
            if all(ix) and len(ix) in (1, 2):
                return self.sym_elt(obj, *[int(m.group(1)) for m in (ix * 2)[:2]], how={'getEltDiag': 'diag', 'getEltUpper': 'upper', 'getEltLower': 'lower'}[mem])
        raise Untranslatable('member call %s on %s' % (mem, ot))
    def sym_elt(self, s, i, j, how='()'):      # (C25) SymMat<3,E> (real E) stored as ((xx,yy,zz),(xy,xz,yz)) = (diag, lower[0..2])
        # SymMat.h: operator()(i,j) = i==j ? diag[i] : getEltLower(i,j) ("must be i >= j", only asserted);  getEltLower(i,j) = lower[lowerIx(i,j)];
        # getEltUpper(i,j) = upper[lowerIx(j,i)] (= lower for real E);  lowerIx(i,j) = (i-j-1) + j*(M-1) - j*(j-1)/2 is evaluated as written,
        # also outside its contract j < i, which is what a Release (NDEBUG) build does.
        if how == 'diag' or (how == '()' and i == j):
            if not 0 <= i <= 2: raise Untranslatable('SymMat33 diagonal index')
            return '(v3_%d (fst %s))' % (i, s), 'S'
        if how == 'upper': i, j = j, i
        ix = (i - j - 1) + j * 2 - (j * (j - 1)) // 2
        if not 0 <= ix <= 2: raise Untranslatable('SymMat33 element (%d,%d) reads outside the stored lower triangle' % (i, j))
        return '(v3_%d (snd %s))' % (ix, s), 'S'
    def paren_index(self, nm, t, ixs):      # (C25) operator() with literal indices on a variable
        if any(x['kind'] != 'IntegerLiteral' for x in ixs): raise Untranslatable('non-literal operator() index on ' + nm)
        iv = [int(x['value']) for x in ixs]
        if t == 'SYM' and len(iv) == 2: return self.sym_elt(nm, iv[0], iv[1])
        if t == 'M33' and len(iv) == 2 and max(iv) <= 2: return '(m33_e %s %d %d)' % (nm, iv[0], iv[1]), 'S'
        if len(iv) == 1: return self.index(nm, t, ixs[0], col=True)
        raise Untranslatable('operator() on %s %s' % (t, iv))
    def index(self, b, bt, idx, col=False):
        if idx['kind'] != 'IntegerLiteral': raise Untranslatable('non-literal subscript')
        i = int(idx['value'])
        if bt in DIM: return '(v%d_%d %s)' % (DIM[bt], i, b), 'S'
        if bt == 'M33': return '(m33_%s%d %s)' % ('c' if col else 'r', i, b), 'V3'
        if bt == 'SV': return '(%s %s)' % ('fst' if i == 0 else 'snd', b), 'V3'
        raise Untranslatable('subscript on ' + bt)
    def construct(self, t, args):
        if len(args) == 1 and args[0][1] == t: return args[0]
        if t == 'S' and len(args) == 1: return args[0][0], 'S'
        if t == 'SV' and len(args) == 2 and args[0][1] == args[1][1] == 'V3':
            return '(%s, %s)' % (args[0][0], args[1][0]), 'SV'
        if t in DIM and len(args) == 1 and args[0][1] == 'S':     # Vec3(s): all elements s
            return '(' + ', '.join([args[0][0]] * DIM[t]) + ')', t
        if t == 'M33' and len(args) == 3 and all(at == 'V3' for _, at in args):     # (C25) Mat<3,3,E>(Row<3,E>, Row<3,E>, Row<3,E>): three rows
            return '(%s, %s, %s)' % tuple(a for a, _ in args), 'M33'
        if any(at != 'S' for _, at in args): raise Untranslatable('ctor args for ' + t)
        es = [a for a, _ in args]
        if t in DIM:
            if len(es) != DIM[t]: raise Untranslatable('ctor arity %s %d' % (t, len(es)))
            return '(' + ', '.join(es) + ')', t
        if t in MDIM:
            r, c = MDIM[t]
            if len(es) != r * c: raise Untranslatable('ctor arity %s %d' % (t, len(es)))
            rows = ['(' + ', '.join(es[i*c:(i+1)*c]) + ')' for i in range(r)]
            return '(' + ', '.join(rows) + ')', t
        if t == 'SYM' and len(es) == 6:   # SymMat33(xx, xy,yy, xz,yz,zz) (lower triangle by rows)
            xx, xy, yy, xz, yz, zz = es
            return '((%s, %s, %s), (%s, %s, %s))' % (xx, yy, zz, xy, xz, yz), 'SYM'
        if t == 'SYM' and len(es) in (1, 3):   # (C29) Inertia_(moment) / SymMat33(s): s on the diagonal; Inertia_(xx,yy,zz): principal moments
            z = '(nofZ K (0)%Z)'; d = es * 3 if len(es) == 1 else es
            return '((%s, %s, %s), (%s, %s, %s))' % (d[0], d[1], d[2], z, z, z), 'SYM'
        raise Untranslatable('ctor ' + t)
    def neg(self, e, t):
        if t == 'S': return '(nopp K %s)' % e
        if t in DIM: return '(v%d_neg K %s)' % (DIM[t], e)
        if t == 'M33': return '(m33_neg K %s)' % e
        if t == 'SV': return '(sv_neg K %s)' % e
        raise Untranslatable('neg ' + t)
    def binop(self, op, a, at, b, bt):
        S = {'+': 'nadd', '-': 'nsub', '*': 'nmul', '/': 'ndiv'}
        if at == 'S' and bt == 'S' and op in S: return '(%s K %s %s)' % (S[op], a, b), 'S'
        C = {'<=': ('nleb', 0), '<': ('nltb', 0), '>=': ('nleb', 1), '>': ('nltb', 1)}
        if at == 'S' and bt == 'S' and op in C:
            f, sw = C[op]; x, y = (b, a) if sw else (a, b)
            return '(%s K %s %s)' % (f, x, y), 'B'
        if at == 'V3' and bt == 'S' and op in C:      # (C29) Vec >= scalar: true iff every element compares true (Vec.h operator>=)
            f, sw = C[op]; es = [('(%s K %s (v3_%d %s))' % (f, b, i, a)) if sw else ('(%s K (v3_%d %s) %s)' % (f, i, a, b)) for i in range(3)]
            return '(andb (andb %s %s) %s)' % tuple(es), 'B'
        if at == 'B' and bt == 'B' and op == '&&': return '(andb %s %s)' % (a, b), 'B'
        if at == 'B' and bt == 'B' and op == '||': return '(orb %s %s)' % (a, b), 'B'
        if op == '*' and at == 'S' and bt in DIM: return '(v%d_scale K %s %s)' % (DIM[bt], a, b), bt
        if op == '*' and at in DIM and bt == 'S': return '(v%d_scale K %s %s)' % (DIM[at], b, a), at
        if op == '/' and at in DIM and bt == 'S': return '(v%d_scale K (ndiv K (n1 K) %s) %s)' % (DIM[at], b, a), at
        if op in '+-' and at == bt and at in DIM: return '(v%d_%s K %s %s)' % (DIM[at], 'add' if op == '+' else 'sub', a, b), at
        if op in '+-' and at == bt == 'M33': return '(m33_%s K %s %s)' % ('add' if op == '+' else 'sub', a, b), 'M33'
        if op in '+-' and at == bt == 'SV': return '(sv_%s K %s %s)' % ('add' if op == '+' else 'sub', a, b), 'SV'
        if op in '+-' and at == bt == 'SYM': return '(sym_%s K %s %s)' % ('add' if op == '+' else 'sub', a, b), 'SYM'
        if op == '*' and at == 'S' and bt == 'M33': return '(m33_scale K %s %s)' % (a, b), 'M33'
        if op == '*' and at == 'M33' and bt == 'S': return '(m33_scale K %s %s)' % (b, a), 'M33'
        if op == '*' and at == 'S' and bt == 'SYM': return '(sym_scale K %s %s)' % (a, b), 'SYM'
        if op == '*' and at == 'SYM' and bt == 'S': return '(sym_scale K %s %s)' % (b, a), 'SYM'
        if op == '*' and at == 'S' and bt == 'SV': return '(sv_scale K %s %s)' % (a, b), 'SV'
        if op == '*' and at == 'M33' and bt == 'M33': return '(m33_mul K %s %s)' % (a, b), 'M33'
        if op == '*' and at == 'SYM' and bt == 'V3': return '(sym_mulv K %s %s)' % (a, b), 'V3'
        if op == '*' and at in MDIM and bt in DIM and MDIM[at][1] == DIM[bt]:
            return '(m%d%d_mulv K %s %s)' % (MDIM[at][0], MDIM[at][1], a, b), VOFDIM[MDIM[at][0]]
        if op == '*' and at.startswith('ROW') and bt == at[3:]:
            return '(v%d_dot K %s %s)' % (DIM[bt], a, b), 'S'
        if op == '*' and at == 'ROWV3' and bt == 'M33':    # ~v * M  = row vector = (M^T v)^T
            return '(m33_Tmulv K %s %s)' % (b, a), 'ROWV3'
        if op == '%' and at == bt == 'V3': return '(v3_cross K %s %s)' % (a, b), 'V3'
        raise Untranslatable('binop %s %s %s' % (at, op, bt))
    def stmts(self, sts, env, f, lines, indent='  '):
        """Translate a statement list ending in a return (possibly under if/else)."""
        for i, st in enumerate(sts):
            kd = st['kind']
            if kd == 'DeclStmt':
                for v in st['inner']:
                    if v['kind'] != 'VarDecl': continue
                    t = ctype(v['type']['qualType'])
                    init = [c for c in v.get('inner', []) if c['kind'] not in ('FullComment',)]
                    if not init: raise Untranslatable('uninitialised ' + v['name'])
                    if init[0]['kind'] == 'ParenListExpr':
                        args = [self.expr(a, env) for a in init[0].get('inner', [])]
                        e, et = self.construct(t, args)
                    else:
                        e, et = self.expr(init[0], env)
                    if et != t: raise Untranslatable('decl type %s vs %s for %s' % (t, et, v['name']))
                    lines.append('%slet %s : %s := %s in' % (indent, v['name'], COQTY[t], e)); env[v['name']] = t
            elif kd == 'ReturnStmt':
                e, et = self.expr(st['inner'][0], env)
                if et != f.ret: raise Untranslatable('return type %s vs %s' % (et, f.ret))
                lines.append(indent + e)
                return True
            elif kd == 'IfStmt':
                parts = st['inner']
                c, ct = self.expr(parts[0], env)
                if ct != 'B': raise Untranslatable('if condition')
                then = parts[1]['inner'] if parts[1]['kind'] == 'CompoundStmt' else [parts[1]]
                lines.append('%sif %s then (' % (indent, c))
                if not self.stmts(then, dict(env), f, lines, indent + '  '): raise Untranslatable('if-branch without return')
                lines.append('%s) else (' % indent)
                if len(parts) > 2:
                    els = parts[2]['inner'] if parts[2]['kind'] == 'CompoundStmt' else [parts[2]]
                    rest = els
                    if not self.stmts(rest, dict(env), f, lines, indent + '  '):
                        if not self.stmts(sts[i+1:], env, f, lines, indent + '  '): raise Untranslatable('else without return')
                else:
                    if not self.stmts(sts[i+1:], env, f, lines, indent + '  '): raise Untranslatable('fallthrough without return')
                lines.append('%s)' % indent)
                return True
            elif kd in ('NullStmt',):
                continue
            elif kd == 'CompoundAssignOperator' and st.get('opcode') in ('+=', '-=') and strip(st['inner'][0])['kind'] == 'DeclRefExpr' \
                 and strip(st['inner'][0])['referencedDecl']['name'] in env:      # (C29) `I -= e;` on a local value -> rebinding let
                nm = strip(st['inner'][0])['referencedDecl']['name']; b, bt = self.expr(st['inner'][1], env)
                e, et = self.binop(st['opcode'][0], nm, env[nm], b, bt)
                if et != env[nm]: raise Untranslatable('compound assignment type %s vs %s' % (et, env[nm]))
                lines.append('%slet %s : %s := %s in' % (indent, nm, COQTY[et], e))
            elif kd == 'CallExpr' and strip(st['inner'][0]).get('member') == 'errChk':   # (C29) Inertia_::errChk(): Debug-only validity assertion (body under #ifndef NDEBUG)
                continue
            elif kd in ('BinaryOperator', 'CXXOperatorCallExpr', 'CallExpr') and self.assign_stmt(st, env, lines, indent):   # (C27) R[i][j] = e; R = m;
                continue
            elif kd == 'CallExpr' and self.clamp_stmt(st, env, lines, indent):   # clampInPlace(lo, localvar, hi);
                continue
            elif kd == 'ParenExpr' and '__assert_fail' in json.dumps(st):        # <cassert> assert(c); (NDEBUG off)
                continue
            elif kd == 'CallExpr' or kd == 'CXXMemberCallExpr' or kd == 'ExprWithCleanups' or kd == 'CStyleCastExpr':
                # assertion macros expand to (void)0 or to a conditional throw: ignore `assert`-like statements only
                txt = json.dumps(st)
                if 'Assert' in txt or 'assert' in txt or 'void' in st.get('type', {}).get('qualType', ''): continue
                raise Untranslatable('expression statement')
            else:
                raise Untranslatable('statement ' + kd)
        return False
    def clamp_stmt(self, st, env, lines, indent):
        """`clampInPlace(lo, v, hi);` on a scalar local v (Scalar.h: if (v<lo) v=lo; else if (v>hi) v=hi;) -> rebinding let."""
        callee = strip(st['inner'][0])
        if callee.get('referencedDecl', {}).get('name') != 'clampInPlace' or len(st['inner']) != 4: return False
        v = strip(st['inner'][2])
        if v['kind'] != 'DeclRefExpr' or env.get(v['referencedDecl']['name']) != 'S': return False
        nm = v['referencedDecl']['name']
        (lo, lt), (hi, ht) = self.expr(st['inner'][1], env), self.expr(st['inner'][3], env)
        if lt != 'S' or ht != 'S': return False
        lines.append('%slet %s : T := (if nltb K %s %s then %s else if nltb K %s %s then %s else %s) in' % (indent, nm, nm, lo, lo, hi, nm, hi, nm))
        return True
    # ---- (C27) kernels that mutate `*this` (kernel spec self='M33'): the object is the rebindable Gallina variable `self`,
    #      `Mat33P& R = *this;` is an alias of it, `R[i][j] = e` / `R = m` / `Mat33P::operator=(m)` rebind it, `return *this` returns it.
    def assign_stmt(self, st, env, lines, indent):
        if 'self' not in env: return False
        kd = st['kind']
        if kd == 'BinaryOperator' and st.get('opcode') != '=': return False
        if kd == 'CXXOperatorCallExpr' and opname(st) != '=': return False
        if kd == 'CallExpr':
            c = strip(st['inner'][0])
            if (c.get('member') or c.get('name')) != 'operator=' or c.get('inner'): return False
        self._sink = (lines, indent)
        try: self.expr(st, env)
        finally: self._sink = None
        return True
    def is_self(self, n, env):
        if n['kind'] == 'UnaryOperator' and n.get('opcode') == '*' and strip(n['inner'][0])['kind'] == 'CXXThisExpr': return True
        if n['kind'] == 'CXXOperatorCallExpr' and opname(n) == '*' and len(n['inner']) == 2 and strip(n['inner'][1])['kind'] == 'CXXThisExpr': return True
        if n['kind'] == 'DeclRefExpr':     # a non-const reference local initialised with *this
            nm = n['referencedDecl']['name']; qt = n['referencedDecl'].get('type', {}).get('qualType', '')
            return env.get(nm) == env.get('self') and qt.rstrip().endswith('&') and 'const' not in qt
        return False
    def assign(self, lhs, rhs, env):
        if not getattr(self, '_sink', None) or env.get('self') != 'M33':
            raise Untranslatable('assignment outside a statement of a self-mutating kernel')
        lines, indent = self._sink
        v, vt = self.expr(rhs, env)          # nested assignments (a = b = e, a = -(b = e)) are emitted first
        l = strip(lhs); path = []
        while l['kind'] == 'ParenExpr': l = strip(l['inner'][0])
        while l['kind'] == 'ArraySubscriptExpr' or (l['kind'] == 'CXXOperatorCallExpr' and opname(l) == '[]'):
            sub = l['inner'] if l['kind'] == 'ArraySubscriptExpr' else l['inner'][1:]
            ix = strip(sub[1])
            if ix['kind'] != 'IntegerLiteral': raise Untranslatable('assignment through a non-literal subscript')
            path.insert(0, int(ix['value'])); l = strip(sub[0])
        if not self.is_self(l, env): raise Untranslatable('assignment to something other than the self matrix')
        alias = l['referencedDecl']['name'] if l['kind'] == 'DeclRefExpr' else None
        if len(path) == 0 and vt == 'M33': new = v
        elif len(path) == 2 and vt == 'S' and max(path) <= 2:
            self._tmp = getattr(self, '_tmp', 0) + 1; tn = 'asg%d' % self._tmp
            lines.append('%slet %s : T := %s in' % (indent, tn, v)); v = tn
            names = [['m%d%d' % (i, j) for j in range(3)] for i in range(3)]
            tup = lambda nn: '(' + ', '.join('(' + ', '.join(r) + ')' for r in nn) + ')'
            pat = tup(names); names[path[0]][path[1]] = tn
            new = "(let '%s := self in %s)" % (pat, tup(names))
        else: raise Untranslatable('assignment shape %s %s' % (path, vt))
        lines.append('%slet self : %s := %s in' % (indent, COQTY['M33'], new))
        if alias: lines.append('%slet %s : %s := self in' % (indent, alias, COQTY['M33']))
        return v, vt
    def fn(self, f):
        env = dict(f.params); lines = []; self._selfty = env.get('self'); self._sink = None
        if not self.stmts(f.body.get('inner', []), env, f, lines):
            if env.get('self') == f.ret: lines.append('  self')       # (C27) void self-mutating kernel: result is the object
            else: raise Untranslatable('no return')
        ps = ' '.join('(%s : %s)' % (n, COQTY[t]) for n, t in f.params)
        return 'Definition %s {T} (K : NumOps T) %s : %s :=\n%s.\n' % (f.coqname, ps, COQTY[f.ret], '\n'.join(lines))

def find_functions(docs, container, names):
    """Return {(name,nparams): node} of function definitions with bodies.
    container: ('classtemplate', 'Rotation_') | ('class', 'X') | ('free', None)"""
    found = {}
    def has_body(n): return any(c['kind'] == 'CompoundStmt' for c in n.get('inner', []))
    def nparams(n): return sum(1 for c in n.get('inner', []) if c['kind'] == 'ParmVarDecl')
    kind, cname = container
    for d in docs:
        roots = []
        if kind == 'classtemplate':
            if d.get('kind') == 'ClassTemplateDecl' and d.get('name') == cname:
                recs = [c for c in d.get('inner', []) if c['kind'] == 'CXXRecordDecl']
                if recs: roots = [recs[0]]
        elif kind == 'class':
            if d.get('kind') == 'CXXRecordDecl' and d.get('name') == cname: roots = [d]
            elif d.get('kind') == 'CXXMethodDecl': roots = [d]
        else:
            roots = [d]
        for r in roots:
            for n in walk(r):
                if n.get('kind') in ('CXXMethodDecl', 'FunctionDecl') and n.get('name') in names and has_body(n):
                    found.setdefault((n['name'], nparams(n)), []).append(n)
    return found

def translate_group(gname, spec):
    docs = clang_ast(spec['tu'], spec['filter'])
    for f2 in spec.get('more_filters', []): docs += clang_ast(spec['tu'], f2)     # (C29) free functions without a common name substring
    names = set(k['name'] for k in spec['kernels'])
    cands = find_functions(docs, spec['container'], names)
    fns = {}; out = []; failed = []; meta = []
    tr = Tr(fns, spec.get('consts'))
    if spec.get('consts'): tr.srctext = open(os.path.join(REPO, spec['source'])).read()     # (C29) names of dependent-scope calls are read from the source text
    for k in spec['kernels']:
        name, np_, coq = k['name'], k['nparams'], k['coq']
        nodes = cands.get((name, np_), [])
        if k.get('sig'):    # disambiguate overloads by substring of the function type
            nodes = [n for n in nodes if k['sig'] in n['type']['qualType']]
        if not nodes:
            failed.append((name, 'not found in current source')); continue
        try:
            f = Fn(nodes[0], coq, ret=k.get('ret'), params=k.get('params'))
            if k.get('self'): f.params = [('self', k['self'])] + f.params     # (C27) member kernel: the object is the first parameter
            if k.get('members'): f.params = [tuple(x) for x in k['members']] + f.params   # (C29) data members of *this read by the kernel become leading parameters
            txt = tr.fn(f); fns[(name, np_)] = f; out.append(txt)
            loc = nodes[0].get('loc', {})
            meta.append({'name': name, 'coq': coq, 'params': f.params, 'ret': f.ret, 'cxx': k.get('cxx'),
                         'line': loc.get('line') or loc.get('expansionLoc', {}).get('line')})
        except Untranslatable as e:
            failed.append((name, str(e)))
        except (KeyError, IndexError) as e:
            failed.append((name, 'translator error %r' % (e,)))
    gen = os.path.join(VERIF, 'coq', 'Gen'); os.makedirs(gen, exist_ok=True)
    hdr = '(* generated by translate/sk2coq.py from %s -- do not edit; regenerated on every check run *)\n' % spec['source']
    hdr += 'From Coq Require Import ZArith.\nRequire Import Num Vec.\n\n'
    body = hdr + '\n'.join(out)
    for n, why in failed: body += '\n(* FAILED %s: %s *)' % (n, why)
    path = os.path.join(gen, '%s_gen.v' % gname)
    old = open(path).read() if os.path.exists(path) else None
    if old != body: open(path, 'w').write(body)     # keep mtime when unchanged so make does nothing
    json.dump({'group': gname, 'source': spec['source'], 'kernels': meta, 'failed': failed},
              open(os.path.join(gen, '%s.json' % gname), 'w'), indent=1)
    return meta, failed

def main():
    sys.path.insert(0, os.path.join(VERIF, 'translate'))
    import kernels
    g = sys.argv[1]
    meta, failed = translate_group(g, kernels.GROUPS[g])
    sys.stderr.write('sk2coq %s: translated %d, failed %d\n' % (g, len(meta), len(failed)))
    for f in failed: sys.stderr.write('  FAILED %s: %s\n' % f)
    sys.exit(3 if failed else 0)

if __name__ == '__main__':
    main()
